// Package certspec builds certificates (QC, TC, AggregateQC) from a *specification* that says who really signed what
// and what the certificate claims, for the three signature schemes, and computes the ground truth ("how many distinct
// configured replicas really produced a valid signature over exactly the content this certificate claims") from the
// specification alone — never from the verification code under test.
package certspec

import (
	"bytes"
	"fmt"
	"sort"
	"sync"

	bls "github.com/kilic/bls12-381"
	"github.com/relab/hotstuff"
	"github.com/relab/hotstuff/core"
	"github.com/relab/hotstuff/internal/proto/clientpb"
	"github.com/relab/hotstuff/security/cert"
	"github.com/relab/hotstuff/security/crypto"
	"github.com/relab/hotstuff/verifx/kit"
)

// Entry is one signature inside a certificate.
type Entry struct {
	Claimed int    // signer label carried by the signature (1..n configured; larger = unknown replica)
	Key     int    // whose private key really produced the bytes (1..n); 0 = a throw-away key nobody knows (garbage)
	Empty   bool   // multi-signature schemes only: zero-length signature bytes
	Blk     int    // QC: index of the block whose bytes were signed (0..3); -1 = the 8 view bytes of View were signed instead
	View    uint64 // TC: the view that was signed. AggQC: the view inside the signed timeout message
	SID     int    // AggQC: the sender id inside the signed timeout message
	SQC     int    // AggQC: pool index of the QC inside the signed timeout message
}

// MapEnt is one entry of an aggregate certificate's id -> QC map.
type MapEnt struct {
	ID int
	QC int // pool index
}

// Spec describes one certificate.
type Spec struct {
	Scheme    string
	N         int
	Cache     int
	Kind      string // qc | tc | aggqc
	ViaAPI    bool   // assembled with Authority.Create* from the entries (which are then all honest)
	ClaimBlk  int    // QC: block the certificate names: 0..3 stored blocks, 4 = a block nobody stores, 5 = genesis
	ClaimView uint64 // view the certificate states
	Map       []MapEnt
	Entries   []Entry
	Verifier  int // 0 = every replica; k = replica k only
}

// Pool indices of the prepared QCs.
const (
	PoolGenesis = iota
	PoolB0          // honest, block view 1, q signers
	PoolB1          // honest, block view 2, all signers
	PoolB3          // honest, block view 5, q signers
	PoolSubQuorum   // B3 with q-1 signers
	PoolRelabel9    // B1's signature, stated view 9
	PoolRelabelHuge // B1's signature, stated view 2^63
	PoolUnknownBlk  // names a block nobody stores
	PoolRepeated    // B3, one signer repeated q times
	PoolGenesisV7   // genesis hash, stated view 7
	PoolNilSig      // B3 with a nil signature
	PoolB3Relabel   // B3's signature bytes with the signer labels re-attributed (one label replaced by a non-signer, or rotated)
	PoolB3Resplit   // B3's signature bytes split differently between the entries (ECDSA; otherwise like PoolB3Relabel)
	PoolGenesisSigned // genesis hash, view 0, but carrying B0's (decodable, unrelated) signature: not the genesis certificate
	PoolB3Other     // honest, block view 5 like PoolB3, but assembled by another collector: the LAST q members in reverse order (other signer set when n > q, other order for signer lists)
	PoolB3Retyped // B3's signer ids and signature bytes under the OTHER list scheme's type (ECDSA <-> EdDSA; BLS: the same as PoolB3Relabel): cannot be verified
	PoolSize
)

// poolValid is the ground truth for the prepared QCs; PoolBlockView the view of the certified block.
var (
	poolValid     = [PoolSize]bool{true, true, true, true, false, false, false, false, false, false, false, false, false, false, true, false}
	PoolBlockView = [PoolSize]uint64{0, 1, 2, 5, 5, 2, 2, 3, 5, 0, 5, 5, 5, 0, 5, 5}
)

// PoolValid reports the ground truth of pool QC i (a signer "repeated q times" is one honest signature when q == 1).
func (w *World) PoolValid(i int) bool {
	if i == PoolRepeated {
		return w.Q == 1
	}
	return poolValid[i]
}

// World is the fixture for one (scheme, n): replicas with real keys, four stored blocks, the QC pool.
type World struct {
	Scheme  string
	N, Q    int
	Members []*kit.Member
	Blocks  [4]*hotstuff.Block // B0 view 1; B1 view 2 child of B0; B2 view 2 sibling of B1; B3 view 5 child of B1
	Unknown *hotstuff.Block    // stored nowhere
	Pool    [PoolSize]hotstuff.QuorumCert
	garbage *kit.Member // a replica of a different cluster: its signatures verify under nobody's configured key

	mu      sync.Mutex
	cfgs    map[string]*core.RuntimeConfig
}

var (
	worldMu sync.Mutex
	worlds  = map[string]*World{}
)

func cmd(s string) *clientpb.Batch {
	return &clientpb.Batch{Commands: []*clientpb.Command{{ClientID: 1, SequenceNumber: 1, Data: []byte(s)}}}
}

// GetWorld returns the cached fixture.
func GetWorld(scheme string, n int) *World {
	worldMu.Lock()
	defer worldMu.Unlock()
	key := fmt.Sprintf("%s/%d", scheme, n)
	if w, ok := worlds[key]; ok {
		return w
	}
	w := &World{Scheme: scheme, N: n, Q: hotstuff.QuorumSize(n), cfgs: map[string]*core.RuntimeConfig{}}
	w.Members = kit.NewCluster(scheme, n)
	// a foreign cluster: fresh keys that are not configured anywhere in this world
	foreign := kit.NewForeignMember(scheme)
	w.garbage = foreign
	g := hotstuff.GetGenesis()
	w.Blocks[0] = kit.NewBlock(g.Hash(), kit.GenesisQC(), cmd("b0"), 1, 1)
	kit.StoreAll(w.Members, w.Blocks[0])
	w.Pool[PoolGenesis] = kit.GenesisQC()
	w.Pool[PoolB0] = w.honestQC(w.Blocks[0], w.Q)
	w.Blocks[1] = kit.NewBlock(w.Blocks[0].Hash(), w.Pool[PoolB0], cmd("b1"), 2, hotstuff.ID(1+1%n))
	w.Blocks[2] = kit.NewBlock(w.Blocks[0].Hash(), w.Pool[PoolB0], cmd("b2"), 2, 1)
	kit.StoreAll(w.Members, w.Blocks[1])
	kit.StoreAll(w.Members, w.Blocks[2])
	w.Pool[PoolB1] = w.honestQC(w.Blocks[1], n)
	w.Blocks[3] = kit.NewBlock(w.Blocks[1].Hash(), w.Pool[PoolB1], cmd("b3"), 5, 1)
	kit.StoreAll(w.Members, w.Blocks[3])
	w.Pool[PoolB3] = w.honestQC(w.Blocks[3], w.Q)
	w.Unknown = kit.NewBlock(w.Blocks[3].Hash(), w.Pool[PoolB3], cmd("unknown"), 6, 1)
	w.Pool[PoolSubQuorum] = w.honestQC(w.Blocks[3], w.Q-1)
	w.Pool[PoolRelabel9] = hotstuff.NewQuorumCert(w.Pool[PoolB1].Signature(), 9, w.Blocks[1].Hash())
	w.Pool[PoolRelabelHuge] = hotstuff.NewQuorumCert(w.Pool[PoolB1].Signature(), 1<<63, w.Blocks[1].Hash())
	w.Pool[PoolUnknownBlk] = hotstuff.NewQuorumCert(w.Pool[PoolB0].Signature(), 3, w.Unknown.Hash())
	rep := make([]Entry, w.Q)
	for i := range rep {
		rep[i] = Entry{Claimed: 1, Key: 1, Blk: 3}
	}
	w.Pool[PoolRepeated] = hotstuff.NewQuorumCert(w.buildSig(rep, func(e Entry) []byte { return w.Blocks[3].ToBytes() }), 5, w.Blocks[3].Hash())
	if w.Q == 1 {
		w.Pool[PoolRepeated] = w.Pool[PoolB3] // "repeated q times" with q == 1 is the honest certificate itself
	}
	w.Pool[PoolGenesisV7] = hotstuff.NewQuorumCert(nil, 7, g.Hash())
	w.Pool[PoolNilSig] = hotstuff.NewQuorumCert(nil, 5, w.Blocks[3].Hash())
	w.Pool[PoolB3Relabel] = hotstuff.NewQuorumCert(relabelSig(w, w.Pool[PoolB3].Signature(), false), 5, w.Blocks[3].Hash())
	w.Pool[PoolB3Resplit] = hotstuff.NewQuorumCert(relabelSig(w, w.Pool[PoolB3].Signature(), true), 5, w.Blocks[3].Hash())
	w.Pool[PoolGenesisSigned] = hotstuff.NewQuorumCert(w.Pool[PoolB0].Signature(), 0, g.Hash())
	w.Pool[PoolB3Retyped] = w.Pool[PoolB3Relabel]
	switch m := w.Pool[PoolB3].Signature().(type) {
	case crypto.Multi[*crypto.ECDSASignature]:
		var out crypto.Multi[*crypto.EDDSASignature]
		for _, e := range m {
			out = append(out, crypto.RestoreEDDSASignature(e.ToBytes(), e.Signer()))
		}
		w.Pool[PoolB3Retyped] = hotstuff.NewQuorumCert(out, 5, w.Blocks[3].Hash())
	case crypto.Multi[*crypto.EDDSASignature]:
		var out crypto.Multi[*crypto.ECDSASignature]
		for _, e := range m {
			out = append(out, crypto.RestoreECDSASignature(e.ToBytes(), e.Signer()))
		}
		w.Pool[PoolB3Retyped] = hotstuff.NewQuorumCert(out, 5, w.Blocks[3].Hash())
	}
	w.Pool[PoolB3Other] = w.Pool[PoolB3]
	if w.Q >= 2 {
		var last []*kit.Member
		for i := n - 1; i >= n-w.Q; i-- {
			last = append(last, w.Members[i])
		}
		if sig, err := kit.CombineAny(w.Scheme, w.Members[0].Base, kit.SignEach(last, w.Blocks[3].ToBytes())); err == nil {
			w.Pool[PoolB3Other] = hotstuff.NewQuorumCert(sig, 5, w.Blocks[3].Hash())
		}
	}
	worlds[key] = w
	return w
}

// relabelSig keeps the signature bytes of s and re-attributes the signers (rotating the labels; with a single signer the
// label becomes another replica or an unknown id). With resplit, ECDSA signature bytes are additionally cut at another place.
func relabelSig(w *World, s hotstuff.QuorumSignature, resplit bool) hotstuff.QuorumSignature {
	other := func(id hotstuff.ID) hotstuff.ID { return id%hotstuff.ID(w.N+1) + 1 }
	switch m := s.(type) {
	case crypto.Multi[*crypto.ECDSASignature]:
		out := make([]*crypto.ECDSASignature, len(m))
		if resplit && len(m) >= 2 {
			for i, p := range m {
				out[i] = crypto.RestoreECDSASignature(p.ToBytes(), p.Signer())
			}
			a, b := m[0].ToBytes(), m[1].ToBytes()
			out[0] = crypto.RestoreECDSASignature(a[:len(a)-1], m[0].Signer())
			out[1] = crypto.RestoreECDSASignature(append([]byte{a[len(a)-1]}, b...), m[1].Signer())
			return crypto.NewMulti(out...)
		}
		for i, p := range m {
			out[i] = crypto.RestoreECDSASignature(p.ToBytes(), m[(i+1)%len(m)].Signer())
		}
		if len(m) == 1 {
			out[0] = crypto.RestoreECDSASignature(m[0].ToBytes(), other(m[0].Signer()))
		}
		return crypto.NewMulti(out...)
	case crypto.Multi[*crypto.EDDSASignature]:
		out := make([]*crypto.EDDSASignature, len(m))
		for i, p := range m {
			out[i] = crypto.RestoreEDDSASignature(p.ToBytes(), m[(i+1)%len(m)].Signer())
		}
		if len(m) == 1 {
			out[0] = crypto.RestoreEDDSASignature(m[0].ToBytes(), other(m[0].Signer()))
		}
		return crypto.NewMulti(out...)
	case *crypto.BLS12AggregateSignature:
		var bf crypto.Bitfield
		first := true
		m.Participants().ForEach(func(id hotstuff.ID) {
			if first {
				// replace the first signer by a replica that did not sign (or an unknown id)
				first = false
				cand := hotstuff.ID(1)
				for m.Participants().Contains(cand) {
					cand++
				}
				bf.Add(cand)
				return
			}
			bf.Add(id)
		})
		r, err := crypto.RestoreBLS12AggregateSignature(m.ToBytes(), bf)
		if err != nil {
			panic(err)
		}
		return r
	}
	panic("unknown signature type")
}

func (w *World) honestQC(b *hotstuff.Block, k int) hotstuff.QuorumCert {
	sig, err := kit.CombineAny(w.Scheme, w.Members[0].Base, kit.SignEach(w.Members[:k], b.ToBytes()))
	if err != nil {
		panic(err)
	}
	return hotstuff.NewQuorumCert(sig, b.View(), b.Hash())
}

// sameAs maps a pool index to the lowest index that holds the very same certificate object (some entries fall back to
// another one where the intended difference cannot be made: b3-other-quorum when n = q and the scheme has no signer order,
// b3-retyped under BLS).
func (w *World) sameAs(p int) int {
	for q := 0; q < p; q++ {
		a, b := w.Pool[q], w.Pool[p]
		if a.View() != b.View() || a.BlockHash() != b.BlockHash() || (a.Signature() == nil) != (b.Signature() == nil) {
			continue
		}
		if a.Signature() == nil || (fmt.Sprintf("%T", a.Signature()) == fmt.Sprintf("%T", b.Signature()) && string(a.ToBytes()) == string(b.ToBytes())) {
			return q
		}
	}
	return p
}

// Auth returns a *fresh* certificate authority for member id (1-based) with the given cache capacity, reusing the
// member's keys, membership and block store.
func (w *World) Auth(id, cacheSize int, aggQC bool) *cert.Authority {
	m := w.Members[id-1]
	key := fmt.Sprintf("%d/%d/%v", id, cacheSize, aggQC)
	w.mu.Lock()
	cfg, ok := w.cfgs[key]
	if !ok {
		opts := []core.RuntimeOption{core.WithSyncVerification()}
		if cacheSize != 0 {
			opts = append(opts, core.WithCache(uint(cacheSize))) // negative: the largest capacities an operator can write ("never evict")
		}
		if aggQC {
			opts = append(opts, core.WithAggregateQC())
		}
		cfg = core.NewRuntimeConfig(m.ID, m.Cfg.PrivateKey(), opts...)
		for i := 1; i <= w.N; i++ {
			info, _ := m.Cfg.ReplicaInfo(hotstuff.ID(i))
			cfg.AddReplica(info)
		}
		w.cfgs[key] = cfg
	}
	w.mu.Unlock()
	return cert.NewAuthority(cfg, m.BC, m.Base)
}

// rawSig returns the raw signature bytes of `key` over msg (key 0 = the foreign replica).
func (w *World) signer(key int) *kit.Member {
	if key >= 1 && key <= w.N {
		return w.Members[key-1]
	}
	return w.garbage
}

// buildSig assembles a signature object of the world's scheme from entries; msgOf gives the bytes each entry signed.
func (w *World) buildSig(entries []Entry, msgOf func(Entry) []byte) hotstuff.QuorumSignature {
	switch w.Scheme {
	case crypto.NameECDSA:
		sigs := make([]*crypto.ECDSASignature, 0, len(entries))
		for _, e := range entries {
			var raw []byte
			if !e.Empty {
				s, err := w.signer(e.Key).Base.Sign(msgOf(e))
				if err != nil {
					panic(err)
				}
				raw = kit.RawSig(s)
			}
			sigs = append(sigs, crypto.RestoreECDSASignature(raw, hotstuff.ID(e.Claimed)))
		}
		return crypto.NewMulti(sigs...)
	case crypto.NameEDDSA:
		sigs := make([]*crypto.EDDSASignature, 0, len(entries))
		for _, e := range entries {
			var raw []byte
			if !e.Empty {
				s, err := w.signer(e.Key).Base.Sign(msgOf(e))
				if err != nil {
					panic(err)
				}
				raw = kit.RawSig(s)
			}
			sigs = append(sigs, crypto.RestoreEDDSASignature(raw, hotstuff.ID(e.Claimed)))
		}
		return crypto.NewMulti(sigs...)
	case crypto.NameBLS12:
		g2 := bls.NewG2()
		acc := *g2.Zero()
		var bf crypto.Bitfield
		for _, e := range entries {
			if !e.Empty { // an "empty" BLS entry contributes a label but no signature share
				s, err := w.signer(e.Key).Base.Sign(msgOf(e))
				if err != nil {
					panic(err)
				}
				p, err := g2.FromCompressed(s.ToBytes())
				if err != nil {
					panic(err)
				}
				g2.Add(&acc, &acc, p)
			}
			bf.Add(hotstuff.ID(e.Claimed))
		}
		agg, err := crypto.RestoreBLS12AggregateSignature(g2.ToCompressed(&acc), bf)
		if err != nil {
			panic(err)
		}
		return agg
	}
	panic("unknown scheme")
}

// Built is a certificate built from a Spec together with its ground truth.
type Built struct {
	QC    hotstuff.QuorumCert
	TC    hotstuff.TimeoutCert
	AggQC hotstuff.AggregateQC
	// ground truth
	ValidSigners  int      // distinct configured claimed signers whose signature is a real signature by that replica over exactly the claimed content
	EntryClasses  []string // per entry: valid | wrongkey | foreignmsg | unknownid | empty | garbage | repeat
	CertLevelOK   bool     // QC: the named block is stored (or genesis with view 0) and the stated view is that block's view
	AllHonest     bool     // every entry valid, signers pairwise distinct, >= q of them, certificate-level facts right (AggQC: map ids == signers, all attested QCs valid)
	BestValidView int64    // AggQC: highest block view among the valid QCs attested (map entry) by replicas that really signed, -1 if none
}

func (w *World) claimedBlock(i int) (*hotstuff.Block, bool) {
	switch {
	case i >= 0 && i <= 3:
		return w.Blocks[i], true
	case i == 4:
		return w.Unknown, false
	case i == 5:
		return hotstuff.GetGenesis(), true
	}
	return nil, false
}

func (w *World) timeoutBytes(id int, view uint64, qc int) []byte {
	return hotstuff.TimeoutMsg{ID: hotstuff.ID(id), View: hotstuff.View(view), SyncInfo: hotstuff.NewSyncInfoWith(w.Pool[((qc%PoolSize)+PoolSize)%PoolSize])}.ToBytes()
}

// Build constructs the certificate and its ground truth.
func (w *World) Build(s Spec) (b Built, err error) {
	var msgOf func(Entry) []byte     // the bytes an entry's signer really signed
	var contentOf func(Entry) []byte // canonical description of what was signed (defaults to the bytes)
	var expOf func(claimed int) []byte // canonical description of what the certificate claims this signer signed; nil = nothing makes the entry valid
	b.CertLevelOK = true
	switch s.Kind {
	case "qc":
		blk, stored := w.claimedBlock(s.ClaimBlk)
		if blk == nil {
			return b, fmt.Errorf("bad ClaimBlk")
		}
		b.CertLevelOK = stored && uint64(blk.View()) == s.ClaimView
		msgOf = func(e Entry) []byte {
			if e.Blk >= 0 && e.Blk <= 3 {
				return w.Blocks[e.Blk].ToBytes()
			}
			return hotstuff.View(e.View).ToBytes()
		}
		expOf = func(int) []byte {
			if !stored {
				return nil
			}
			return blk.ToBytes()
		}
	case "tc":
		msgOf = func(e Entry) []byte {
			if e.Blk >= 0 && e.Blk <= 3 {
				return w.Blocks[e.Blk].ToBytes()
			}
			return hotstuff.View(e.View).ToBytes()
		}
		expOf = func(int) []byte { return hotstuff.View(s.ClaimView).ToBytes() }
	case "aggqc":
		m := map[int]int{}
		for _, me := range s.Map {
			m[me.ID] = me.QC
		}
		// Validity is decided on CONTENT (which replica's message, which view, which certificate object), not on byte
		// equality of encodings: two different certificates must not be interchangeable inside a signed timeout message.
		canon := func(id int, view uint64, qc int) []byte {
			p := ((qc % PoolSize) + PoolSize) % PoolSize
			if p == PoolRepeated && w.Q == 1 {
				p = PoolB3 // with a quorum of one, "the signer repeated q times" IS the honest certificate (same block, view, signer)
			}
			p = w.sameAs(p) // pool entries that could not be made different for this n / scheme ARE the entry they fall back to
			return []byte(fmt.Sprintf("timeout|%d|%d|%d", id, view, p))
		}
		msgOf = func(e Entry) []byte { return w.timeoutBytes(e.SID, e.View, e.SQC) }
		contentOf = func(e Entry) []byte { return canon(e.SID, e.View, e.SQC) }
		expOf = func(c int) []byte {
			qc, ok := m[c]
			if !ok {
				return nil
			}
			return canon(c, s.ClaimView, qc)
		}
	default:
		return b, fmt.Errorf("bad kind")
	}
	if contentOf == nil {
		contentOf = msgOf
	}
	// ground truth per entry
	validSet := map[int]bool{}
	seen := map[int]bool{}
	allValid, distinct := true, true
	for _, e := range s.Entries {
		cl := "valid"
		exp := expOf(e.Claimed)
		switch {
		case e.Claimed < 1 || e.Claimed > w.N:
			cl = "unknownid"
		case e.Empty:
			cl = "empty"
		case e.Key == 0:
			cl = "garbage"
		case e.Key != e.Claimed:
			cl = "wrongkey"
		case exp == nil || !bytes.Equal(exp, contentOf(e)):
			cl = "foreignmsg"
		}
		if cl == "valid" {
			validSet[e.Claimed] = true
		} else {
			allValid = false
		}
		if seen[e.Claimed] {
			distinct = false
			if cl == "valid" {
				cl = "repeat"
			}
		}
		seen[e.Claimed] = true
		b.EntryClasses = append(b.EntryClasses, cl)
	}
	if w.Scheme == crypto.NameBLS12 {
		// In an aggregate the labels (bit-field) are not attached to individual shares: replica id counts as a real
		// signer iff it is labelled and SOME share in the aggregate was produced with id's key over exactly the
		// content the certificate claims for id.
		validSet = map[int]bool{}
		for id := range seen {
			exp := expOf(id)
			if id < 1 || id > w.N || exp == nil {
				continue
			}
			for _, e := range s.Entries {
				if !e.Empty && e.Key == id && bytes.Equal(exp, contentOf(e)) {
					validSet[id] = true
				}
			}
		}
	}
	if b.CertLevelOK {
		b.ValidSigners = len(validSet)
	}
	b.AllHonest = allValid && distinct && b.CertLevelOK && len(s.Entries) >= w.Q
	// the object
	var sig hotstuff.QuorumSignature
	if s.ViaAPI {
		sig = nil // filled below through the real Create* functions
	} else {
		sig = w.buildSig(s.Entries, msgOf)
	}
	auth := w.Members[0].Auth
	switch s.Kind {
	case "qc":
		blk, _ := w.claimedBlock(s.ClaimBlk)
		if s.ViaAPI {
			var pcs []hotstuff.PartialCert
			for _, e := range s.Entries {
				pc, perr := w.Members[e.Claimed-1].Auth.CreatePartialCert(blk)
				if perr != nil {
					return b, perr
				}
				pcs = append(pcs, pc)
			}
			b.QC, err = auth.CreateQuorumCert(blk, pcs)
			return b, err
		}
		if s.ClaimBlk == 5 && len(s.Entries) == 0 {
			sig = nil // the genesis certificate carries no signature
		}
		b.QC = hotstuff.NewQuorumCert(sig, hotstuff.View(s.ClaimView), blk.Hash())
	case "tc":
		if s.ViaAPI {
			b.TC, err = auth.CreateTimeoutCert(hotstuff.View(s.ClaimView), w.honestTimeouts(s))
			return b, err
		}
		b.TC = hotstuff.NewTimeoutCert(sig, hotstuff.View(s.ClaimView))
	case "aggqc":
		b.BestValidView = -1
		ids := map[int]bool{}
		qcs := map[hotstuff.ID]hotstuff.QuorumCert{}
		allQCValid := true
		// the certificate holds ONE certificate per id: a specification that lists an id twice describes the map after the
		// last assignment (the ground truth must be about the certificate that is built, not about overwritten entries)
		eff := map[int]int{}
		for _, me := range s.Map {
			p := ((me.QC % PoolSize) + PoolSize) % PoolSize
			qcs[hotstuff.ID(me.ID)] = w.Pool[p]
			ids[me.ID] = true
			eff[me.ID] = p
		}
		for id, p := range eff {
			if w.PoolValid(p) {
				// only QCs attested by replicas that really signed their timeout message count
				if validSet[id] && int64(PoolBlockView[p]) > b.BestValidView {
					b.BestValidView = int64(PoolBlockView[p])
				}
			} else {
				allQCValid = false
			}
		}
		sameIDs := len(ids) == len(seen)
		for id := range ids {
			if !seen[id] {
				sameIDs = false
			}
		}
		b.AllHonest = b.AllHonest && sameIDs && allQCValid && len(s.Map) > 0
		if s.ViaAPI {
			b.AggQC, err = auth.CreateAggregateQC(hotstuff.View(s.ClaimView), w.honestTimeouts(s))
			return b, err
		}
		b.AggQC = hotstuff.NewAggregateQC(qcs, sig, hotstuff.View(s.ClaimView))
	}
	return b, nil
}

// honestTimeouts builds the timeout messages the entries' signers would really send for view ClaimView.
func (w *World) honestTimeouts(s Spec) []hotstuff.TimeoutMsg {
	m := map[int]int{}
	for _, me := range s.Map {
		m[me.ID] = me.QC
	}
	var out []hotstuff.TimeoutMsg
	for _, e := range s.Entries {
		mem := w.Members[e.Claimed-1]
		tm := hotstuff.TimeoutMsg{ID: mem.ID, View: hotstuff.View(s.ClaimView), SyncInfo: hotstuff.NewSyncInfoWith(w.Pool[m[e.Claimed]])}
		vs, err := mem.Auth.Sign(hotstuff.View(s.ClaimView).ToBytes())
		if err != nil {
			panic(err)
		}
		tm.ViewSignature = vs
		ms, err := mem.Auth.Sign(tm.ToBytes())
		if err != nil {
			panic(err)
		}
		tm.MsgSignature = ms
		out = append(out, tm)
	}
	return out
}

// ClassKey summarises a spec for the distinctness count.
func ClassKey(s Spec, b Built, verdict string) string {
	cl := append([]string(nil), b.EntryClasses...)
	sort.Strings(cl)
	return fmt.Sprintf("%s/%d/%s/api=%v/certok=%v/%v/%s", s.Scheme, s.N, s.Kind, s.ViaAPI, b.CertLevelOK, cl, verdict)
}
