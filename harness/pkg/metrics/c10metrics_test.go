package metrics

// C10 with the replica metrics enabled (every experiment enables them): the metrics are handlers on the replica's event
// loop, fed by events that the replica's own components emit FOR BLOCKS THAT PEERS MADE. A committed block is handed on as
// clientpb.ExecuteEvent{Batch: block.Commands()}; the batch is whatever the proposer put on the wire - absent, empty, with
// nil entries. Generated: sequences of such events (plus view changes, latency reports and ticks); oracle: no handler
// panics (a panic on the event loop ends the replica).

import (
	"context"
	"fmt"
	"io"
	"runtime/debug"
	"testing"
	"time"

	"github.com/relab/hotstuff"
	"github.com/relab/hotstuff/core/eventloop"
	"github.com/relab/hotstuff/core/logging"
	"github.com/relab/hotstuff/internal/proto/clientpb"
	"github.com/relab/hotstuff/internal/proto/hotstuffpb"
	"github.com/relab/hotstuff/metrics/types"
	"github.com/relab/hotstuff/verifx/common"
	"google.golang.org/protobuf/proto"
	"pgregory.net/rapid"
)

type mEv struct {
	K     string // exec | view | latency | tick
	Batch int    // exec: 0 the block came without a Commands field, 1 empty batch, 2 a batch with a nil entry, 3.. that many commands
	A     int64
	T     bool
}

type mCase struct{ Evs []mEv }

// batchOf builds the block as a peer would send it and returns what the committer passes on: BlockFromProto(...).Commands().
func batchOf(kind int) *clientpb.Batch {
	pb := &hotstuffpb.Block{Parent: make([]byte, 32), View: 1, Proposer: 2}
	switch {
	case kind == 0:
	case kind == 1:
		pb.Commands = &clientpb.Batch{}
	case kind == 2:
		pb.Commands = &clientpb.Batch{Commands: []*clientpb.Command{nil, {ClientID: 1, SequenceNumber: 1}}}
	default:
		b := &clientpb.Batch{}
		for i := 0; i < kind-2; i++ {
			b.Commands = append(b.Commands, &clientpb.Command{ClientID: 1, SequenceNumber: uint64(i + 1), Data: []byte{byte(i)}})
		}
		pb.Commands = b
	}
	wire, err := proto.Marshal(pb)
	if err != nil {
		return nil
	}
	var back hotstuffpb.Block
	if proto.Unmarshal(wire, &back) != nil {
		return nil
	}
	return hotstuffpb.BlockFromProto(&back).Commands()
}

func metricsProp(c mCase) common.Result {
	lg := logging.NewWithDest(io.Discard, "m")
	el := eventloop.New(lg, 256)
	enableThroughput(el, NopLogger(), 1)
	enableViewTimeouts(el, NopLogger(), 1)
	enableConsensusLatency(el, NopLogger(), 1)
	for i, e := range c.Evs {
		var ev any
		switch e.K {
		case "exec":
			ev = clientpb.ExecuteEvent{Batch: batchOf(e.Batch)}
		case "view":
			ev = hotstuff.ViewChangeEvent{View: hotstuff.View(e.A), Timeout: e.T}
		case "latency":
			ev = hotstuff.ConsensusLatencyEvent{Latency: time.Duration(e.A)}
		default:
			ev = types.TickEvent{LastTick: time.Unix(e.A%1_000_000, 0)}
		}
		var panicMsg, stack string
		func() {
			defer func() {
				if r := recover(); r != nil {
					panicMsg, stack = fmt.Sprint(r), string(debug.Stack())
				}
			}()
			el.AddEvent(ev)
			for k := 0; k < 100 && el.Tick(context.Background()); k++ {
			}
		}()
		if panicMsg != "" {
			return common.Fail("panic:metrics:"+common.TopRepoFrame(stack), "a metrics handler panicked on event #%d %+v (%T): %s\n%s", i, e, ev, panicMsg, stack)
		}
	}
	return common.OK(true, "", "metrics events")
}

func TestC10Metrics(t *testing.T) {
	common.Check(t, "C10", "TestC10Metrics", 2000, 60000, func(rt *rapid.T) mCase {
		var c mCase
		for i := rapid.IntRange(1, 12).Draw(rt, "n"); i > 0; i-- {
			c.Evs = append(c.Evs, mEv{K: rapid.SampledFrom([]string{"exec", "exec", "view", "latency", "tick"}).Draw(rt, "k"),
				Batch: rapid.IntRange(0, 6).Draw(rt, "batch"), A: rapid.Int64Range(-5, 1<<40).Draw(rt, "a"), T: rapid.Bool().Draw(rt, "t")})
		}
		return c
	}, metricsProp)
}
