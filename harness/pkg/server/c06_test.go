package server

// C06 (waiting-client clause) — a client waiting on a command gets at most one outcome from a replica, and a success
// outcome only after that replica executed the command. Injected as server/zz_verif_c06_test.go.

import (
	"bytes"
	"context"
	"crypto/sha256"
	"encoding"
	"fmt"
	"io"
	"net"
	"sync"
	"testing"
	"time"

	"github.com/relab/gorums"
	"google.golang.org/grpc"
	"google.golang.org/grpc/credentials/insecure"
	"google.golang.org/protobuf/types/known/emptypb"

	"github.com/relab/hotstuff/core/eventloop"
	"github.com/relab/hotstuff/core/logging"
	"github.com/relab/hotstuff/internal/proto/clientpb"
	"github.com/relab/hotstuff/verifx/common"
	"pgregory.net/rapid"
)

type ioOp struct {
	K    string // wait | exec | abort
	Cmds [][2]int // (client, seq) pairs
}

type ioCase struct {
	Ops []ioOp
}

type waiter struct {
	id       clientpb.MessageID
	ch       chan error
	outcomes []error
	mu       sync.Mutex
	done     chan struct{}
	stopped  chan struct{}
}

// verifWait registers a waiting client exactly as ExecCommand does (without the gorums context).
func (srv *ClientIO) verifWait(cmd *clientpb.Command) *waiter {
	w := &waiter{id: cmd.ID(), ch: make(chan error), done: make(chan struct{}), stopped: make(chan struct{})}
	srv.mut.Lock()
	srv.awaitingCmds[w.id] = w.ch
	srv.mut.Unlock()
	srv.cmdCache.Add(cmd)
	go func() {
		defer close(w.stopped)
		for {
			select {
			case e := <-w.ch:
				w.mu.Lock()
				w.outcomes = append(w.outcomes, e)
				w.mu.Unlock()
			case <-w.done:
				return
			}
		}
	}()
	return w
}

func mkCmd(p [2]int) *clientpb.Command {
	return &clientpb.Command{ClientID: uint32(p[0]), SequenceNumber: uint64(p[1]), Data: []byte(fmt.Sprintf("data-%d-%d;", p[0], p[1]))}
}

func ioProp(c ioCase) common.Result {
	lg := logging.NewWithDest(io.Discard, "c06")
	el := eventloop.New(lg, 64)
	srv := NewClientIO(el, lg, clientpb.NewCommandCache(1))
	var waiters []*waiter
	defer func() {
		for _, w := range waiters {
			close(w.done)
			<-w.stopped
		}
	}()
	applied := map[clientpb.MessageID]bool{}
	lastExec := map[uint32]uint64{}
	appliedCount := 0
	sawDup, sawAbortOfWaiting, sawWaitingDup := false, false, false
	outcomesSeen := map[*waiter]int{}
	for step, op := range c.Ops {
		batch := &clientpb.Batch{}
		for _, p := range op.Cmds {
			batch.Commands = append(batch.Commands, mkCmd(p))
		}
		switch op.K {
		case "wait":
			for _, p := range op.Cmds {
				waiters = append(waiters, srv.verifWait(mkCmd(p)))
			}
		case "abort":
			srv.Abort(batch)
		case "exec":
			pre, _ := srv.Hash().(encoding.BinaryMarshaler).MarshalBinary()
			srv.Exec(batch)
			now := srv.Hash().Sum(nil)
			found := -1
			for mask := 0; mask < 1<<uint(len(batch.Commands)); mask++ {
				h := sha256.New()
				_ = h.(encoding.BinaryUnmarshaler).UnmarshalBinary(pre)
				for i, cmd := range batch.Commands {
					if mask&(1<<uint(i)) != 0 {
						_, _ = h.Write(cmd.Data)
					}
				}
				if bytes.Equal(h.Sum(nil), now) {
					found = mask
					break
				}
			}
			if found < 0 {
				return common.Fail("io:digest-unexplained", "step %d: the digest after Exec equals no in-order subset of the batch", step)
			}
			// reference: what is executed depends on what was EXECUTED before and on nothing else - a command is applied
			// exactly when its sequence number is above the highest one executed for its client (aborts, waiting clients and
			// late requests change nothing about that)
			want := 0
			for i, cmd := range batch.Commands {
				if cmd.SequenceNumber > lastExec[cmd.ClientID] {
					want |= 1 << uint(i)
					lastExec[cmd.ClientID] = cmd.SequenceNumber
				}
			}
			if found != want {
				return common.Fail("io:exec-differs-from-model", "step %d: Exec applied the commands with mask %b of the batch %v, the reference (sequence number above the highest executed one of the client) says %b\nhistory: %+v", step, found, op.Cmds, want, c.Ops[:step+1])
			}
			for i, cmd := range batch.Commands {
				if found&(1<<uint(i)) != 0 {
					if applied[cmd.ID()] {
						return common.Fail("io:applied-twice", "step %d: command (client %d, seq %d) was applied a second time", step, cmd.ClientID, cmd.SequenceNumber)
					}
					applied[cmd.ID()] = true
					appliedCount++
				} else {
					sawDup = true
				}
			}
			if int(srv.CmdCount()) != appliedCount {
				return common.Fail("io:cmdcount", "step %d: CmdCount() = %d, %d commands were applied", step, srv.CmdCount(), appliedCount)
			}
		}
		// outcomes delivered by this operation (the sends are synchronous: they have happened when Exec/Abort returned)
		for _, w := range waiters {
			w.mu.Lock()
			n := len(w.outcomes)
			var last error
			if n > 0 {
				last = w.outcomes[n-1]
			}
			w.mu.Unlock()
			if n > 1 {
				return common.Fail("io:two-outcomes", "step %d: the client waiting for (client %d, seq %d) received %d outcomes", step, w.id.ClientID, w.id.SequenceNumber, n)
			}
			if n == 1 && outcomesSeen[w] == 0 {
				outcomesSeen[w] = 1
				if last == nil && !applied[w.id] {
					return common.Fail("io:success-without-execution", "step %d (%s): the client waiting for (client %d, seq %d) was told SUCCESS although this replica has not executed the command", step, op.K, w.id.ClientID, w.id.SequenceNumber)
				}
				if last != nil && op.K == "abort" {
					sawAbortOfWaiting = true
				}
				if last != nil && op.K == "exec" {
					sawWaitingDup = true
				}
			}
		}
	}
	var cl []string
	if sawDup {
		cl = append(cl, "duplicate-skipped")
	}
	if sawAbortOfWaiting {
		cl = append(cl, "waiting-client-aborted")
	}
	if sawWaitingDup {
		cl = append(cl, "waiting-client-told-duplicate")
	}
	return common.OK(sawAbortOfWaiting || sawWaitingDup, "", cl...)
}

func TestC06ClientIO(t *testing.T) {
	common.Check(t, "C06", "TestC06ClientIO", 2000, 100000, func(rt *rapid.T) ioCase {
		var c ioCase
		n := rapid.IntRange(1, 30).Draw(rt, "n")
		pair := func() [2]int { return [2]int{rapid.IntRange(1, 3).Draw(rt, "client"), rapid.IntRange(1, 6).Draw(rt, "seq")} }
		for i := 0; i < n; i++ {
			op := ioOp{K: rapid.SampledFrom([]string{"wait", "wait", "exec", "exec", "exec", "abort"}).Draw(rt, "k")}
			for j := rapid.IntRange(1, 3).Draw(rt, "m"); j > 0; j-- {
				op.Cmds = append(op.Cmds, pair())
			}
			c.Ops = append(c.Ops, op)
		}
		return c
	}, ioProp)
}

// ---- the same clause through the real RPC path: gorums client -> ClientIO.ExecCommand on 127.0.0.1 ------------------------

type loopQSpec struct{}

func (loopQSpec) ExecCommandQF(_ *clientpb.Command, replies map[uint32]*emptypb.Empty) (*emptypb.Empty, bool) {
	if len(replies) < 1 {
		return nil, false
	}
	return &emptypb.Empty{}, true
}

type rpcCase struct {
	Waiting [][2]int // commands submitted by clients over the network (distinct)
	Ops     []ioOp   // then exec / abort batches applied by the replica
	Late    [][2]int // requests that arrive only after those batches (late clients, retransmissions)
}

func rpcProp(c rpcCase) common.Result {
	lg := logging.NewWithDest(io.Discard, "c06rpc")
	el := eventloop.New(lg, 64)
	srv := NewClientIO(el, lg, clientpb.NewCommandCache(1))
	lis, err := net.Listen("tcp", "127.0.0.1:0")
	if err != nil {
		common.Get("C06").Inconclusive("cannot listen on 127.0.0.1: " + err.Error())
		return common.OK(false, "", "inconclusive")
	}
	srv.StartOnListener(lis)
	defer srv.Stop()
	mgr := clientpb.NewManager(gorums.WithGrpcDialOptions(grpc.WithTransportCredentials(insecure.NewCredentials())))
	defer mgr.Close()
	cfg, err := mgr.NewConfiguration(loopQSpec{}, gorums.WithNodeList([]string{lis.Addr().String()}))
	if err != nil {
		common.Get("C06").Inconclusive("cannot connect: " + err.Error())
		return common.OK(false, "", "inconclusive")
	}
	ctx, cancel := context.WithTimeout(context.Background(), 20*time.Second)
	defer cancel()
	type call struct {
		id      clientpb.MessageID
		promise *clientpb.AsyncEmpty
	}
	var calls []call
	seen := map[[2]int]bool{}
	for _, p := range c.Waiting {
		if seen[p] {
			continue
		}
		seen[p] = true
		cmd := mkCmd(p)
		calls = append(calls, call{cmd.ID(), cfg.ExecCommand(ctx, cmd)})
	}
	// wait (time is only a guard) until the replica has registered every waiting client
	registered := false
	for i := 0; i < 4000; i++ {
		srv.mut.Lock()
		n := len(srv.awaitingCmds)
		srv.mut.Unlock()
		if n == len(calls) {
			registered = true
			break
		}
		time.Sleep(time.Millisecond)
	}
	if !registered {
		common.Get("C06").Inconclusive("the RPCs did not all arrive within the wait guard")
		return common.OK(false, "", "inconclusive")
	}
	applied := map[clientpb.MessageID]bool{}
	touched := map[clientpb.MessageID]bool{}
	for step, op := range c.Ops {
		batch := &clientpb.Batch{}
		for _, p := range op.Cmds {
			batch.Commands = append(batch.Commands, mkCmd(p))
			touched[mkCmd(p).ID()] = true
		}
		done := make(chan struct{})
		go func() {
			defer close(done)
			switch op.K {
			case "abort":
				srv.Abort(batch)
			case "exec":
				pre, _ := srv.Hash().(encoding.BinaryMarshaler).MarshalBinary()
				srv.Exec(batch)
				now := srv.Hash().Sum(nil)
				for mask := 0; mask < 1<<uint(len(batch.Commands)); mask++ {
					h := sha256.New()
					_ = h.(encoding.BinaryUnmarshaler).UnmarshalBinary(pre)
					for i, cmd := range batch.Commands {
						if mask&(1<<uint(i)) != 0 {
							_, _ = h.Write(cmd.Data)
						}
					}
					if bytes.Equal(h.Sum(nil), now) {
						for i, cmd := range batch.Commands {
							if mask&(1<<uint(i)) != 0 {
								applied[cmd.ID()] = true
							}
						}
						break
					}
				}
			}
		}()
		select {
		case <-done:
		case <-time.After(15 * time.Second):
			return common.Fail("rpc:replica-blocked", "step %d (%s): the replica did not return from handling the batch within 15 s (a second outcome sent to a client that is no longer waiting blocks it forever)", step, op.K)
		}
	}
	// late or retransmitted requests: commands that reach the replica only now, after other commands of the same client
	// (possibly with higher sequence numbers) were executed. Success may be reported only for a command the replica executed.
	lateSuccess := 0
	for _, p := range c.Late {
		cmd := mkCmd(p)
		lctx, lcancel := context.WithTimeout(context.Background(), 250*time.Millisecond)
		_, err := cfg.ExecCommand(lctx, cmd).Get()
		lcancel()
		if err == nil {
			lateSuccess++
			if !applied[cmd.ID()] {
				return common.Fail("rpc:success-without-execution", "the client of (client %d, seq %d), whose request arrived after the batches were handled, received SUCCESS although the replica never executed that command", cmd.ClientID, cmd.SequenceNumber)
			}
		}
	}
	successes, failures := 0, 0
	for _, cl := range calls {
		if !touched[cl.id] {
			continue // nobody decided this command; the client keeps waiting
		}
		_, err := cl.promise.Get()
		if err == nil {
			successes++
			if !applied[cl.id] {
				return common.Fail("rpc:success-without-execution", "the client of (client %d, seq %d) received SUCCESS over the network although the replica never executed that command", cl.id.ClientID, cl.id.SequenceNumber)
			}
		} else {
			failures++
		}
	}
	cls := []string{}
	if successes > 0 {
		cls = append(cls, "rpc-success")
	}
	if failures > 0 {
		cls = append(cls, "rpc-failure")
	}
	return common.OK(successes > 0 && failures > 0, "", cls...)
}

func TestC06ExecCommandRPC(t *testing.T) {
	common.Check(t, "C06", "TestC06ExecCommandRPC", 64, 2000, func(rt *rapid.T) rpcCase {
		var c rpcCase
		pair := func() [2]int { return [2]int{rapid.IntRange(1, 3).Draw(rt, "client"), rapid.IntRange(1, 5).Draw(rt, "seq")} }
		for i := rapid.IntRange(1, 6).Draw(rt, "w"); i > 0; i-- {
			c.Waiting = append(c.Waiting, pair())
		}
		for i := rapid.IntRange(1, 8).Draw(rt, "n"); i > 0; i-- {
			op := ioOp{K: rapid.SampledFrom([]string{"exec", "exec", "exec", "abort"}).Draw(rt, "k")}
			for j := rapid.IntRange(1, 3).Draw(rt, "m"); j > 0; j-- {
				op.Cmds = append(op.Cmds, pair())
			}
			c.Ops = append(c.Ops, op)
		}
		for i := rapid.IntRange(0, 3).Draw(rt, "late"); i > 0; i-- {
			c.Late = append(c.Late, pair())
		}
		return c
	}, rpcProp)
}
