package server

// C06 (waiting-client clause) — a client waiting on a command gets at most one outcome from a replica, and a success
// outcome only after that replica executed the command. Injected as server/zz_verif_c06_test.go.

import (
	"bytes"
	"crypto/sha256"
	"encoding"
	"fmt"
	"io"
	"sync"
	"testing"

	"github.com/relab/hotstuff/core/eventloop"
	"github.com/relab/hotstuff/core/logging"
	"github.com/relab/hotstuff/internal/proto/clientpb"
	"github.com/relab/hotstuff/verifx/common"
	"pgregory.net/rapid"
)

type ioOp struct {
	K    string // wait | exec | abort
	Cmds [][2]int // (client, seq) pairs
}

type ioCase struct {
	Ops []ioOp
}

type waiter struct {
	id       clientpb.MessageID
	ch       chan error
	outcomes []error
	mu       sync.Mutex
	done     chan struct{}
	stopped  chan struct{}
}

// verifWait registers a waiting client exactly as ExecCommand does (without the gorums context).
func (srv *ClientIO) verifWait(cmd *clientpb.Command) *waiter {
	w := &waiter{id: cmd.ID(), ch: make(chan error), done: make(chan struct{}), stopped: make(chan struct{})}
	srv.mut.Lock()
	srv.awaitingCmds[w.id] = w.ch
	srv.mut.Unlock()
	srv.cmdCache.Add(cmd)
	go func() {
		defer close(w.stopped)
		for {
			select {
			case e := <-w.ch:
				w.mu.Lock()
				w.outcomes = append(w.outcomes, e)
				w.mu.Unlock()
			case <-w.done:
				return
			}
		}
	}()
	return w
}

func mkCmd(p [2]int) *clientpb.Command {
	return &clientpb.Command{ClientID: uint32(p[0]), SequenceNumber: uint64(p[1]), Data: []byte(fmt.Sprintf("data-%d-%d;", p[0], p[1]))}
}

func ioProp(c ioCase) common.Result {
	lg := logging.NewWithDest(io.Discard, "c06")
	el := eventloop.New(lg, 64)
	srv := NewClientIO(el, lg, clientpb.NewCommandCache(1))
	var waiters []*waiter
	defer func() {
		for _, w := range waiters {
			close(w.done)
			<-w.stopped
		}
	}()
	applied := map[clientpb.MessageID]bool{}
	appliedCount := 0
	sawDup, sawAbortOfWaiting, sawWaitingDup := false, false, false
	outcomesSeen := map[*waiter]int{}
	for step, op := range c.Ops {
		batch := &clientpb.Batch{}
		for _, p := range op.Cmds {
			batch.Commands = append(batch.Commands, mkCmd(p))
		}
		switch op.K {
		case "wait":
			for _, p := range op.Cmds {
				waiters = append(waiters, srv.verifWait(mkCmd(p)))
			}
		case "abort":
			srv.Abort(batch)
		case "exec":
			pre, _ := srv.Hash().(encoding.BinaryMarshaler).MarshalBinary()
			srv.Exec(batch)
			now := srv.Hash().Sum(nil)
			found := -1
			for mask := 0; mask < 1<<uint(len(batch.Commands)); mask++ {
				h := sha256.New()
				_ = h.(encoding.BinaryUnmarshaler).UnmarshalBinary(pre)
				for i, cmd := range batch.Commands {
					if mask&(1<<uint(i)) != 0 {
						_, _ = h.Write(cmd.Data)
					}
				}
				if bytes.Equal(h.Sum(nil), now) {
					found = mask
					break
				}
			}
			if found < 0 {
				return common.Fail("io:digest-unexplained", "step %d: the digest after Exec equals no in-order subset of the batch", step)
			}
			for i, cmd := range batch.Commands {
				if found&(1<<uint(i)) != 0 {
					if applied[cmd.ID()] {
						return common.Fail("io:applied-twice", "step %d: command (client %d, seq %d) was applied a second time", step, cmd.ClientID, cmd.SequenceNumber)
					}
					applied[cmd.ID()] = true
					appliedCount++
				} else {
					sawDup = true
				}
			}
			if int(srv.CmdCount()) != appliedCount {
				return common.Fail("io:cmdcount", "step %d: CmdCount() = %d, %d commands were applied", step, srv.CmdCount(), appliedCount)
			}
		}
		// outcomes delivered by this operation (the sends are synchronous: they have happened when Exec/Abort returned)
		for _, w := range waiters {
			w.mu.Lock()
			n := len(w.outcomes)
			var last error
			if n > 0 {
				last = w.outcomes[n-1]
			}
			w.mu.Unlock()
			if n > 1 {
				return common.Fail("io:two-outcomes", "step %d: the client waiting for (client %d, seq %d) received %d outcomes", step, w.id.ClientID, w.id.SequenceNumber, n)
			}
			if n == 1 && outcomesSeen[w] == 0 {
				outcomesSeen[w] = 1
				if last == nil && !applied[w.id] {
					return common.Fail("io:success-without-execution", "step %d (%s): the client waiting for (client %d, seq %d) was told SUCCESS although this replica has not executed the command", step, op.K, w.id.ClientID, w.id.SequenceNumber)
				}
				if last != nil && op.K == "abort" {
					sawAbortOfWaiting = true
				}
				if last != nil && op.K == "exec" {
					sawWaitingDup = true
				}
			}
		}
	}
	var cl []string
	if sawDup {
		cl = append(cl, "duplicate-skipped")
	}
	if sawAbortOfWaiting {
		cl = append(cl, "waiting-client-aborted")
	}
	if sawWaitingDup {
		cl = append(cl, "waiting-client-told-duplicate")
	}
	return common.OK(sawAbortOfWaiting || sawWaitingDup, "", cl...)
}

func TestC06ClientIO(t *testing.T) {
	common.Check(t, "C06", "TestC06ClientIO", 2000, 100000, func(rt *rapid.T) ioCase {
		var c ioCase
		n := rapid.IntRange(1, 30).Draw(rt, "n")
		pair := func() [2]int { return [2]int{rapid.IntRange(1, 3).Draw(rt, "client"), rapid.IntRange(1, 6).Draw(rt, "seq")} }
		for i := 0; i < n; i++ {
			op := ioOp{K: rapid.SampledFrom([]string{"wait", "wait", "exec", "exec", "exec", "abort"}).Draw(rt, "k")}
			for j := rapid.IntRange(1, 3).Draw(rt, "m"); j > 0; j-- {
				op.Cmds = append(op.Cmds, pair())
			}
			c.Ops = append(c.Ops, op)
		}
		return c
	}, ioProp)
}
