package network

// C13 (network part) — a block fetched from peers under hash h has hash h.
// Injected by the /verif driver as network/zz_verif_c13_test.go (in-package: the quorum function qspec.RequestBlockQF
// is unexported). The gorums quorum call hands the quorum function the set of replies received so far after every
// arrival and stops at the first (reply, true); GorumsSender.RequestBlock decodes that reply with BlockFromProto.
// This file drives exactly these two steps with generated replies (honest, other block, one field changed, empty
// message, in every arrival order) and, in the second test, puts the real blockchain.Blockchain on top of them.

import (
	"context"
	"crypto/sha256"
	"fmt"
	"io"
	"sort"
	"testing"
	"time"

	"github.com/relab/hotstuff"
	"github.com/relab/hotstuff/core"
	"github.com/relab/hotstuff/core/eventloop"
	"github.com/relab/hotstuff/core/logging"
	"github.com/relab/hotstuff/internal/proto/clientpb"
	"github.com/relab/hotstuff/internal/proto/hotstuffpb"
	"github.com/relab/hotstuff/security/blockchain"
	"github.com/relab/hotstuff/verifx/common"
	"google.golang.org/protobuf/types/known/timestamppb"
	"pgregory.net/rapid"
)

const c13 = "C13"

var c13Base = time.Date(2025, 6, 1, 0, 0, 0, 0, time.UTC)

// c13Chain builds n blocks; block i has parent i-1 (genesis for 0) and view i+1; fork > 0 adds a sibling of the last
// block with the same view and another proposer.
func c13Chain(n int) []*hotstuff.Block {
	var out []*hotstuff.Block
	parent := hotstuff.GetGenesis()
	for i := 0; i < n; i++ {
		b := c13Block(parent, i+1, i)
		out = append(out, b)
		parent = b
	}
	return out
}

func c13Block(parent *hotstuff.Block, view, tag int) *hotstuff.Block {
	batch := &clientpb.Batch{Commands: []*clientpb.Command{{ClientID: uint32(tag + 1), SequenceNumber: 1, Data: []byte{byte(tag)}}}}
	b := hotstuff.NewBlock(parent.Hash(), hotstuff.NewQuorumCert(nil, parent.View(), parent.Hash()), batch, hotstuff.View(view), hotstuff.ID(1+tag%4))
	b.SetTimestamp(c13Base.Add(time.Duration(tag) * time.Second))
	return b
}

// reply symbols
const (
	c13None     = iota // the peer does not answer
	c13Honest          // the requested block
	c13Other           // another existing block (the next one of the chain, cyclically)
	c13View            // requested block, view changed
	c13Proposer        // requested block, proposer changed
	c13Time            // requested block, timestamp changed by 1ns
	c13Parent          // requested block, parent hash changed
	c13Cmd             // requested block, commands changed
	c13QC              // requested block, certificate changed
	c13Empty           // an empty message
	c13Symbols
)

func c13Compose(chain []*hotstuff.Block, want int, unknown bool, sym int) *hotstuffpb.Block {
	n := len(chain)
	pb := hotstuffpb.BlockToProto(chain[want])
	switch sym {
	case c13None:
		return nil
	case c13Honest:
		if unknown {
			return nil // nobody has a block for a hash that is no block's hash
		}
	case c13Other:
		if n == 1 {
			return hotstuffpb.BlockToProto(hotstuff.GetGenesis())
		}
		return hotstuffpb.BlockToProto(chain[(want+1)%n])
	case c13View:
		pb.View++
	case c13Proposer:
		pb.Proposer++
	case c13Time:
		pb.Timestamp = timestamppb.New(pb.Timestamp.AsTime().Add(time.Nanosecond))
	case c13Parent:
		pb.Parent = append([]byte(nil), pb.Parent...)
		pb.Parent[31] ^= 0x80
	case c13Cmd:
		pb.Commands = &clientpb.Batch{Commands: []*clientpb.Command{{ClientID: 77, SequenceNumber: 1}}}
	case c13QC:
		pb.QC.View++
	case c13Empty:
		return &hotstuffpb.Block{}
	}
	return pb
}

// c13QuorumCall emulates the gorums quorum call with the real quorum function followed by what
// GorumsSender.RequestBlock does with its result. calls counts the invocations of the quorum function.
func c13QuorumCall(hash hotstuff.Hash, arrivals []*hotstuffpb.Block) (*hotstuff.Block, *hotstuffpb.Block, bool) {
	in := &hotstuffpb.BlockHash{Hash: hash[:]}
	sofar := map[uint32]*hotstuffpb.Block{}
	for i, pb := range arrivals {
		if pb == nil {
			continue
		}
		sofar[uint32(i+1)] = pb
		if res, ok := (qspec{}).RequestBlockQF(in, sofar); ok {
			return hotstuffpb.BlockFromProto(res), res, true
		}
	}
	return nil, nil, false
}

type c13QFCase struct {
	N       int   // blocks in the chain
	Want    int   // requested block
	Unknown bool  // request a hash that is no block's hash instead
	Replies []int // reply symbols in arrival order
}

func c13QFProp(c c13QFCase) common.Result {
	if c.N < 1 {
		c.N = 1
	}
	chain := c13Chain(c.N)
	want := ((c.Want % c.N) + c.N) % c.N
	hash := chain[want].Hash()
	if c.Unknown {
		hash = sha256.Sum256([]byte("c13-nobody-has-this"))
	}
	var arrivals []*hotstuffpb.Block
	honest, liars := false, false
	for _, s := range c.Replies {
		s = ((s % c13Symbols) + c13Symbols) % c13Symbols
		pb := c13Compose(chain, want, c.Unknown, s)
		arrivals = append(arrivals, pb)
		if pb == nil {
			continue
		}
		if s == c13Honest {
			honest = true
		} else {
			liars = true
		}
	}
	b, raw, ok := c13QuorumCall(hash, arrivals)
	if ok != honest {
		return common.Fail("qf-accepts-wrong-block", "request %x…, replies %v: the fetch returned ok=%v but an honest reply is present=%v (accepted message: %v)", hash[:4], c.Replies, ok, honest, raw)
	}
	if ok {
		if b == nil || b.Hash() != hash || hotstuff.Hash(sha256.Sum256(b.ToBytes())) != hash {
			return common.Fail("qf-accepts-wrong-block", "request %x…, replies %v: the fetched block %v does not have the requested hash", hash[:4], c.Replies, b)
		}
	}
	// the quorum function on the complete reply set, and with the replies inserted under other node ids
	in := &hotstuffpb.BlockHash{Hash: hash[:]}
	full := map[uint32]*hotstuffpb.Block{}
	for i, pb := range arrivals {
		if pb != nil {
			full[uint32(100-i)] = pb
		}
	}
	res, fok := (qspec{}).RequestBlockQF(in, full)
	if fok != honest || (fok && hotstuffpb.BlockFromProto(res).Hash() != hash) || (!fok && res != nil) {
		return common.Fail("qf-accepts-wrong-block", "request %x…, replies %v: RequestBlockQF on the full reply set returned (%v, %v), honest reply present=%v", hash[:4], c.Replies, res, fok, honest)
	}
	var cl []string
	switch {
	case honest && liars:
		cl = append(cl, "honest-among-liars")
	case honest:
		cl = append(cl, "honest-only")
	case liars:
		cl = append(cl, "liars-only")
	default:
		cl = append(cl, "no-reply")
	}
	if c.Unknown {
		cl = append(cl, "unknown-hash")
	}
	return common.OK(liars, "", cl...)
}

// TestC13QuorumFunctionExhaustive: every reply vector of length <= 4 over the 10 reply symbols, for a known and an unknown hash.
func TestC13QuorumFunctionExhaustive(t *testing.T) {
	maxLen := 4
	if common.Tier() == "thorough" {
		maxLen = 5
	}
	common.Get(c13).Note("TestC13QuorumFunctionExhaustive", map[string]any{"max_replies": maxLen, "symbols": c13Symbols})
	common.Exhaustive(t, c13, "TestC13QuorumFunctionExhaustive", func(yield func(c13QFCase) bool) {
		for l := 0; l <= maxLen; l++ {
			v := make([]int, l)
			for {
				for _, unknown := range []bool{false, true} {
					if !yield(c13QFCase{N: 3, Want: 1, Unknown: unknown, Replies: append([]int(nil), v...)}) {
						return
					}
				}
				i := l - 1
				for i >= 0 && v[i] == c13Symbols-1 {
					v[i] = 0
					i--
				}
				if i < 0 {
					break
				}
				v[i]++
			}
		}
	}, c13QFProp)
}

// ---------------------------------------------------------------------------------------------------------------
// the block store on top of the real quorum function

type c13Sender struct {
	chain   []*hotstuff.Block
	replies [][]int
	byHash  map[hotstuff.Hash]int
	got     []int // blocks delivered
}

func (s *c13Sender) RequestBlock(_ context.Context, hash hotstuff.Hash) (*hotstuff.Block, bool) {
	want, ok := s.byHash[hash]
	if !ok {
		return nil, false
	}
	var arrivals []*hotstuffpb.Block
	for _, sym := range s.replies[want] {
		arrivals = append(arrivals, c13Compose(s.chain, want, false, ((sym%c13Symbols)+c13Symbols)%c13Symbols))
	}
	b, _, ok := c13QuorumCall(hash, arrivals)
	if ok {
		s.got = append(s.got, want)
	}
	return b, ok
}
func (s *c13Sender) NewView(hotstuff.ID, hotstuff.SyncInfo) error { return nil }
func (s *c13Sender) Vote(hotstuff.ID, hotstuff.PartialCert) error { return nil }
func (s *c13Sender) Timeout(hotstuff.TimeoutMsg)                  {}
func (s *c13Sender) Propose(*hotstuff.ProposeMsg)                 {}
func (s *c13Sender) Sub([]hotstuff.ID) (core.Sender, error)       { return s, nil }

type c13FetchOp struct{ K, A, B int } // K: 0 Get(A), 1 LocalGet(A), 2 Extends(A,B), 3 Store(A)

type c13FetchCase struct {
	Replies [][]int // per block of the chain (its length is the chain length): reply symbols
	Ops     []c13FetchOp
}

func c13FetchProp(c c13FetchCase) common.Result {
	n := len(c.Replies)
	if n == 0 {
		return common.OK(false, "")
	}
	chain := c13Chain(n)
	snd := &c13Sender{chain: chain, replies: c.Replies, byHash: map[hotstuff.Hash]int{}}
	honest := make([]bool, n)
	lied := false
	for i, b := range chain {
		snd.byHash[b.Hash()] = i
		for _, s := range c.Replies[i] {
			s = ((s % c13Symbols) + c13Symbols) % c13Symbols
			if s == c13Honest {
				honest[i] = true
			}
		}
	}
	logger := logging.NewWithDest(io.Discard, "c13")
	bc := blockchain.New(eventloop.New(logger, 64), logger, snd)
	local := make([]bool, n)
	classes := map[string]bool{}
	learn := func() {
		for _, g := range snd.got {
			local[g] = true
		}
	}
	liarsOnly := func(i int) bool {
		if honest[i] || local[i] {
			return false
		}
		for _, s := range c.Replies[i] {
			s = ((s % c13Symbols) + c13Symbols) % c13Symbols
			if s != c13None && s != c13Honest {
				return true
			}
		}
		return false
	}
	check := func(what string, i int, b *hotstuff.Block, ok, want bool) *common.Result {
		if ok != want {
			r := common.Fail("fetch-presence", "%s(block %d) ok=%v, expected %v (local=%v honest reply=%v replies=%v)", what, i, ok, want, local[i], honest[i], c.Replies[i])
			return &r
		}
		if ok && (b == nil || b.Hash() != chain[i].Hash() || hotstuff.Hash(sha256.Sum256(b.ToBytes())) != chain[i].Hash()) {
			r := common.Fail("fetch-wrong-hash", "%s(block %d) returned a block that does not have the requested hash: %v (replies=%v)", what, i, b, c.Replies[i])
			return &r
		}
		return nil
	}
	for _, op := range c.Ops {
		a := ((op.A % n) + n) % n
		switch ((op.K % 4) + 4) % 4 {
		case 0:
			want := local[a] || honest[a]
			if liarsOnly(a) {
				lied = true
				classes["get-liars-only"] = true
			}
			b, ok := bc.Get(chain[a].Hash())
			if r := check("Get", a, b, ok, want); r != nil {
				return *r
			}
			learn()
			if ok {
				classes["get-ok"] = true
			}
		case 1:
			b, ok := bc.LocalGet(chain[a].Hash())
			if r := check("LocalGet", a, b, ok, local[a]); r != nil {
				return *r
			}
		case 2:
			b := ((op.B % n) + n) % n
			// chain: a extends b iff b <= a and every block strictly between, and b itself, can be obtained
			want := b <= a
			undetermined := false
			for k := a - 1; k >= b && want; k-- {
				if !(local[k] || honest[k]) {
					if k == b {
						undetermined = true
					}
					want = false
					if liarsOnly(k) {
						lied = true
						classes["extends-over-liars"] = true
					}
				}
			}
			got := bc.Extends(chain[a], chain[b])
			learn()
			if !undetermined && got != want {
				return common.Fail("fetch-extends", "Extends(block %d, block %d) = %v, expected %v (local=%v honest=%v)", a, b, got, want, local, honest)
			}
		case 3:
			bc.Store(chain[a])
			local[a] = true
		}
	}
	for i := range chain {
		b, ok := bc.LocalGet(chain[i].Hash())
		if r := check("LocalGet", i, b, ok, local[i]); r != nil {
			return *r
		}
	}
	var cl []string
	for k := range classes {
		cl = append(cl, k)
	}
	sort.Strings(cl)
	return common.OK(lied, "", cl...)
}

// TestC13FetchThroughQF: Get/LocalGet/Extends/Store histories over a chain whose blocks must be fetched from peers that lie.
func TestC13FetchThroughQF(t *testing.T) {
	common.Check(t, c13, "TestC13FetchThroughQF", 12000, 400000, func(rt *rapid.T) c13FetchCase {
		n := rapid.IntRange(1, 5).Draw(rt, "n")
		var c c13FetchCase
		for i := 0; i < n; i++ {
			k := rapid.IntRange(0, 3).Draw(rt, "replies")
			rs := []int{}
			for j := 0; j < k; j++ {
				rs = append(rs, rapid.SampledFrom([]int{c13Honest, c13Honest, c13None, c13Other, c13View, c13Proposer, c13Time, c13Parent, c13Cmd, c13QC, c13Empty}).Draw(rt, "sym"))
			}
			c.Replies = append(c.Replies, rs)
		}
		m := rapid.IntRange(1, 12).Draw(rt, "ops")
		for j := 0; j < m; j++ {
			c.Ops = append(c.Ops, c13FetchOp{K: rapid.SampledFrom([]int{0, 0, 0, 1, 2, 2, 3}).Draw(rt, "k"), A: rapid.IntRange(0, n-1).Draw(rt, "a"), B: rapid.IntRange(0, n-1).Draw(rt, "b")})
		}
		return c
	}, c13FetchProp)
}

var _ = fmt.Sprint
