package core

// C10 while the replica is still connecting: the servers listen before the replica table is complete (the table is filled
// replica by replica when the connections are set up), so messages from peers are handled - on the transport's goroutines -
// while AddReplica / SetReplicaMetadata run. Whatever a handler looks up in the table (the peer's id from the connection,
// its ReplicaInfo, the quorum size) must not race with those writes: a concurrent map access ends the process.
// Generated: table sizes, how many replicas are already known, how many reader goroutines and which lookups they do.
// The verdict is the race detector's (unit built with -race).

import (
	"context"
	"crypto/tls"
	"crypto/x509"
	"crypto/x509/pkix"
	"net"
	"strconv"
	"sync"
	"testing"

	"github.com/relab/hotstuff"
	"github.com/relab/hotstuff/verifx/common"
	"google.golang.org/grpc/credentials"
	"google.golang.org/grpc/metadata"
	"google.golang.org/grpc/peer"
	"pgregory.net/rapid"
)

type connCase struct {
	N       int
	Known   int   // replicas added before the messages start to arrive
	Readers int
	Lookups []int // per reader round: 0 ReplicaInfo, 1 QuorumSize, 2 PeerIDFromContext (TLS certificate), 3 PeerIDFromContext (metadata), 4 SetReplicaMetadata by the writer
	Rounds  int
}

func connProp(c connCase) common.Result {
	cfg := NewRuntimeConfig(1, nil)
	for i := 1; i <= c.Known; i++ {
		cfg.AddReplica(&hotstuff.ReplicaInfo{ID: hotstuff.ID(i)})
	}
	tlsCtx := func(id int) context.Context {
		cert := &x509.Certificate{Subject: pkix.Name{CommonName: strconv.Itoa(id)}}
		p := &peer.Peer{Addr: &net.TCPAddr{IP: net.IPv4(127, 0, 0, 1), Port: 1}, AuthInfo: credentials.TLSInfo{State: tls.ConnectionState{PeerCertificates: []*x509.Certificate{cert}}}}
		return peer.NewContext(context.Background(), p)
	}
	mdCtx := func(id int) context.Context {
		ctx := peer.NewContext(context.Background(), &peer.Peer{Addr: &net.TCPAddr{IP: net.IPv4(127, 0, 0, 1), Port: 1}})
		return metadata.NewIncomingContext(ctx, metadata.Pairs("id", strconv.Itoa(id)))
	}
	var wg sync.WaitGroup
	start := make(chan struct{})
	for r := 0; r < c.Readers; r++ {
		wg.Add(1)
		go func(r int) {
			defer wg.Done()
			<-start
			for k := 0; k < c.Rounds; k++ {
				id := 1 + (r+k)%c.N
				switch c.Lookups[(r+k)%len(c.Lookups)] {
				case 0:
					_, _ = cfg.ReplicaInfo(hotstuff.ID(id))
				case 1:
					_ = cfg.QuorumSize()
				case 2:
					_, _ = cfg.PeerIDFromContext(tlsCtx(id))
				default:
					_, _ = cfg.PeerIDFromContext(mdCtx(id))
				}
			}
		}(r)
	}
	wg.Add(1)
	go func() {
		defer wg.Done()
		<-start
		for i := c.Known + 1; i <= c.N; i++ {
			cfg.AddReplica(&hotstuff.ReplicaInfo{ID: hotstuff.ID(i)})
			for _, l := range c.Lookups {
				if l == 4 {
					_ = cfg.SetReplicaMetadata(hotstuff.ID(i), map[string]string{"x": "y"})
				}
			}
		}
	}()
	close(start)
	wg.Wait()
	if cfg.ReplicaCount() != c.N {
		return common.Fail("connect:table", "the table holds %d replicas after %d were added", cfg.ReplicaCount(), c.N)
	}
	return common.OK(c.Known < c.N, "", "connect while messages arrive")
}

func TestC10RaceConnect(t *testing.T) {
	common.Check(t, "C10", "TestC10RaceConnect", 300, 6000, func(rt *rapid.T) connCase {
		c := connCase{N: rapid.IntRange(2, 13).Draw(rt, "n"), Readers: rapid.IntRange(1, 4).Draw(rt, "readers"), Rounds: rapid.IntRange(5, 60).Draw(rt, "rounds")}
		c.Known = rapid.IntRange(0, c.N).Draw(rt, "known")
		c.Lookups = rapid.SliceOfN(rapid.IntRange(0, 4), 1, 5).Draw(rt, "lookups")
		return c
	}, connProp)
}
