package eventloop

// C14 — events are handled once each, in order, prioritised observers first.
// Injected by the /verif driver as core/eventloop/zz_verif_c14_test.go (in-package: the queue is unexported).

import (
	"context"
	"runtime"
	"sync/atomic"
	"time"
	"fmt"
	"io"
	"sort"
	"strings"
	"sync"
	"testing"

	"github.com/relab/hotstuff/core/logging"
	"github.com/relab/hotstuff/verifx/common"
	"pgregory.net/rapid"
)

const c14 = "C14"

// ---------------------------------------------------------------------------------------------------------------
// 1. queue against a reference deque with drop-oldest

type queueCase struct {
	Cap int
	Ops []int // 0 = push (values 1,2,3,... in push order), 1 = pop, 2 = len
}

func queueProp(c queueCase) common.Result {
	q := newQueue(uint(c.Cap))
	var model []int
	next := 1
	wrapped, overflowed, popped := false, false, false
	pushes := 0
	for i, op := range c.Ops {
		switch op {
		case 0:
			v := next
			next++
			pushes++
			if pushes > c.Cap {
				wrapped = true
			}
			var wantDropped any
			if len(model) == c.Cap {
				wantDropped = model[0]
				model = model[1:]
				overflowed = true
			}
			model = append(model, v)
			got := q.push(v)
			if got != wantDropped {
				return common.Fail("queue-dropped-report", "cap=%d ops=%v step %d: push(%d) reported dropped=%v, the oldest pending element (the one really dropped) is %v", c.Cap, c.Ops, i, v, got, wantDropped)
			}
		case 1:
			got, ok := q.pop()
			popped = true
			if len(model) == 0 {
				if ok || got != nil {
					return common.Fail("queue-pop-empty", "cap=%d ops=%v step %d: pop on empty queue returned (%v,%v)", c.Cap, c.Ops, i, got, ok)
				}
			} else {
				want := model[0]
				model = model[1:]
				if !ok || got != want {
					return common.Fail("queue-pop", "cap=%d ops=%v step %d: pop returned (%v,%v), want (%d,true)", c.Cap, c.Ops, i, got, ok, want)
				}
			}
		case 2:
			if got := q.len(); got != len(model) {
				return common.Fail("queue-len", "cap=%d ops=%v step %d: len()=%d, want %d", c.Cap, c.Ops, i, got, len(model))
			}
		}
	}
	// drain: everything the model still holds comes out, in order, and nothing else
	if got := q.len(); got != len(model) {
		return common.Fail("queue-len", "cap=%d ops=%v at end: len()=%d, want %d", c.Cap, c.Ops, got, len(model))
	}
	for _, want := range model {
		got, ok := q.pop()
		if !ok || got != want {
			return common.Fail("queue-pop", "cap=%d ops=%v draining: pop returned (%v,%v), want (%d,true)", c.Cap, c.Ops, got, ok, want)
		}
	}
	if got, ok := q.pop(); ok {
		return common.Fail("queue-pop-empty", "cap=%d ops=%v: extra element %v after draining", c.Cap, c.Ops, got)
	}
	var cl []string
	if wrapped {
		cl = append(cl, "wrapped")
	}
	if overflowed {
		cl = append(cl, "overflowed")
	}
	key := fmt.Sprint(c.Cap, c.Ops)
	return common.OK(wrapped && overflowed && popped, key, cl...)
}

// TestC14QueueExhaustive enumerates all push/pop/len sequences up to a length bound for capacities 1..4.
func TestC14QueueExhaustive(t *testing.T) {
	maxLen := 9
	if common.Tier() == "thorough" {
		maxLen = 11
	}
	common.Get(c14).Note("TestC14QueueExhaustive", map[string]any{"max_len": maxLen, "capacities": "1..4"})
	common.Exhaustive(t, c14, "TestC14QueueExhaustive", func(yield func(queueCase) bool) {
		for cap := 1; cap <= 4; cap++ {
			// all sequences of exactly maxLen ops (every shorter sequence is a prefix of one of them, and the
			// oracle is evaluated after every step)
			ops := make([]int, maxLen)
			for {
				if !yield(queueCase{cap, append([]int(nil), ops...)}) {
					return
				}
				i := maxLen - 1
				for i >= 0 && ops[i] == 2 {
					ops[i] = 0
					i--
				}
				if i < 0 {
					break
				}
				ops[i]++
			}
		}
	}, queueProp)
}

// TestC14QueueRandom: longer random sequences, larger capacities.
func TestC14QueueRandom(t *testing.T) {
	common.Check(t, c14, "TestC14QueueRandom", 3000, 200000, func(rt *rapid.T) queueCase {
		cap := rapid.IntRange(1, 12).Draw(rt, "cap")
		ops := rapid.SliceOfN(rapid.SampledFrom([]int{0, 0, 0, 1, 1, 2}), 0, 80).Draw(rt, "ops")
		return queueCase{cap, ops}
	}, queueProp)
}

// ---------------------------------------------------------------------------------------------------------------
// 2. dispatcher against a reference model

type evA int
type evB int
type evC int

var evTypeNames = []string{"A", "B", "C"}

type loopOp struct {
	Kind string // add | reg | unreg | delay | tick | drain
	T    int    // event type 0..2 (add: type of the event; reg: handled type; delay: type of the delayed event)
	U    int    // delay: the awaited type; unreg: index into the list of live handlers (mod len)
	Prio bool   // reg: prioritised
	InAdd bool  // reg: UnsafeRunInAddEvent
	Act  int    // reg: what the handler does when invoked: 0 nothing, 1 adds an event of type U (bounded), 2 unregisters itself, 3 unregisters the handler U (mod len), 4 defers one new event until type U, 5 defers two
}

type loopCase struct {
	Cap int
	Ops []loopOp
}

type hrec struct {
	id            int
	typ           int
	prio, inAdd   bool
	act, u        int
	live          bool
	unregister    func()
}

type callRec struct {
	handler int
	typ     int
	val     int
	inAdd   bool
}

func mkEvent(typ, val int) any {
	switch typ {
	case 0:
		return evA(val)
	case 1:
		return evB(val)
	}
	return evC(val)
}

type mev struct{ typ, val int }
type deferRec struct {
	awaited int
	ev      mev
	post    bool // made while deferred events were being re-added (it then waits for the NEXT event of the awaited type)
}

func loopProp(c loopCase) common.Result {
	el := New(logging.NewWithDest(io.Discard, "c14"), uint(c.Cap))
	var (
		handlers []*hrec
		calls    []callRec
		nextVal  = 1
		spawned  = 0
		inSpawn, inTick    bool
		deferredByHandlers int
		pendingDefer       []deferRec // deferrals made by handlers during the current real call, applied to the model afterwards
	)
	// model state
	var (
		mq       []mev         // model queue
		mwait    = map[int][]mev{} // awaited type -> delayed events in deferral order
		delayed  = map[int]bool{}   // val -> was delayed (for the non-triviality rule)
		handled  = map[int]int{}    // val -> number of times dispatched from the queue
	)
	liveHandlers := func() []*hrec {
		var l []*hrec
		for _, h := range handlers {
			if h.live {
				l = append(l, h)
			}
		}
		return l
	}
	var unregDuringDispatch, nDelayedDelivered, staleUnregs int
	var addEvent func(typ, val int)
	register := func(op loopOp) {
		h := &hrec{id: len(handlers), typ: op.T % 3, prio: op.Prio, inAdd: op.InAdd, act: op.Act % 6, u: op.U, live: true}
		cb := func(val int) {
			calls = append(calls, callRec{h.id, h.typ, val, h.inAdd})
			switch h.act {
			case 1:
				if spawned < 6 && !h.inAdd {
					spawned++
					v := nextVal
					nextVal++
					was := inSpawn
					inSpawn = true
					addEvent(h.u%3, v)
					inSpawn = was
				}
			case 2:
				if h.live {
					h.unregister()
					h.live = false
					unregDuringDispatch++
				}
			case 4, 5:
				// the handler defers new events (possibly while deferred events are being re-added)
				for k := 0; k < h.act-3 && deferredByHandlers < 8; k++ {
					deferredByHandlers++
					v := nextVal
					nextVal++
					awaited := h.u % 3
					switch awaited {
					case 0:
						DelayUntil[evA](el, mkEvent(h.typ, v))
					case 1:
						DelayUntil[evB](el, mkEvent(h.typ, v))
					default:
						DelayUntil[evC](el, mkEvent(h.typ, v))
					}
					pendingDefer = append(pendingDefer, deferRec{awaited, mev{h.typ, v}, h.inAdd && !inSpawn && inTick})
					delayed[v] = true
				}
			case 3:
				l := liveHandlers()
				if len(l) > 0 {
					o := l[h.u%len(l)]
					o.unregister()
					o.live = false
					unregDuringDispatch++
				}
			}
		}
		var opts []HandlerOption
		if h.prio {
			opts = append(opts, Prioritize())
		}
		if h.inAdd {
			opts = append(opts, UnsafeRunInAddEvent())
		}
		switch h.typ {
		case 0:
			h.unregister = Register(el, func(e evA) { cb(int(e)) }, opts...)
		case 1:
			h.unregister = Register(el, func(e evB) { cb(int(e)) }, opts...)
		default:
			h.unregister = Register(el, func(e evC) { cb(int(e)) }, opts...)
		}
		handlers = append(handlers, h)
	}
	// expected calls are checked per dispatch: we snapshot the handler set, run the real dispatch, and compare the
	// slice of new call records with the model's expectation.
	checkDispatch := func(before int, typ, val int, inAdd bool, snapshot []*hrec) string {
		got := calls[before:]
		// calls made by nested AddEvent (run-in-add handlers of spawned events) are interleaved; separate them
		var mine []callRec
		for _, r := range got {
			if r.val == val && r.inAdd == inAdd {
				mine = append(mine, r)
			}
		}
		want := map[int]bool{}
		for _, h := range snapshot {
			if h.typ == typ && h.inAdd == inAdd {
				want[h.id] = true
			}
		}
		seen := map[int]int{}
		seenOrdinary := false
		for _, r := range mine {
			seen[r.handler]++
			h := handlers[r.handler]
			if h.typ != typ {
				return fmt.Sprintf("handler %d registered for type %s was called with an event of type %s", h.id, evTypeNames[h.typ], evTypeNames[typ])
			}
			if !h.prio {
				seenOrdinary = true
			} else if seenOrdinary {
				return fmt.Sprintf("prioritised handler %d ran after an ordinary handler for event %d", h.id, val)
			}
		}
		for id, n := range seen {
			if n != 1 {
				return fmt.Sprintf("handler %d was called %d times for event %d", id, n, val)
			}
			if !want[id] {
				return fmt.Sprintf("handler %d was called for event %d although it was not registered (or was unregistered before the dispatch started)", id, val)
			}
		}
		for id := range want {
			if seen[id] == 0 {
				// a handler unregistered by an earlier handler during this very dispatch is exempt
				if !handlers[id].live {
					continue
				}
				return fmt.Sprintf("handler %d registered for type %s was not called for event %d", id, evTypeNames[typ], val)
			}
		}
		return ""
	}
	var failure string
	addEvent = func(typ, val int) {
		snapshot := liveHandlers()
		before := len(calls)
		el.AddEvent(mkEvent(typ, val))
		if msg := checkDispatch(before, typ, val, true, snapshot); msg != "" && failure == "" {
			failure = "at AddEvent: " + msg
		}
		if len(mq) == c.Cap {
			mq = mq[1:] // drop-oldest
		}
		mq = append(mq, mev{typ, val})
		if !inTick {
			for _, d := range pendingDefer {
				mwait[d.awaited] = append(mwait[d.awaited], d.ev)
			}
			pendingDefer = nil
		}
	}
	tick := func() (bool, string) {
		if len(mq) == 0 {
			if el.Tick(context.Background()) {
				return false, "Tick handled an event although the model queue is empty"
			}
			return false, ""
		}
		head := mq[0]
		mq = mq[1:]
		snapshot := liveHandlers()
		before := len(calls)
		inTick = true
		ticked := el.Tick(context.Background())
		inTick = false
		// deferrals made by handlers while the event was dispatched come first ...
		var post []deferRec
		for _, d := range pendingDefer {
			if d.post {
				post = append(post, d)
			} else {
				mwait[d.awaited] = append(mwait[d.awaited], d.ev)
			}
		}
		pendingDefer = nil
		// ... then the events waiting for this type are re-added (in deferral order) after the handlers ran ...
		waiting := mwait[head.typ]
		delete(mwait, head.typ)
		// ... and deferrals made during the re-adding wait for the next event of their awaited type
		for _, d := range post {
			mwait[d.awaited] = append(mwait[d.awaited], d.ev)
		}
		if !ticked {
			return false, fmt.Sprintf("Tick handled nothing although event %d is pending", head.val)
		}
		handled[head.val]++
		if delayed[head.val] {
			nDelayedDelivered++
		}
		// which event did the real loop dispatch? every call record made from the queue must carry head.val
		for _, r := range calls[before:] {
			if !r.inAdd && r.val != head.val {
				return false, fmt.Sprintf("expected event %d (FIFO) to be dispatched, but handler %d saw event %d", head.val, r.handler, r.val)
			}
		}
		if msg := checkDispatch(before, head.typ, head.val, false, snapshot); msg != "" {
			return false, msg
		}
		for _, w := range waiting {
			if len(mq) == c.Cap {
				mq = mq[1:]
			}
			mq = append(mq, w)
		}
		return true, ""
	}
	for i, op := range c.Ops {
		var msg string
		switch op.Kind {
		case "add":
			v := nextVal
			nextVal++
			addEvent(op.T%3, v)
		case "reg":
			register(op)
		case "unreg":
			if l := liveHandlers(); len(l) > 0 {
				h := l[op.U%len(l)]
				h.unregister()
				h.live = false
			}
		case "unreg-again":
			// the unregister function of a handler that is no longer registered is called once more (the loop's own
			// TimeoutContext does that: once from its timeout handler, once from the cancel function it returns): no effect
			var dead []*hrec
			for _, h := range handlers {
				if !h.live {
					dead = append(dead, h)
				}
			}
			if len(dead) > 0 {
				dead[op.U%len(dead)].unregister()
				staleUnregs++
			}
		case "delay":
			v := nextVal
			nextVal++
			DelayUntil[evA](el, nil) // a nil event is ignored
			switch op.U % 3 {
			case 0:
				DelayUntil[evA](el, mkEvent(op.T%3, v))
			case 1:
				DelayUntil[evB](el, mkEvent(op.T%3, v))
			default:
				DelayUntil[evC](el, mkEvent(op.T%3, v))
			}
			mwait[op.U%3] = append(mwait[op.U%3], mev{op.T % 3, v})
			delayed[v] = true
		case "tick":
			_, msg = tick()
		case "drain":
			for k := 0; k < 200 && msg == ""; k++ {
				var ok bool
				ok, msg = tick()
				if !ok {
					break
				}
			}
		}
		if msg == "" {
			msg = failure
		}
		if msg != "" {
			return common.Fail("dispatch", "cap=%d step %d (%+v): %s\nops=%s", c.Cap, i, op, msg, common.JSON(c.Ops))
		}
	}
	// final drain: every event still in the model queue is delivered, in order; nothing else is
	for k := 0; k < 500; k++ {
		ok, msg := tick()
		if msg == "" {
			msg = failure
		}
		if msg != "" {
			return common.Fail("dispatch", "cap=%d final drain: %s\nops=%s", c.Cap, msg, common.JSON(c.Ops))
		}
		if !ok {
			break
		}
	}
	for v, n := range handled {
		if n > 1 {
			return common.Fail("dispatch-duplicate", "event %d was dispatched %d times", v, n)
		}
	}
	var cl []string
	if nDelayedDelivered >= 2 {
		cl = append(cl, "delayed>=2")
	}
	if unregDuringDispatch > 0 {
		cl = append(cl, "unregister-during-dispatch")
	}
	if staleUnregs > 0 {
		cl = append(cl, "unregister-called-again")
	}
	return common.OK(nDelayedDelivered >= 2 || unregDuringDispatch > 0, "", cl...)
}

func genLoopCase(rt *rapid.T) loopCase {
	kinds := []string{"add", "add", "add", "reg", "reg", "unreg", "unreg-again", "delay", "delay", "tick", "tick", "tick", "drain"}
	n := rapid.IntRange(1, 40).Draw(rt, "n")
	ops := make([]loopOp, n)
	for i := range ops {
		ops[i] = loopOp{
			Kind:  rapid.SampledFrom(kinds).Draw(rt, "kind"),
			T:     rapid.IntRange(0, 2).Draw(rt, "t"),
			U:     rapid.IntRange(0, 5).Draw(rt, "u"),
			Prio:  rapid.Bool().Draw(rt, "prio"),
			InAdd: rapid.IntRange(0, 5).Draw(rt, "inadd") == 0,
			Act:   rapid.SampledFrom([]int{0, 0, 0, 1, 2, 3, 4, 4, 5, 5}).Draw(rt, "act"),
		}
	}
	cap := rapid.SampledFrom([]int{64, 64, 64, 3, 5}).Draw(rt, "cap")
	return loopCase{cap, ops}
}

// TestC14Dispatch: add/register/unregister/defer/tick mixes against the reference dispatcher.
func TestC14Dispatch(t *testing.T) {
	common.Check(t, c14, "TestC14Dispatch", 4000, 300000, genLoopCase, loopProp)
}

// ---------------------------------------------------------------------------------------------------------------
// 3. concurrency (built with -race by the driver)

type concCase struct {
	Producers int
	PerProd   int
	Cap       int // >= Producers*PerProd: no loss allowed; smaller: overflow with the consumer paused
}

type pev struct{ p, k int }

func concProp(c concCase) common.Result {
	total := c.Producers * c.PerProd
	if c.Cap >= total {
		// running consumer, no loss allowed
		el := New(logging.NewWithDest(io.Discard, "c14"), uint(c.Cap))
		var mu sync.Mutex
		var got []pev
		Register(el, func(e pev) {
			mu.Lock()
			got = append(got, e)
			mu.Unlock()
		})
		ctx, cancel := context.WithCancel(context.Background())
		done := make(chan struct{})
		go func() { el.Run(ctx); close(done) }()
		var wg sync.WaitGroup
		for p := 0; p < c.Producers; p++ {
			wg.Add(1)
			go func(p int) {
				defer wg.Done()
				for k := 0; k < c.PerProd; k++ {
					el.AddEvent(pev{p, k})
				}
			}(p)
		}
		wg.Wait()
		cancel() // Run handles what is still queued, then returns: a synchronisation point without timing
		<-done
		// events may still sit in the queue if Run's final drain raced with nothing: producers are done, so drain by hand
		for el.Tick(context.Background()) {
		}
		if len(got) != total {
			return common.Fail("concurrent-loss", "%d producers x %d events, capacity %d: %d events handled, want %d", c.Producers, c.PerProd, c.Cap, len(got), total)
		}
		last := make([]int, c.Producers)
		for i := range last {
			last[i] = -1
		}
		for _, e := range got {
			if e.k != last[e.p]+1 {
				return common.Fail("concurrent-order", "producer %d: event %d handled after %d (lost, duplicated or reordered)", e.p, e.k, last[e.p])
			}
			last[e.p] = e.k
		}
		return common.OK(true, "", "no-loss")
	}
	// overflow: queue only, consumer paused; dropped ∪ remaining = pushed, each exactly once, and what remains is
	// every producer's *newest* events in order (only oldest pending are dropped)
	q := newQueue(uint(c.Cap))
	var mu sync.Mutex
	var dropped []pev
	var wg sync.WaitGroup
	for p := 0; p < c.Producers; p++ {
		wg.Add(1)
		go func(p int) {
			defer wg.Done()
			for k := 0; k < c.PerProd; k++ {
				if d := q.push(pev{p, k}); d != nil {
					mu.Lock()
					dropped = append(dropped, d.(pev))
					mu.Unlock()
				}
			}
		}(p)
	}
	wg.Wait()
	count := map[pev]int{}
	for _, d := range dropped {
		count[d]++
	}
	var remaining []pev
	if q.len() != c.Cap {
		return common.Fail("overflow-len", "after pushing %d events into capacity %d the queue holds %d", total, c.Cap, q.len())
	}
	for {
		e, ok := q.pop()
		if !ok {
			break
		}
		remaining = append(remaining, e.(pev))
		count[e.(pev)]++
	}
	if len(count) != total {
		return common.Fail("overflow-accounting", "dropped ∪ remaining has %d distinct events, %d were pushed (dropped=%d remaining=%d)", len(count), total, len(dropped), len(remaining))
	}
	for e, n := range count {
		if n != 1 {
			return common.Fail("overflow-accounting", "event %+v accounted %d times (reported dropped and/or still queued)", e, n)
		}
	}
	// per producer: remaining events are in order, and every dropped event is older than every remaining one
	minRemaining := map[int]int{}
	last := map[int]int{}
	for _, e := range remaining {
		if l, ok := last[e.p]; ok && e.k <= l {
			return common.Fail("overflow-order", "producer %d: remaining events out of order", e.p)
		}
		last[e.p] = e.k
		if _, ok := minRemaining[e.p]; !ok {
			minRemaining[e.p] = e.k
		}
	}
	for _, d := range dropped {
		if m, ok := minRemaining[d.p]; ok && d.k > m {
			return common.Fail("overflow-not-oldest", "producer %d: event %d was dropped although the older event %d is still queued", d.p, d.k, m)
		}
	}
	return common.OK(true, "", "overflow")
}

// TestC14RaceConcurrent samples goroutine interleavings under the race detector.
func TestC14RaceConcurrent(t *testing.T) {
	common.Check(t, c14, "TestC14RaceConcurrent", 120, 4000, func(rt *rapid.T) concCase {
		p := rapid.IntRange(2, 8).Draw(rt, "producers")
		m := rapid.IntRange(1, 60).Draw(rt, "perprod")
		cap := p * m
		if rapid.Bool().Draw(rt, "overflow") {
			cap = rapid.IntRange(1, p*m).Draw(rt, "cap")
		} else {
			cap += rapid.IntRange(0, 5).Draw(rt, "slack")
		}
		return concCase{p, m, cap}
	}, concProp)
}

var _ = sort.Ints
var _ = strings.Join

// ---------------------------------------------------------------------------------------------------------------
// 4. wake-up of the sleeping loop

// wakeCase: one producer goroutine adds ONE event at a time to a running loop and waits until the handler has seen it
// before adding the next, with a small generated spin between the two (to sweep the producer's AddEvent over the
// consumer's "queue is empty -> go to sleep" window). The queue never holds more than one event, nothing else is added:
// every event must be handled. An event that stays unhandled although the loop runs is "lost" in the sense of C14 for
// as long as nobody adds another one.
type wakeCase struct {
	Iters   int
	MaxSpin int
	Cap     int
}

type wakeEv int64
type pokeEv struct{}

var wakeSink atomic.Int64

func wakeProp(c wakeCase) common.Result {
	el := New(logging.NewWithDest(io.Discard, "c14"), uint(c.Cap))
	var handled atomic.Int64
	Register(el, func(e wakeEv) { handled.Store(int64(e)) })
	ctx, cancel := context.WithCancel(context.Background())
	done := make(chan struct{})
	go func() { el.Run(ctx); close(done) }()
	defer func() { cancel(); <-done }()
	const patience = 3 * time.Second // a running loop handles an event within microseconds
	for i := int64(1); i <= int64(c.Iters); i++ {
		for s := int64(0); s < i%int64(c.MaxSpin+1); s++ {
			wakeSink.Add(1)
		}
		el.AddEvent(wakeEv(i))
		start := time.Now()
		for handled.Load() != i {
			if time.Since(start) > patience {
				// slow machine, or is the loop asleep on a non-empty queue? Another event wakes a sleeping loop.
				el.AddEvent(pokeEv{})
				t1 := time.Now()
				for handled.Load() != i && time.Since(t1) < patience {
					runtime.Gosched()
				}
				if handled.Load() == i {
					return common.Fail("lost-wakeup", "cap=%d: event %d was added to a running loop with an empty queue and was not handled for %v; it was handled %v after ANOTHER event was added: the loop slept although an event was pending (the wake-up signal of the first AddEvent was lost)", c.Cap, i, patience, time.Since(t1))
				}
				return common.Fail("event-never-handled", "cap=%d: event %d was added to a running loop with an empty queue and was not handled within %v, not even after another event was added", c.Cap, i, 2*patience)
			}
			runtime.Gosched()
		}
	}
	return common.OK(true, "", "wake-up ping-pong")
}

// TestC14RaceWakeup: every event added to an idle running loop is handled without the help of later events.
func TestC14RaceWakeup(t *testing.T) {
	common.Check(t, c14, "TestC14RaceWakeup", 12, 200, func(rt *rapid.T) wakeCase {
		return wakeCase{Iters: rapid.IntRange(2000, 6000).Draw(rt, "iters"), MaxSpin: rapid.SampledFrom([]int{0, 50, 200, 400, 1000}).Draw(rt, "spin"), Cap: rapid.SampledFrom([]int{1, 2, 100}).Draw(rt, "cap")}
	}, wakeProp)
}
