package twins

// C18 — the Twins tester enumerates what it announces and reports divergence faithfully.
// Injected by the /verif driver as twins/zz_verif_c18_test.go (in-package: checkCommits, Network.replicas and node are
// unexported).
//
//  1. generator: every setting of the box nodes 1..5, twins 0..min(2,nodes), partitions 1..3, views 1..4 is drained
//     (completely when the announced count is small enough, a prefix otherwise) and compared with what was announced;
//  2. JSON: every drained scenario (or a stride of them) survives json.Marshal/Unmarshal, small generators also the
//     ToJSON/FromJSON file format;
//  3. verdict: checkCommits on synthetic Networks against a pairwise reference; ExecuteScenario's report against the
//     commit logs it returns.

import (
	"sync"
	"bytes"
	"encoding/json"
	"errors"
	"fmt"
	"io"
	"sort"
	"strconv"
	"strings"
	"testing"
	"time"

	"github.com/relab/hotstuff"
	"github.com/relab/hotstuff/core"
	"github.com/relab/hotstuff/core/logging"
	"github.com/relab/hotstuff/internal/proto/clientpb"
	"github.com/relab/hotstuff/protocol/rules"
	"github.com/relab/hotstuff/verifx/common"
	"pgregory.net/rapid"
)

const c18 = "C18"

// ---------------------------------------------------------------------------------------------------------------
// reference helpers (written from the property statement, not from generator.go)

// refNodes: replicas 1..twins run as two nodes (twin ids 1 and 2), replicas twins+1..nodes as one node (twin id 0).
// This is also the node set that ExecuteScenario(scenario, numNodes, numTwins, ...) instantiates.
func refNodes(nodes, twins uint8) map[NodeID]bool {
	m := map[NodeID]bool{}
	for r := 1; r <= int(nodes); r++ {
		if r <= int(twins) {
			m[NodeID{hotstuff.ID(r), 1}] = true
			m[NodeID{hotstuff.ID(r), 2}] = true
		} else {
			m[NodeID{hotstuff.ID(r), 0}] = true
		}
	}
	return m
}

func sortedIDs(s NodeSet) []NodeID {
	ids := make([]NodeID, 0, len(s))
	for id := range s {
		ids = append(ids, id)
	}
	sort.Slice(ids, func(i, j int) bool {
		if ids[i].ReplicaID != ids[j].ReplicaID {
			return ids[i].ReplicaID < ids[j].ReplicaID
		}
		return ids[i].TwinID < ids[j].TwinID
	})
	return ids
}

// canonView is the canonical text of a view: leader, then the ordered list of partitions, each as its sorted members.
// A nil partition and an empty one have the same members and therefore the same text.
func canonView(v View) string {
	buf := make([]byte, 0, 64)
	buf = append(buf, 'L')
	buf = appendUint(buf, uint64(v.Leader))
	var ids [16]NodeID
	for _, p := range v.Partitions {
		buf = append(buf, '|')
		var l []NodeID
		if len(p) <= len(ids) {
			l = ids[:0]
			for id := range p {
				l = append(l, id)
			}
			// insertion sort (a partition of this box has at most 7 members)
			for i := 1; i < len(l); i++ {
				for j := i; j > 0 && lessID(l[j], l[j-1]); j-- {
					l[j], l[j-1] = l[j-1], l[j]
				}
			}
		} else {
			l = sortedIDs(p)
		}
		for _, id := range l {
			buf = appendUint(buf, uint64(id.ReplicaID))
			buf = append(buf, '.')
			buf = appendUint(buf, uint64(id.TwinID))
			buf = append(buf, ',')
		}
	}
	return string(buf)
}

func lessID(a, b NodeID) bool {
	if a.ReplicaID != b.ReplicaID {
		return a.ReplicaID < b.ReplicaID
	}
	return a.TwinID < b.TwinID
}

func appendUint(b []byte, x uint64) []byte {
	if x < 10 {
		return append(b, byte('0'+x))
	}
	return strconv.AppendUint(b, x, 10)
}

// semanticView ignores the order of the partitions and empty partitions (message delivery cannot tell them apart).
func semanticView(v View) string {
	var parts []string
	for _, p := range v.Partitions {
		if len(p) == 0 {
			continue
		}
		var sb strings.Builder
		for _, id := range sortedIDs(p) {
			fmt.Fprintf(&sb, "%d.%d,", id.ReplicaID, id.TwinID)
		}
		parts = append(parts, sb.String())
	}
	sort.Strings(parts)
	return fmt.Sprintf("L%d|%s", v.Leader, strings.Join(parts, "|"))
}

func canonScenario(s Scenario) string {
	parts := make([]string, len(s))
	for i := range s {
		parts[i] = canonView(s[i])
	}
	return strings.Join(parts, " ; ")
}

// wellFormed: every node of the configuration is in exactly one partition, nothing else is, the leader is a
// configured replica, and there are not more partitions than announced.
func wellFormed(v View, all map[NodeID]bool, nodes, partitions uint8) string {
	if v.Leader < 1 || int(v.Leader) > int(nodes) {
		return fmt.Sprintf("leader %d is not one of the %d configured replicas", v.Leader, nodes)
	}
	seen := map[NodeID]int{}
	nonEmpty := 0
	for _, p := range v.Partitions {
		if len(p) > 0 {
			nonEmpty++
		}
		for id := range p {
			seen[id]++
		}
	}
	for id, n := range seen {
		if !all[id] {
			return fmt.Sprintf("node %v is in a partition but is not part of the configuration", id)
		}
		if n != 1 {
			return fmt.Sprintf("node %v is in %d partitions", id, n)
		}
	}
	for id := range all {
		if seen[id] == 0 {
			return fmt.Sprintf("node %v is in no partition", id)
		}
	}
	if nonEmpty > int(partitions) {
		return fmt.Sprintf("%d non-empty partitions although %d were configured", nonEmpty, partitions)
	}
	return ""
}

// interner maps canonical view texts to small numbers so that a scenario of <= 4 views is one uint64.
type interner struct {
	ids   map[string]uint64
	texts []string
	sem   map[string]int // semantic text -> number of distinct canonical views having it
}

func newInterner() *interner { return &interner{ids: map[string]uint64{}, sem: map[string]int{}} }

func (in *interner) view(v View) (id uint64, fresh bool) {
	c := canonView(v)
	if id, ok := in.ids[c]; ok {
		return id, false
	}
	id = uint64(len(in.texts))
	in.ids[c] = id
	in.texts = append(in.texts, c)
	in.sem[semanticView(v)]++
	return id, true
}

func (in *interner) key(s Scenario) (k uint64, fresh bool) {
	for _, v := range s {
		id, f := in.view(v)
		fresh = fresh || f
		k = k<<16 | id
	}
	return k, fresh
}

// viewID extracts the number of the view at position pos (0-based) of a scenario of n views from its key.
func viewID(k uint64, n, pos int) uint64 { return k >> (16 * uint(n-1-pos)) & 0xFFFF }

// guarded runs f and returns the panic value as text ("" if none).
func guarded(f func()) (p string) {
	defer func() {
		if r := recover(); r != nil {
			p = fmt.Sprint(r)
		}
	}()
	f()
	return ""
}

func quietLogger() logging.Logger { return logging.NewWithDest(io.Discard, "c18") }

// ---------------------------------------------------------------------------------------------------------------
// 1 + 2. generator and JSON

type genCase struct {
	Nodes, Twins, Partitions, Views uint8
	Shuffle                         bool
	Seed                            int64
	Full                            int // generators announcing <= Full scenarios are drained completely,
	Prefix                          int // larger ones for their first Prefix scenarios
	JSON                            int // at most about this many scenarios go through the JSON round trip (0 = none)
}

func (c genCase) settings() Settings {
	return Settings{NumNodes: c.Nodes, NumTwins: c.Twins, Partitions: c.Partitions, Views: c.Views, Ticks: 100}
}

func (c genCase) String() string {
	s := fmt.Sprintf("nodes=%d twins=%d partitions=%d views=%d", c.Nodes, c.Twins, c.Partitions, c.Views)
	if c.Shuffle {
		s += fmt.Sprintf(" shuffle(seed=%d)", c.Seed)
	}
	return s
}

const fileRoundTripMax = 2500

// newGen builds a generator for the case; a panic is reported as text.
func newGen(c genCase, shuffle bool) (g *Generator, announced int64, fail *common.Result) {
	if p := guarded(func() { g = NewGenerator(quietLogger(), c.settings()) }); p != "" {
		r := common.Fail("newgenerator-panics", "%v: NewGenerator panics: %s", c, p)
		return nil, 0, &r
	}
	announced = g.Remaining()
	if announced < 0 {
		r := common.Fail("announced-negative", "%v: Remaining() = %d right after construction", c, announced)
		return nil, 0, &r
	}
	if shuffle {
		if p := guarded(func() { g.Shuffle(c.Seed) }); p != "" {
			fp := "shuffle-panics"
			if announced == 0 {
				fp = "shuffle-panics-on-empty-generator"
			}
			r := common.Fail(fp, "%v: the generator announces %d scenarios; Shuffle(%d) panics: %s", c, announced, c.Seed, p)
			return nil, 0, &r
		}
		if got := g.Remaining(); got != announced {
			r := common.Fail("shuffle-changes-count", "%v: Remaining() = %d after Shuffle, %d before", c, got, announced)
			return nil, 0, &r
		}
		want := c.settings()
		want.Shuffle, want.Seed = true, c.Seed
		if got := g.Settings(); got != want {
			r := common.Fail("settings", "%v: Settings() = %+v after Shuffle, want %+v", c, got, want)
			return nil, 0, &r
		}
	} else if got := g.Settings(); got != c.settings() {
		r := common.Fail("settings", "%v: Settings() = %+v, want %+v", c, got, c.settings())
		return nil, 0, &r
	}
	return g, announced, nil
}

// next calls NextScenario, turning a panic into text.
func next(g ScenarioSource) (s Scenario, err error, panicked string) {
	panicked = guarded(func() { s, err = g.NextScenario() })
	return
}

func jsonRoundTrip(c genCase, i int64, s Scenario) *common.Result {
	b, err := json.Marshal(s)
	if err != nil {
		r := common.Fail("json-marshal", "%v: scenario #%d does not marshal: %v", c, i, err)
		return &r
	}
	var back Scenario
	if err := json.Unmarshal(b, &back); err != nil {
		r := common.Fail("json-unmarshal", "%v: scenario #%d: its own JSON does not unmarshal: %v\n%s", c, i, err, b)
		return &r
	}
	if len(back) != len(s) {
		r := common.Fail("json-roundtrip", "%v: scenario #%d has %d views, %d after the JSON round trip", c, i, len(s), len(back))
		return &r
	}
	for v := range s {
		if back[v].Leader != s[v].Leader || canonView(back[v]) != canonView(s[v]) {
			r := common.Fail("json-roundtrip", "%v: scenario #%d view %d changed in the JSON round trip:\n before %s\n after  %s\n json   %s",
				c, i, v+1, canonView(s[v]), canonView(back[v]), b)
			return &r
		}
	}
	b2, err := json.Marshal(back)
	if err != nil || !bytes.Equal(b, b2) {
		r := common.Fail("json-unstable", "%v: scenario #%d: marshal(unmarshal(marshal(s))) differs from marshal(s) (%v)\n%s\n%s", c, i, err, b, b2)
		return &r
	}
	return nil
}

// fileRoundTrip writes the scenarios in the CLI's file format and reads them back through FromJSON.
func fileRoundTrip(c genCase, settings Settings, scenarios []Scenario) *common.Result {
	var buf bytes.Buffer
	wr, err := ToJSON(settings, &buf)
	if err != nil {
		r := common.Fail("file-write", "%v: ToJSON: %v", c, err)
		return &r
	}
	for i, s := range scenarios {
		if err := wr.WriteScenario(s); err != nil {
			r := common.Fail("file-write", "%v: WriteScenario #%d: %v", c, i, err)
			return &r
		}
	}
	if err := wr.Close(); err != nil {
		r := common.Fail("file-write", "%v: Close: %v", c, err)
		return &r
	}
	if !json.Valid(buf.Bytes()) {
		r := common.Fail("file-invalid-json", "%v: the file written for %d scenarios is not valid JSON:\n%.600s", c, len(scenarios), buf.String())
		return &r
	}
	src, err := FromJSON(bytes.NewReader(buf.Bytes()))
	if err != nil {
		r := common.Fail("file-read", "%v: FromJSON cannot read the file written by ToJSON (%d scenarios): %v", c, len(scenarios), err)
		return &r
	}
	if got := src.Settings(); got != settings {
		r := common.Fail("file-settings", "%v: settings read back %+v, written %+v", c, got, settings)
		return &r
	}
	if got := src.Remaining(); got != int64(len(scenarios)) {
		r := common.Fail("file-count", "%v: the file source announces %d scenarios, %d were written", c, got, len(scenarios))
		return &r
	}
	for i, s := range scenarios {
		got, err, p := next(src)
		if p != "" || err != nil {
			r := common.Fail("file-read", "%v: reading scenario #%d of %d back: err=%v panic=%s", c, i, len(scenarios), err, p)
			return &r
		}
		if canonScenario(got) != canonScenario(s) {
			r := common.Fail("file-roundtrip", "%v: scenario #%d changed in the file round trip:\n written %s\n read    %s", c, i, canonScenario(s), canonScenario(got))
			return &r
		}
		if rem := src.Remaining(); rem != int64(len(scenarios)-i-1) {
			r := common.Fail("file-count", "%v: file source Remaining() = %d after reading %d of %d", c, rem, i+1, len(scenarios))
			return &r
		}
	}
	return nil
}

// viewsOf drains a one-view generator with the same nodes/twins/partitions: the set of single views the settings allow.
func viewsOf(c genCase, in *interner) (map[uint64]bool, *common.Result) {
	c1 := c
	c1.Views, c1.Shuffle = 1, false
	g, announced, fail := newGen(c1, false)
	if fail != nil {
		return nil, fail
	}
	set := map[uint64]bool{}
	for i := int64(0); i < announced; i++ {
		s, err, p := next(g)
		if p != "" || err != nil || len(s) != 1 {
			// reported by the case that drains this setting itself
			break
		}
		id, _ := in.view(s[0])
		set[id] = true
	}
	return set, nil
}

// genProp is the property over one generator case; bulkTest != "" counts the drained scenarios of unshuffled
// non-trivial settings as distinct-by-construction evidence under that test name (only the box test visits every
// setting exactly once).
func genProp(bulkTest string) func(genCase) common.Result {
	return func(c genCase) common.Result { return genPropImpl(bulkTest, c) }
}

func genPropImpl(bulkTest string, c genCase) common.Result {
	all := refNodes(c.Nodes, c.Twins)
	in := newInterner()
	a, announced, fail := newGen(c, c.Shuffle)
	if fail != nil {
		return *fail
	}
	b, announcedB, fail := newGen(c, c.Shuffle)
	if fail != nil {
		return *fail
	}
	if announcedB != announced {
		return common.Fail("nondeterministic-count", "%v: two generators with the same settings announce %d and %d scenarios", c, announced, announcedB)
	}
	full := announced <= int64(c.Full)
	target := announced
	if !full {
		target = int64(c.Prefix)
		if target > announced {
			target = announced
		}
	}
	stride := int64(0)
	if c.JSON > 0 {
		stride = (target + int64(c.JSON) - 1) / int64(c.JSON)
		if stride < 1 {
			stride = 1
		}
	}
	keepScenarios := full && announced <= fileRoundTripMax
	var kept []Scenario
	seen := make(map[uint64]int64, target)
	order := make([]uint64, 0, target)
	perPos := make([]map[uint64]bool, c.Views)
	for i := range perPos {
		perPos[i] = map[uint64]bool{}
	}
	var nJSON int64
	for i := int64(0); i < target; i++ {
		s, err, p := next(a)
		if p != "" {
			fp := "generator-panics"
			if a.Remaining() <= 0 {
				fp = "generator-panics-when-exhausted"
			}
			return common.Fail(fp, "%v: %d scenarios announced, call #%d of NextScenario (Remaining() = %d) panics: %s", c, announced, i+1, a.Remaining(), p)
		}
		if err != nil {
			rem := a.Remaining()
			_, err2, p2 := next(a)
			after := fmt.Sprintf("the call after that returns err=%v", err2)
			if p2 != "" {
				after = "the call after that panics: " + p2
			}
			fp := "generator-count-short"
			if errors.Is(err, io.EOF) && i == announced-1 {
				fp = "generator-loses-last-scenario"
			}
			return common.Fail(fp, "%v: %d scenarios announced, but call #%d of NextScenario returned err=%v instead of a scenario (%d yielded, Remaining() still %d); %s",
				c, announced, i+1, err, i, rem, after)
		}
		if len(s) != int(c.Views) {
			return common.Fail("scenario-length", "%v: scenario #%d has %d views, want %d", c, i, len(s), c.Views)
		}
		// well-formedness is a function of the canonical text (leader + members of every partition), so it is
		// evaluated once per distinct text
		var k uint64
		fresh := false
		for v := range s {
			id, f := in.view(s[v])
			if f {
				fresh = true
				if msg := wellFormed(s[v], all, c.Nodes, c.Partitions); msg != "" {
					return common.Fail("view-malformed", "%v: scenario #%d view %d: %s\n%s", c, i, v+1, msg, canonScenario(s))
				}
			}
			k = k<<16 | id
		}
		if j, dup := seen[k]; dup {
			return common.Fail("generator-repeats", "%v: scenario #%d equals scenario #%d: %s", c, i, j, canonScenario(s))
		}
		seen[k] = i
		order = append(order, k)
		for v := range s {
			perPos[v][viewID(k, len(s), v)] = true
		}
		if rem := a.Remaining(); rem != announced-i-1 {
			return common.Fail("remaining-wrong", "%v: Remaining() = %d after %d of %d scenarios", c, rem, i+1, announced)
		}
		// determinism: a second generator with the same settings (and seed) yields the same sequence
		s2, err2, p2 := next(b)
		if p2 != "" || err2 != nil {
			return common.Fail("nondeterministic", "%v: second generator with equal settings: call #%d gives err=%v panic=%s, the first one gave a scenario", c, i+1, err2, p2)
		}
		if k2, _ := in.key(s2); k2 != k || len(s2) != len(s) {
			return common.Fail("nondeterministic", "%v: two generators with equal settings differ at scenario #%d:\n %s\n %s", c, i, canonScenario(s), canonScenario(s2))
		}
		if stride > 0 && (i%stride == 0 || fresh) {
			if r := jsonRoundTrip(c, i, s); r != nil {
				return *r
			}
			nJSON++
		}
		if keepScenarios {
			kept = append(kept, s)
		}
	}
	classes := []string{}
	if full {
		if rem := a.Remaining(); rem != 0 {
			return common.Fail("remaining-wrong", "%v: all %d announced scenarios were yielded but Remaining() = %d", c, announced, rem)
		}
		// exhausted: io.EOF, no scenario, no panic, again and again
		for _, g := range []*Generator{a, b} {
			for extra := 1; extra <= 3; extra++ {
				s, err, p := next(g)
				if p != "" {
					return common.Fail("generator-panics-when-exhausted", "%v: all %d announced scenarios were yielded; call #%d after that panics: %s", c, announced, extra, p)
				}
				if err == nil {
					k, _ := in.key(s)
					_, dup := seen[k]
					return common.Fail("generator-count-long", "%v: %d scenarios announced, but call #%d yields another one (repeat of an earlier one: %v): %s", c, announced, announced+int64(extra), dup, canonScenario(s))
				}
				if !errors.Is(err, io.EOF) {
					return common.Fail("exhausted-not-eof", "%v: exhausted generator returns %v, want io.EOF", c, err)
				}
				if len(s) != 0 {
					return common.Fail("exhausted-not-eof", "%v: exhausted generator returns io.EOF together with a scenario of %d views", c, len(s))
				}
				if rem := g.Remaining(); rem != 0 {
					return common.Fail("remaining-wrong", "%v: Remaining() = %d after exhaustion", c, rem)
				}
			}
		}
		// the scenarios are exactly V^views for one set V of views (no repeats, all in V^views, |V|^views of them)
		want := int64(1)
		for v := 0; v < int(c.Views); v++ {
			want *= int64(len(perPos[0]))
			if len(perPos[v]) != len(perPos[0]) {
				return common.Fail("not-a-product", "%v: %d different views occur in view 1 but %d in view %d", c, len(perPos[0]), len(perPos[v]), v+1)
			}
			for id := range perPos[0] {
				if !perPos[v][id] {
					return common.Fail("not-a-product", "%v: view %q occurs in view 1 but never in view %d", c, in.texts[id], v+1)
				}
			}
		}
		if announced > 0 && want != announced {
			return common.Fail("not-a-product", "%v: %d scenarios announced and yielded, but %d distinct views per position give %d combinations", c, announced, len(perPos[0]), want)
		}
		classes = append(classes, "full-drain")
	} else {
		classes = append(classes, "prefix-drain")
	}
	if announced == 0 {
		classes = append(classes, "announces-0")
	}
	if c.Shuffle {
		classes = append(classes, "shuffled")
		if full {
			// permutation of the unshuffled set: same count, no repeats (above), every unshuffled scenario present
			u, announcedU, fail := newGen(c, false)
			if fail != nil {
				return *fail
			}
			if announcedU != announced {
				return common.Fail("shuffle-changes-count", "%v: %d scenarios announced unshuffled, %d shuffled", c, announcedU, announced)
			}
			same := true
			for i := int64(0); i < announcedU; i++ {
				s, err, p := next(u)
				if p != "" || err != nil {
					return common.Fail("generator-count-short", "%v: unshuffled generator: call #%d of %d gives err=%v panic=%s", c, i+1, announcedU, err, p)
				}
				k, _ := in.key(s)
				if _, ok := seen[k]; !ok {
					return common.Fail("shuffle-not-a-permutation", "%v: unshuffled scenario #%d is missing from the shuffled sequence: %s", c, i, canonScenario(s))
				}
				if order[i] != k {
					same = false
				}
			}
			if !same {
				classes = append(classes, "shuffle-reorders")
			}
		} else {
			// prefix only: every view must at least be one of the views of the unshuffled generator
			vs, fail := viewsOf(c, in)
			if fail != nil {
				return *fail
			}
			for v := range perPos {
				for id := range perPos[v] {
					if !vs[id] {
						return common.Fail("shuffle-not-a-permutation", "%v: shuffled generator yields view %q which the unshuffled generator never yields", c, in.texts[id])
					}
				}
			}
		}
	}
	if keepScenarios {
		if r := fileRoundTrip(c, a.Settings(), kept); r != nil {
			return *r
		}
		classes = append(classes, "file-roundtrip")
	}
	if nJSON > 0 {
		if stride == 1 {
			classes = append(classes, "json-every-scenario")
		} else {
			classes = append(classes, "json-stride")
		}
	}
	for _, n := range in.sem {
		if n > 1 {
			classes = append(classes, "has-views-equal-up-to-partition-order")
			break
		}
	}
	nt := c.Twins >= 1 && c.Partitions >= 2
	if nt {
		classes = append(classes, "twins>=1,partitions>=2")
	}
	if bulkTest != "" && !c.Shuffle && nt && len(order) > 1 {
		// the scenarios of an unshuffled drain are pairwise different (checked above): distinct by construction
		common.Get(c18).Bulk(bulkTest, int64(len(order))-1, "scenarios(nontrivial settings)")
	}
	return common.OK(nt, "", classes...)
}

type setting struct {
	n, t, p, v uint8
	announced  int64
}

// box lists all settings of the box ordered by announced count (ties by n,t,p,v).
func box(maxViews uint8) []setting {
	var l []setting
	for n := uint8(1); n <= 5; n++ {
		for t := uint8(0); t <= 2 && t <= n; t++ {
			for p := uint8(1); p <= 3; p++ {
				for v := uint8(1); v <= maxViews; v++ {
					s := setting{n, t, p, v, -1}
					_ = guarded(func() {
						s.announced = NewGenerator(quietLogger(), Settings{NumNodes: n, NumTwins: t, Partitions: p, Views: v}).Remaining()
					})
					l = append(l, s)
				}
			}
		}
	}
	sort.SliceStable(l, func(i, j int) bool { return l[i].announced < l[j].announced })
	return l
}

type tierBounds struct {
	full, prefix, json int
	seeds              []int64
}

func bounds() tierBounds {
	if common.Tier() == "thorough" {
		return tierBounds{2_000_000, 200_000, 300_000, []int64{1, -7, 1 << 40, 0, 42, -1 << 62}}
	}
	return tierBounds{300_000, 50_000, 20_000, []int64{1, -7, 1 << 40}}
}

// TestC18GeneratorBox: every setting of the box, unshuffled and shuffled with fixed seeds.
func TestC18GeneratorBox(t *testing.T) {
	b := bounds()
	common.Get(c18).Note("TestC18GeneratorBox", map[string]any{"box": "nodes 1..5, twins 0..min(2,nodes), partitions 1..3, views 1..4",
		"drained_completely_up_to": b.full, "prefix_otherwise": b.prefix, "json_round_trips_per_case_about": b.json, "shuffle_seeds": b.seeds})
	common.Exhaustive(t, c18, "TestC18GeneratorBox", func(yield func(genCase) bool) {
		for _, s := range box(4) {
			if !yield(genCase{s.n, s.t, s.p, s.v, false, 0, b.full, b.prefix, b.json}) {
				return
			}
			for _, seed := range b.seeds {
				if !yield(genCase{s.n, s.t, s.p, s.v, true, seed, b.full, b.prefix, 0}) {
					return
				}
			}
		}
	}, genProp("TestC18GeneratorBox"))
}

// TestC18GeneratorRandom: random settings of the box with random shuffle seeds (shrinks to the smallest failing setting).
func TestC18GeneratorRandom(t *testing.T) {
	common.Check(t, c18, "TestC18GeneratorRandom", 320, 6000, func(rt *rapid.T) genCase {
		n := rapid.IntRange(1, 5).Draw(rt, "nodes")
		tw := rapid.IntRange(0, min(2, n)).Draw(rt, "twins")
		p := rapid.IntRange(1, 3).Draw(rt, "partitions")
		v := rapid.IntRange(1, 4).Draw(rt, "views")
		sh := rapid.IntRange(0, 4).Draw(rt, "shuffle") > 0
		var seed int64
		if sh {
			seed = rapid.Int64().Draw(rt, "seed")
		}
		return genCase{uint8(n), uint8(tw), uint8(p), uint8(v), sh, seed, 25_000, 3_000, 500}
	}, genProp(""))
}

// ---------------------------------------------------------------------------------------------------------------
// 3. verdict

type replicaLogs struct {
	Twin    bool  // the replica runs as two nodes
	Log     []int // block labels committed by the (first) node, in order
	TwinLog []int // block labels committed by the second node (only if Twin)
}

type commitCase struct {
	Replicas []replicaLogs // replica ids 1..len
}

// mkBlock builds a fresh block object whose content (and therefore hash) is determined by the label alone.
func mkBlock(label int) *hotstuff.Block {
	b := hotstuff.NewBlock(hotstuff.GetGenesis().Hash(), hotstuff.NewQuorumCert(nil, 0, hotstuff.GetGenesis().Hash()),
		&clientpb.Batch{}, hotstuff.View(label%1000+1), hotstuff.ID(label/1000+1))
	b.SetTimestamp(time.Unix(1_700_000_000, int64(label)))
	return b
}

func mkNode(id NodeID, labels []int) *node {
	n := &node{id: id}
	for _, l := range labels {
		n.executedBlocks = append(n.executedBlocks, mkBlock(l))
	}
	return n
}

// refVerdict: unsafe iff two replicas without twin committed different blocks at the same position; the count is the
// first such position, or the length of the longest such log when there is none.
func refVerdict(c commitCase) (safe bool, commits int) {
	var logs [][]int
	for _, r := range c.Replicas {
		if !r.Twin {
			logs = append(logs, r.Log)
		}
	}
	first := -1
	longest := 0
	for x := range logs {
		if len(logs[x]) > longest {
			longest = len(logs[x])
		}
		for y := x + 1; y < len(logs); y++ {
			for i := 0; i < len(logs[x]) && i < len(logs[y]); i++ {
				if logs[x][i] != logs[y][i] {
					if first < 0 || i < first {
						first = i
					}
					break
				}
			}
		}
	}
	if first >= 0 {
		return false, first
	}
	return true, longest
}

func commitProp(c commitCase) common.Result {
	net := NewSimpleNetwork(len(c.Replicas))
	for i, r := range c.Replicas {
		id := hotstuff.ID(i + 1)
		if r.Twin {
			n1, n2 := mkNode(Replica(id).Twin(1), r.Log), mkNode(Replica(id).Twin(2), r.TwinLog)
			net.nodes[n1.id], net.nodes[n2.id] = n1, n2
			net.replicas[id] = []*node{n1, n2}
		} else {
			n := mkNode(Replica(id), r.Log)
			net.nodes[n.id] = n
			net.replicas[id] = []*node{n}
		}
	}
	wantSafe, wantCommits := refVerdict(c)
	gotSafe, gotCommits := checkCommits(net)
	if gotSafe != wantSafe {
		return common.Fail("verdict-safe", "commit logs %s: checkCommits says safe=%v (commits=%d), reference says safe=%v (commits=%d)", common.JSON(c), gotSafe, gotCommits, wantSafe, wantCommits)
	}
	if gotCommits != wantCommits {
		return common.Fail("verdict-commits", "commit logs %s: checkCommits counts %d commits (safe=%v), the agreed prefix has length %d", common.JSON(c), gotCommits, gotSafe, wantCommits)
	}
	// the logs handed out to the caller are the ones that were judged
	blocks := getBlocks(net)
	for id, n := range net.nodes {
		if len(blocks[id]) != len(n.executedBlocks) {
			return common.Fail("verdict-logs", "getBlocks returns %d blocks for %v, the node committed %d", len(blocks[id]), id, len(n.executedBlocks))
		}
	}
	var cl []string
	twinOnly := false
	lengths := map[int]bool{}
	nonTwin := 0
	for _, r := range c.Replicas {
		if r.Twin {
			// would the verdict change if the twins' logs counted? (then ignoring them mattered)
			for _, l := range [][]int{r.Log, r.TwinLog} {
				alt := commitCase{append(append([]replicaLogs{}, c.Replicas...), replicaLogs{Log: l})}
				if s, n := refVerdict(alt); s != wantSafe || n != wantCommits {
					twinOnly = true
				}
			}
		} else {
			nonTwin++
			lengths[len(r.Log)] = true
		}
	}
	if wantSafe {
		cl = append(cl, "safe")
		if wantCommits > 0 {
			cl = append(cl, "safe,commits>0")
		}
	} else {
		cl = append(cl, "unsafe")
		if wantCommits > 0 {
			cl = append(cl, "unsafe-after-common-prefix")
		}
	}
	if twinOnly {
		cl = append(cl, "twin-log-would-change-verdict")
	}
	if len(lengths) > 1 {
		cl = append(cl, "different-lengths")
	}
	if nonTwin == 0 {
		cl = append(cl, "no-replica-without-twin")
	}
	return common.OK(!wantSafe && wantCommits > 0, "", cl...)
}

// allLogs lists every label sequence of length <= maxLen where position j holds label j or 1000+j.
func allLogs(maxLen int) [][]int {
	logs := [][]int{{}}
	level := [][]int{{}}
	for j := 0; j < maxLen; j++ {
		var nextLevel [][]int
		for _, l := range level {
			for _, lab := range []int{j, 1000 + j} {
				nextLevel = append(nextLevel, append(append([]int{}, l...), lab))
			}
		}
		logs = append(logs, nextLevel...)
		level = nextLevel
	}
	return logs
}

// TestC18VerdictExhaustive: all commit-log combinations of 1..3 replicas with logs of length <= 3 and of 4 replicas
// with logs of length <= 2 (quick) / <= 3 (thorough) over two blocks per position, every twin mask; a twin's second node holds the "other" log.
func TestC18VerdictExhaustive(t *testing.T) {
	common.Exhaustive(t, c18, "TestC18VerdictExhaustive", func(yield func(commitCase) bool) {
		for r := 1; r <= 4; r++ {
			maxLen := 3
			if r == 4 && common.Tier() != "thorough" {
				maxLen = 2
			}
			logs := allLogs(maxLen)
			idx := make([]int, r)
			for {
				for mask := 0; mask < 1<<r; mask++ {
					c := commitCase{make([]replicaLogs, r)}
					for i := range idx {
						c.Replicas[i].Log = logs[idx[i]]
						if mask>>i&1 == 1 {
							c.Replicas[i].Twin = true
							// the other node of the pair committed the mirrored labels (diverges from position 0)
							for _, l := range logs[idx[i]] {
								c.Replicas[i].TwinLog = append(c.Replicas[i].TwinLog, (l+1000)%2000)
							}
						}
					}
					if !yield(c) {
						return
					}
				}
				i := r - 1
				for i >= 0 && idx[i] == len(logs)-1 {
					idx[i] = 0
					i--
				}
				if i < 0 {
					break
				}
				idx[i]++
			}
		}
	}, commitProp)
}

type forkLog struct {
	Len    int // number of committed blocks
	Div    int // positions >= Div are on branch Branch (positions < Div on the trunk)
	Branch int // 0 = trunk
}

func (f forkLog) labels() []int {
	l := make([]int, f.Len)
	for j := range l {
		l[j] = j
		if j >= f.Div {
			l[j] = 1000*f.Branch + j
		}
	}
	return l
}

// TestC18VerdictRandom: up to 4 replicas (some twinned), logs = shared prefix + optional divergence, different lengths.
func TestC18VerdictRandom(t *testing.T) {
	common.Check(t, c18, "TestC18VerdictRandom", 4000, 300000, func(rt *rapid.T) commitCase {
		n := rapid.IntRange(1, 4).Draw(rt, "replicas")
		drawLog := func(label string) []int {
			f := forkLog{Len: rapid.IntRange(0, 10).Draw(rt, label+"len")}
			if rapid.Bool().Draw(rt, label+"diverges") {
				f.Div = rapid.IntRange(0, max(f.Len-1, 0)).Draw(rt, label+"div")
				f.Branch = rapid.IntRange(1, 2).Draw(rt, label+"branch")
			}
			return f.labels()
		}
		c := commitCase{make([]replicaLogs, n)}
		for i := range c.Replicas {
			c.Replicas[i].Log = drawLog("a")
			if rapid.IntRange(0, 3).Draw(rt, "twin") == 0 {
				c.Replicas[i].Twin = true
				c.Replicas[i].TwinLog = drawLog("b")
			}
		}
		return c
	}, commitProp)
}

// ---------------------------------------------------------------------------------------------------------------
// 3b. the executor reports what checkCommits computed over the logs it hands out

type execCase struct {
	Nodes, Twins, Partitions, Views uint8
	Seed                            int64
	Skip                            int // scenario index in the shuffled sequence
	Rules                           string
}

func execProp(c execCase) common.Result {
	g := NewGenerator(quietLogger(), Settings{NumNodes: c.Nodes, NumTwins: c.Twins, Partitions: c.Partitions, Views: c.Views})
	g.Shuffle(c.Seed)
	var s Scenario
	for i := 0; i <= c.Skip; i++ {
		var err error
		if s, err = g.NextScenario(); err != nil {
			return common.OK(false, "", "generator-exhausted")
		}
	}
	var opts []core.RuntimeOption
	if c.Rules == rules.NameFastHotStuff {
		opts = append(opts, core.WithAggregateQC()) // a documented precondition of the fast-HotStuff rules
	}
	res, err := ExecuteScenario(s, c.Nodes, c.Twins, 100, c.Rules, opts...)
	if err != nil {
		return common.Fail("execute-error", "%+v: ExecuteScenario: %v\n%s", c, err, canonScenario(s))
	}
	// rebuild the per-replica logs from the report and judge them with the reference (labels = first-seen block hashes)
	labels := map[hotstuff.Hash]int{}
	perReplica := map[hotstuff.ID][][]int{}
	var ids []NodeID
	for id := range res.NodeCommits {
		ids = append(ids, id)
	}
	sort.Slice(ids, func(i, j int) bool {
		if ids[i].ReplicaID != ids[j].ReplicaID {
			return ids[i].ReplicaID < ids[j].ReplicaID
		}
		return ids[i].TwinID < ids[j].TwinID
	})
	all := refNodes(c.Nodes, c.Twins)
	if len(ids) != len(all) {
		return common.Fail("execute-nodes", "%+v: the report has commit logs of %d nodes, the configuration has %d", c, len(ids), len(all))
	}
	for _, id := range ids {
		if !all[id] {
			return common.Fail("execute-nodes", "%+v: the report has a commit log of %v, which is not a configured node", c, id)
		}
		var l []int
		for _, b := range res.NodeCommits[id] {
			if _, ok := labels[b.Hash()]; !ok {
				labels[b.Hash()] = len(labels)
			}
			l = append(l, labels[b.Hash()])
		}
		perReplica[id.ReplicaID] = append(perReplica[id.ReplicaID], l)
	}
	var cc commitCase
	for r := 1; r <= int(c.Nodes); r++ {
		ls := perReplica[hotstuff.ID(r)]
		rl := replicaLogs{Log: ls[0]}
		if len(ls) == 2 {
			rl.Twin, rl.TwinLog = true, ls[1]
		}
		cc.Replicas = append(cc.Replicas, rl)
	}
	wantSafe, wantCommits := refVerdict(cc)
	if res.Safe != wantSafe || res.Commits != wantCommits {
		return common.Fail("execute-report", "%+v: ExecuteScenario reports safe=%v commits=%d; the commit logs it returns (%s) give safe=%v commits=%d\n%s",
			c, res.Safe, res.Commits, common.JSON(cc), wantSafe, wantCommits, canonScenario(s))
	}
	var cl []string
	if res.Commits > 0 {
		cl = append(cl, "commits>0")
	} else {
		cl = append(cl, "commits=0")
	}
	if !res.Safe {
		cl = append(cl, "unsafe")
	}
	return common.OK(res.Commits > 0 && c.Twins > 0, "", cl...)
}

// TestC18ExecutorReport runs real scenarios and compares the reported verdict with the reference over the reported logs.
func TestC18ExecutorReport(t *testing.T) {
	common.Check(t, c18, "TestC18ExecutorReport", 64, 2000, func(rt *rapid.T) execCase {
		return execCase{
			Nodes:      4,
			Twins:      uint8(rapid.IntRange(0, 1).Draw(rt, "twins")),
			Partitions: uint8(rapid.IntRange(1, 2).Draw(rt, "partitions")),
			Views:      uint8(rapid.IntRange(4, 8).Draw(rt, "views")),
			Seed:       rapid.Int64().Draw(rt, "seed"),
			Skip:       rapid.IntRange(0, 20).Draw(rt, "skip"),
			Rules:      rapid.SampledFrom([]string{rules.NameChainedHotStuff, rules.NameChainedHotStuff, rules.NameSimpleHotStuff, rules.NameFastHotStuff}).Draw(rt, "rules"),
		}
	}, execProp)
}

// ---- concurrent drawing: `twins run --concurrency N` lets N workers draw from ONE generator ------------------------------

type concCase struct {
	Gen     genCase
	Workers int
}

// concProp: the scenarios handed out to concurrent workers are, as a multiset, exactly the sequential enumeration.
func concProp(c concCase) common.Result {
	ref, announced, fail := newGen(c.Gen, c.Gen.Shuffle)
	if fail != nil {
		return *fail
	}
	if announced == 0 || announced > 8000 {
		return common.OK(false, "", "conc skipped (empty or large)")
	}
	want := map[string]int{}
	for i := int64(0); i < announced; i++ {
		s, err, p := next(ref)
		if p != "" || err != nil {
			return common.OK(false, "", "conc skipped (sequential enumeration failed; covered by the generator checks)")
		}
		want[canonScenario(s)]++
	}
	g, _, fail := newGen(c.Gen, c.Gen.Shuffle)
	if fail != nil {
		return *fail
	}
	got := make([]map[string]int, c.Workers)
	var wg sync.WaitGroup
	for w := 0; w < c.Workers; w++ {
		got[w] = map[string]int{}
		wg.Add(1)
		go func(m map[string]int) {
			defer wg.Done()
			for {
				s, err, p := next(g)
				if p != "" || err != nil {
					return
				}
				m[canonScenario(s)]++
			}
		}(got[w])
	}
	wg.Wait()
	total := map[string]int{}
	n := 0
	for _, m := range got {
		for k, v := range m {
			total[k] += v
			n += v
		}
	}
	if int64(n) != announced {
		return common.Fail("concurrent-count", "%v, %d workers: %d scenarios were handed out, %d announced", c.Gen, c.Workers, n, announced)
	}
	dup, unknown, missing := 0, 0, 0
	for k, v := range total {
		if want[k] == 0 {
			unknown++
		} else if v > want[k] {
			dup += v - want[k]
		}
	}
	for k, v := range want {
		if total[k] < v {
			missing += v - total[k]
		}
	}
	if dup+unknown+missing > 0 {
		return common.Fail("concurrent-enumeration", "%v, %d workers drawing from one generator: %d scenarios handed out more than once, %d never handed out, %d that the sequential enumeration does not contain (announced %d)", c.Gen, c.Workers, dup, missing, unknown, announced)
	}
	return common.OK(true, fmt.Sprintf("%v|%d", c.Gen, c.Workers), "concurrent-draw")
}

func genConc(rt *rapid.T) concCase {
	g := genCase{Nodes: uint8(rapid.IntRange(2, 4).Draw(rt, "nodes")), Twins: uint8(rapid.IntRange(0, 1).Draw(rt, "twins")),
		Partitions: uint8(rapid.IntRange(1, 2).Draw(rt, "partitions")), Views: uint8(rapid.IntRange(1, 3).Draw(rt, "views")),
		Shuffle: rapid.Bool().Draw(rt, "shuffle"), Seed: rapid.Int64().Draw(rt, "seed")}
	return concCase{Gen: g, Workers: rapid.IntRange(2, 8).Draw(rt, "workers")}
}

// TestC18ConcurrentDraw: goroutine interleavings are sampled (the harness does not own the schedule); TestC18RaceConcurrentDraw
// runs the same under the race detector.
func TestC18ConcurrentDraw(t *testing.T) {
	common.Check(t, c18, "TestC18ConcurrentDraw", 400, 8000, genConc, concProp)
}

func TestC18RaceConcurrentDraw(t *testing.T) {
	common.Check(t, c18, "TestC18RaceConcurrentDraw", 60, 1200, genConc, concProp)
}

// ---- faithful verdict on long fault-free scenarios ---------------------------------------------------------------------

// longCase: NO twins (nothing is faulty, so the consensus under test is safe and a faithful report says so). One node is
// partitioned off for the first Apart views and together with the others afterwards, so that it catches up on many blocks
// at once; leaders rotate over the other nodes while it is apart.
type longCase struct {
	Rules    string
	Apart    int // views the node spends alone
	Together int // views after it rejoined
	Node     int // 1..4
}

func longProp(c longCase) common.Result {
	all := []NodeID{{1, 0}, {2, 0}, {3, 0}, {4, 0}}
	var s Scenario
	lone := NodeID{hotstuff.ID(c.Node), 0}
	for v := 0; v < c.Apart+c.Together; v++ {
		var view View
		if v < c.Apart {
			rest := NodeSet{}
			for _, id := range all {
				if id != lone {
					rest.Add(id)
				}
			}
			one := NodeSet{}
			one.Add(lone)
			view.Partitions = []NodeSet{rest, one}
			l := 1 + v%4
			if l == c.Node {
				l = 1 + (v+1)%4
			}
			view.Leader = hotstuff.ID(l)
		} else {
			set := NodeSet{}
			for _, id := range all {
				set.Add(id)
			}
			view.Partitions = []NodeSet{set}
			view.Leader = hotstuff.ID(1 + v%4)
		}
		s = append(s, view)
	}
	var opts []core.RuntimeOption
	if c.Rules == rules.NameFastHotStuff {
		opts = append(opts, core.WithAggregateQC())
	}
	res, err := ExecuteScenario(s, 4, 0, 15*(c.Apart+c.Together), c.Rules, opts...)
	if err != nil {
		return common.Fail("execute-error", "%+v: ExecuteScenario: %v", c, err)
	}
	if !res.Safe {
		var logs []string
		for id, l := range res.NodeCommits {
			var vs []string
			for _, b := range l {
				vs = append(vs, fmt.Sprint(b.View()))
			}
			logs = append(logs, fmt.Sprintf("%v: views [%s]", id, strings.Join(vs, " ")))
		}
		sort.Strings(logs)
		return common.Fail("execute-unsafe-without-faults", "%+v: a scenario WITHOUT twins (nothing is faulty) is reported unsafe; commit logs by block view:\n%s", c, strings.Join(logs, "\n"))
	}
	cl := []string{"long " + c.Rules}
	caught := 0
	if l := res.NodeCommits[lone]; len(l) > 0 {
		caught = len(l)
	}
	if caught >= 34 {
		cl = append(cl, "long caught-up>=34")
	}
	return common.OK(caught >= 20, "", cl...)
}

// TestC18LongScenarios: fault-free scenarios in which one node catches up on 20..60 views at once are reported safe.
func TestC18LongScenarios(t *testing.T) {
	common.Check(t, c18, "TestC18LongScenarios", 40, 1500, func(rt *rapid.T) longCase {
		return longCase{
			Rules:    rapid.SampledFrom([]string{rules.NameChainedHotStuff, rules.NameChainedHotStuff, rules.NameSimpleHotStuff, rules.NameFastHotStuff}).Draw(rt, "rules"),
			Apart:    rapid.IntRange(20, 60).Draw(rt, "apart"),
			Together: rapid.IntRange(6, 12).Draw(rt, "together"),
			Node:     rapid.IntRange(1, 4).Draw(rt, "node"),
		}
	}, longProp)
}
