package clientpb

// C15 — command batching is FIFO, full-sized and duplicate-free.
// Injected by the /verif driver as internal/proto/clientpb/zz_verif_c15_test.go (in-package: clientpb is internal).
//
// Oracle: an independent reference list model written from the property statement:
//   Add      accepts a command iff its sequence number is above what is marked proposed for its client
//   Proposed raises the mark of every named client to the named sequence number (never lowers it)
//   Get      hands out the first batchSize fresh (seq > mark) accepted commands in arrival order and forgets everything it
//            examined; when fewer than batchSize fresh commands are present it does not return until its context ends
//
// Time: every history runs inside a testing/synctest bubble. The bubble's clock is virtual and moves only when every
// goroutine of the bubble is durably blocked, so "Get must return" (5 s budget) and "Get must block" (context ends after
// 5 ms) are decided exactly and do not depend on machine load; synctest.Wait() gives the same exact decision for a Get that is
// left pending while further operations arrive. No wall clock is read anywhere in this file.

import (
	"context"
	"encoding/binary"
	"errors"
	"fmt"
	"runtime"
	"sort"
	"strings"
	"sync"
	"sync/atomic"
	"testing"
	"testing/synctest"
	"time"

	"github.com/relab/hotstuff/verifx/common"
	"pgregory.net/rapid"
)

const (
	c15            = "C15"
	c15MustReturn  = 5 * time.Second      // virtual
	c15MustBlock   = 5 * time.Millisecond // virtual
	c15FillerID    = 1000                 // client id used for end-of-history fillers (outside every generator's range)
	c15MaxClientID = 3
)

// c15Bubble evaluates f inside a synctest bubble (virtual time; all goroutines started by f must have exited when f returns,
// synctest.Test enforces it).
func c15Bubble(t *testing.T, f func() common.Result) (res common.Result) {
	synctest.Test(t, func(*testing.T) {
		res = common.Safe(func(struct{}) common.Result { return f() }, struct{}{})
	})
	return res
}

// ---------------------------------------------------------------------------------------------------------------
// 1. sequential histories against the reference model

type c15Ref struct{ C, S int }

type c15Op struct {
	K string   // add | prop | pgot | get
	C int      `json:",omitempty"` // add: client id
	S int      `json:",omitempty"` // add: sequence number
	B []c15Ref `json:",omitempty"` // prop: Proposed(batch over these commands)
	I int      `json:",omitempty"` // pgot: Proposed(the (I mod n)-th batch handed out so far); nothing handed out yet: no-op
}

type c15SeqCase struct {
	Batch   int
	Pending bool // false: a Get that must block gets a context ending after 5 ms; true: it is left pending while the next ops run
	Ops     []c15Op
}

func (o c15Op) String() string {
	switch o.K {
	case "add":
		return fmt.Sprintf("add(c%d,s%d)", o.C, o.S)
	case "prop":
		var p []string
		for _, r := range o.B {
			p = append(p, fmt.Sprintf("c%ds%d", r.C, r.S))
		}
		return "proposed[" + strings.Join(p, " ") + "]"
	case "pgot":
		return fmt.Sprintf("proposed(got#%d)", o.I)
	}
	return o.K
}

func c15OpsString(ops []c15Op) string {
	var p []string
	for _, o := range ops {
		p = append(p, o.String())
	}
	return strings.Join(p, " ")
}

type c15Entry struct {
	id       int
	c        uint32
	s        uint64
	filler   bool
	cmd      *Command
	accepted bool
	handed   int
}

func (e *c15Entry) String() string { return fmt.Sprintf("c%ds%d#%d", e.c, e.s, e.id) }

func c15Entries(l []*c15Entry) string {
	var p []string
	for _, e := range l {
		p = append(p, e.String())
	}
	return "[" + strings.Join(p, " ") + "]"
}

type c15GetRes struct {
	b   *Batch
	err error
}

type c15Pending struct {
	cancel  context.CancelFunc
	res     chan c15GetRes
	blocked bool // was observed blocked at least once
}

type c15Flags struct {
	staleAtGet    bool // a Proposed landed between an Add and the Get that would have returned the command
	multiReady    bool // >= 2 full fresh batches present at a Get
	blocked       bool // a Get had to block
	staleSignal   bool // ... although the number of commands held reached the batch size (all but too few are stale)
	rejected      bool // an Add was refused as already proposed
	dupKey        bool // the same (client, seq) accepted twice
	wokenPending  bool // a Get that was blocked returned after a later Add
	afterBlocked  bool // a Get returned a batch after an earlier Get had blocked
	gaveUpReady   bool // a request whose context was already done arrived while a full fresh batch was present
	batches       int
}

func (f c15Flags) nontrivial() bool { return f.staleAtGet || f.multiReady }

func (f c15Flags) classes() []string {
	var cl []string
	add := func(b bool, s string) {
		if b {
			cl = append(cl, s)
		}
	}
	add(f.staleAtGet, "stale-at-get")
	add(f.multiReady, "multi-ready")
	add(f.blocked, "blocked-get")
	add(f.staleSignal, "blocked-with-stale-entries")
	add(f.rejected, "rejected-add")
	add(f.dupKey, "same-key-twice")
	add(f.wokenPending, "pending-get-woken")
	add(f.afterBlocked, "batch-after-blocked-get")
	add(f.gaveUpReady, "given-up-request-while-batch-ready")
	add(f.batches >= 2, "batches>=2")
	add(f.batches == 0, "no-batch")
	return cl
}

type c15Run struct {
	batch   int
	pending bool
	cache   *CommandCache
	marked  map[uint32]uint64
	list    []*c15Entry // model: accepted commands not yet examined by a successful Get, in arrival order
	all     []*c15Entry
	got     []*Batch
	pend    *c15Pending
	fl      c15Flags
	ctxt    func() string // describes the history for messages
}

func c15NewRun(batch int, pending bool) *c15Run {
	return &c15Run{batch: batch, pending: pending, cache: NewCommandCache(uint32(batch)), marked: map[uint32]uint64{}}
}

func (r *c15Run) fail(fp, format string, args ...any) *common.Result {
	res := common.Fail(fp, "batch size %d, history: %s\n%s", r.batch, r.ctxt(), fmt.Sprintf(format, args...))
	return &res
}

func (r *c15Run) fresh(e *c15Entry) bool { return e.s > r.marked[e.c] }

func (r *c15Run) freshCount() (n int) {
	for _, e := range r.list {
		if r.fresh(e) {
			n++
		}
	}
	return
}

// modelNext: the batch the next Get has to return (nil: it has to block) and how many list entries it examines.
func (r *c15Run) modelNext() (want []*c15Entry, examined int) {
	for i, e := range r.list {
		if r.fresh(e) {
			want = append(want, e)
			if len(want) == r.batch {
				return want, i + 1
			}
		}
	}
	return nil, 0
}

func (r *c15Run) add(c uint32, s uint64, filler bool) {
	e := &c15Entry{id: len(r.all), c: c, s: s, filler: filler}
	data := make([]byte, 4)
	binary.BigEndian.PutUint32(data, uint32(e.id))
	e.cmd = &Command{ClientID: c, SequenceNumber: s, Data: data}
	r.all = append(r.all, e)
	if r.fresh(e) {
		for _, o := range r.list {
			if o.c == c && o.s == s {
				r.fl.dupKey = true
			}
		}
		e.accepted = true
		r.list = append(r.list, e)
	} else {
		r.fl.rejected = true
	}
	r.cache.Add(e.cmd)
}

func (r *c15Run) mark(c uint32, s uint64) {
	if s > r.marked[c] {
		r.marked[c] = s
	}
}

func (r *c15Run) prop(refs []c15Ref) {
	b := &Batch{}
	for _, x := range refs {
		b.Commands = append(b.Commands, &Command{ClientID: uint32(x.C), SequenceNumber: uint64(x.S)})
		r.mark(uint32(x.C), uint64(x.S))
	}
	r.cache.Proposed(b)
}

func (r *c15Run) propGot(i int) {
	if len(r.got) == 0 {
		return
	}
	b := r.got[i%len(r.got)]
	for _, cmd := range b.GetCommands() {
		r.mark(cmd.GetClientID(), cmd.GetSequenceNumber())
	}
	r.cache.Proposed(b)
}

// identify maps a handed-out command back to the Add that introduced it.
func (r *c15Run) identify(cmd *Command) *c15Entry {
	if cmd == nil || len(cmd.GetData()) != 4 {
		return nil
	}
	id := int(binary.BigEndian.Uint32(cmd.GetData()))
	if id >= len(r.all) || r.all[id].cmd != cmd || cmd.GetClientID() != r.all[id].c || cmd.GetSequenceNumber() != r.all[id].s {
		return nil
	}
	return r.all[id]
}

// checkBatch judges a batch returned by the real Get by the property's clauses alone (before the comparison with the model).
func (r *c15Run) checkBatch(b *Batch) ([]*c15Entry, *common.Result) {
	cmds := b.GetCommands()
	var got []*c15Entry
	for _, cmd := range cmds {
		e := r.identify(cmd)
		if e == nil {
			return nil, r.fail("foreign-command", "Get returned a command that was never added (or a modified one): %v", cmd)
		}
		got = append(got, e)
	}
	if len(cmds) != r.batch {
		return got, r.fail("partial-batch", "Get returned %d commands %s, a full batch has %d", len(cmds), c15Entries(got), r.batch)
	}
	seen := map[int]bool{}
	for _, e := range got {
		if !r.fresh(e) {
			return got, r.fail("stale-handout", "Get handed out %s although sequence number %d is already marked proposed for client %d", e, r.marked[e.c], e.c)
		}
		if e.handed > 0 || seen[e.id] {
			return got, r.fail("duplicate-handout", "Get handed out %s a second time", e)
		}
		seen[e.id] = true
	}
	return got, nil
}

// accept compares a returned batch with the model's and advances the model.
func (r *c15Run) accept(b *Batch, want []*c15Entry, examined int) *common.Result {
	got, f := r.checkBatch(b)
	if f != nil {
		return f
	}
	if want == nil {
		return r.fail("unexpected-batch", "Get returned %s although only %d fresh commands are pending (model list %s)", c15Entries(got), r.freshCount(), c15Entries(r.list))
	}
	for i := range want {
		if got[i] != want[i] {
			return r.fail("fifo-order", "Get returned %s, the oldest fresh commands in arrival order are %s (model list %s)", c15Entries(got), c15Entries(want), c15Entries(r.list))
		}
	}
	for _, e := range got {
		e.handed++
	}
	r.list = r.list[examined:]
	r.got = append(r.got, b)
	r.fl.batches++
	if r.fl.blocked {
		r.fl.afterBlocked = true
	}
	return nil
}

func (r *c15Run) observeAtGet() {
	stale := false
	for _, e := range r.list {
		if !r.fresh(e) {
			stale = true
		}
	}
	if stale {
		r.fl.staleAtGet = true
	}
	if r.freshCount() >= 2*r.batch {
		r.fl.multiReady = true
	}
}

func (r *c15Run) noteBlocked() {
	r.fl.blocked = true
	if len(r.list) >= r.batch {
		r.fl.staleSignal = true
	}
}

func (r *c15Run) timedGet(d time.Duration) (*Batch, error) {
	ctx, cancel := context.WithTimeout(context.Background(), d)
	defer cancel()
	return r.cache.Get(ctx)
}

// get issues one request for a batch.
func (r *c15Run) get() *common.Result {
	if r.pending {
		if f := r.cancelPending(); f != nil {
			return f
		}
		r.observeAtGet()
		ctx, cancel := context.WithCancel(context.Background())
		p := &c15Pending{cancel: cancel, res: make(chan c15GetRes, 1)}
		cache := r.cache
		go func() {
			defer func() {
				if x := recover(); x != nil {
					p.res <- c15GetRes{nil, fmt.Errorf("panic in Get: %v", x)}
				}
			}()
			b, err := cache.Get(ctx)
			p.res <- c15GetRes{b, err}
		}()
		r.pend = p
		return r.settle()
	}
	r.observeAtGet()
	want, examined := r.modelNext()
	if want != nil {
		b, err := r.timedGet(c15MustReturn)
		if err != nil {
			return r.fail("get-blocked", "Get did not return within 5 s (virtual: every goroutine was blocked) although a full fresh batch %s is pending: %v", c15Entries(want), err)
		}
		return r.accept(b, want, examined)
	}
	b, err := r.timedGet(c15MustBlock)
	if err == nil {
		return r.accept(b, nil, 0)
	}
	if b != nil || !errors.Is(err, context.DeadlineExceeded) {
		return r.fail("get-error", "a Get whose context expired returned (%v, %v), want (nil, context.DeadlineExceeded)", b, err)
	}
	r.noteBlocked()
	return nil
}

// cancelledGet issues a request whose context is already done (a caller that has given up, e.g. a proposer whose view
// ended just as the batch filled). It may report the context's error or - when a full fresh batch is present - hand that
// batch out; the statement allows both. What it must not do is disturb the cache: the following requests are judged by the
// model as usual, so a wake-up swallowed here shows as a blocked Get later.
func (r *c15Run) cancelledGet() *common.Result {
	if f := r.cancelPending(); f != nil {
		return f
	}
	want, examined := r.modelNext()
	if want != nil {
		r.fl.gaveUpReady = true
	}
	ctx, cancel := context.WithCancel(context.Background())
	cancel()
	b, err := r.cache.Get(ctx)
	if err == nil {
		r.observeAtGet()
		return r.accept(b, want, examined)
	}
	if b != nil || !errors.Is(err, context.Canceled) {
		return r.fail("get-error", "a Get whose context was already cancelled returned (%v, %v), want (nil, context.Canceled) or a batch", b, err)
	}
	return nil
}

// settle decides, once every other goroutine is durably blocked, whether the pending Get had to return by now.
func (r *c15Run) settle() *common.Result {
	p := r.pend
	if p == nil {
		return nil
	}
	synctest.Wait()
	want, examined := r.modelNext()
	select {
	case g := <-p.res:
		p.cancel()
		r.pend = nil
		if g.err != nil {
			return r.fail("get-error", "a pending Get whose context is still live returned the error %v", g.err)
		}
		if p.blocked {
			r.fl.wokenPending = true
		}
		return r.accept(g.b, want, examined)
	default:
		if want != nil {
			return r.fail("get-blocked", "a Get is still blocked (all goroutines idle) although a full fresh batch %s is pending: lost wake-up", c15Entries(want))
		}
		if !p.blocked {
			p.blocked = true
			r.noteBlocked()
		}
	}
	return nil
}

// cancelPending ends a Get that the model says is blocked; it must report its context's error.
func (r *c15Run) cancelPending() *common.Result {
	p := r.pend
	if p == nil {
		return nil
	}
	r.pend = nil
	p.cancel()
	g := <-p.res
	if g.err == nil {
		return r.accept(g.b, nil, 0)
	}
	if g.b != nil || !errors.Is(g.err, context.Canceled) {
		return r.fail("get-error", "a cancelled Get returned (%v, %v), want (nil, context.Canceled)", g.b, g.err)
	}
	return nil
}

// cleanup joins the pending Get goroutine on every exit path.
func (r *c15Run) cleanup() {
	if p := r.pend; p != nil {
		r.pend = nil
		p.cancel()
		<-p.res
	}
}

func c15RunSeq(batch int, pending bool, ops []c15Op) (common.Result, c15Flags) {
	r := c15NewRun(batch, pending)
	defer r.cleanup()
	step := -1
	phase := ""
	r.ctxt = func() string {
		s := c15OpsString(ops)
		if phase != "" {
			return s + " | " + phase
		}
		return fmt.Sprintf("%s | at step %d", s, step)
	}
	for i, op := range ops {
		step = i
		var f *common.Result
		switch op.K {
		case "add":
			r.add(uint32(op.C), uint64(op.S), false)
			f = r.settle()
		case "prop":
			r.prop(op.B)
			f = r.settle()
		case "pgot":
			r.propGot(op.I)
			f = r.settle()
		case "get":
			f = r.get()
		case "cget":
			f = r.cancelledGet()
		}
		if f != nil {
			return *f, r.fl
		}
	}
	fl := r.fl // measurements describe the generated history, not the drain below
	// no fresh command is lost: whatever is still fresh comes out, in order, once fillers complete the last batch
	phase = "draining at the end"
	if f := r.cancelPending(); f != nil {
		return *f, fl
	}
	k := r.freshCount()
	n := 0
	if k > 0 {
		fill := (r.batch - k%r.batch) % r.batch
		for j := 1; j <= fill; j++ {
			r.add(c15FillerID, uint64(j), true)
		}
		n = (k + fill) / r.batch
	}
	for j := 0; j < n; j++ {
		before := r.fl.batches
		if f := r.get(); f != nil {
			return *f, fl
		}
		if r.fl.batches != before+1 {
			return *r.fail("harness", "drain: the model expected a batch but none was accepted"), fl
		}
	}
	before := r.fl.batches
	if f := r.get(); f != nil { // nothing fresh is left: must block
		return *f, fl
	}
	if f := r.cancelPending(); f != nil {
		return *f, fl
	}
	if r.fl.batches != before {
		return *r.fail("harness", "drain: a batch was accepted after everything fresh had been handed out"), fl
	}
	for _, e := range r.all {
		if e.handed > 1 {
			return *r.fail("duplicate-handout", "%s was handed out %d times", e, e.handed), fl
		}
		if e.accepted && e.handed == 0 && r.fresh(e) {
			return *r.fail("fresh-lost", "%s was accepted, never marked proposed and never handed out", e), fl
		}
		if !e.accepted && e.handed > 0 {
			return *r.fail("stale-handout", "%s was refused by the model at Add (already proposed) but handed out", e), fl
		}
	}
	return common.OK(fl.nontrivial(), "", fl.classes()...), fl
}

func c15SeqProp(t *testing.T) func(c c15SeqCase) common.Result {
	return func(c c15SeqCase) common.Result {
		if c.Batch < 1 {
			return common.OK(false, "")
		}
		return c15Bubble(t, func() common.Result {
			res, _ := c15RunSeq(c.Batch, c.Pending, c.Ops)
			return res
		})
	}
}

func c15GenSeqCase(rt *rapid.T) c15SeqCase {
	c := c15SeqCase{Batch: rapid.IntRange(1, 4).Draw(rt, "batch"), Pending: rapid.Bool().Draw(rt, "pending")}
	clients := rapid.IntRange(1, c15MaxClientID).Draw(rt, "clients")
	clientLike := rapid.Bool().Draw(rt, "style") // clients number their commands 1,2,3,... and sometimes resend
	next := make([]int, clients+1)
	kinds := []string{"add", "add", "add", "add", "add", "add", "add", "add", "add", "get", "get", "get", "get", "prop", "prop", "pgot", "cget"}
	n := rapid.IntRange(0, 60).Draw(rt, "n")
	for i := 0; i < n; i++ {
		op := c15Op{K: rapid.SampledFrom(kinds).Draw(rt, "kind")}
		switch op.K {
		case "add":
			op.C = rapid.IntRange(1, clients).Draw(rt, "c")
			if clientLike && rapid.IntRange(0, 5).Draw(rt, "resend") != 0 {
				next[op.C]++
				op.S = next[op.C]
			} else {
				op.S = rapid.IntRange(0, 10).Draw(rt, "s")
			}
		case "prop":
			k := rapid.IntRange(0, 4).Draw(rt, "k")
			for j := 0; j < k; j++ {
				// biased towards low sequence numbers: a high mark makes everything stale for the rest of the history
				s := min(rapid.IntRange(0, 10).Draw(rt, "s1"), rapid.IntRange(0, 10).Draw(rt, "s2"))
				op.B = append(op.B, c15Ref{rapid.IntRange(1, clients).Draw(rt, "c"), s})
			}
		case "pgot":
			op.I = rapid.IntRange(0, 7).Draw(rt, "i")
		}
		c.Ops = append(c.Ops, op)
	}
	return c
}

// TestC15Model: random add / proposed / get histories (batch 1..4, clients 1..3, seq 0..10) against the reference model.
func TestC15Model(t *testing.T) {
	defer runtime.GOMAXPROCS(runtime.GOMAXPROCS(1)) // histories are sequential; one P avoids cross-thread hand-offs per Get
	common.Check(t, c15, "TestC15Model", 24000, 600000, c15GenSeqCase, c15SeqProp(t))
}

// ---------------------------------------------------------------------------------------------------------------
// 2. exhaustive small alphabet

// c15ExhCase stands for the history Prefix and all its extensions by up to Extend further operations.
// Operation codes for alphabet (2 clients, seq 1..MaxSeq): 0 = get, 1..2m = add(c,s), 2m+1..4m = proposed[c s].
type c15ExhCase struct {
	Batch  int
	MaxSeq int
	Prefix []int
	Extend int
}

func c15Decode(code, m int) c15Op {
	if code == 0 {
		return c15Op{K: "get"}
	}
	code--
	if code < 2*m {
		return c15Op{K: "add", C: code/m + 1, S: code%m + 1}
	}
	code -= 2 * m
	return c15Op{K: "prop", B: []c15Ref{{code/m + 1, code%m + 1}}}
}

func c15Label(fl c15Flags) string {
	cl := fl.classes()
	if len(cl) == 0 {
		return "plain"
	}
	return strings.Join(cl, "+")
}

func c15ExhProp(t *testing.T, test string) func(c c15ExhCase) common.Result {
	e := common.Get(c15)
	return func(c c15ExhCase) common.Result {
		return c15Bubble(t, func() common.Result {
			alpha := 1 + 4*c.MaxSeq
			ops := make([]c15Op, 0, len(c.Prefix)+c.Extend)
			for _, code := range c.Prefix {
				ops = append(ops, c15Decode(code, c.MaxSeq))
			}
			first, ffl := c15RunSeq(c.Batch, true, ops)
			if first.Err != "" {
				return first
			}
			first.Key = fmt.Sprint(c.Batch, c.MaxSeq, c.Prefix)
			nt := map[string]int64{}
			for l := 1; l <= c.Extend; l++ {
				suffix := make([]int, l)
				for {
					seq := ops[:len(c.Prefix)]
					for _, code := range suffix {
						seq = append(seq, c15Decode(code, c.MaxSeq))
					}
					res, fl := c15RunSeq(c.Batch, true, seq)
					if res.Err != "" {
						return res
					}
					if res.NonTrivial {
						nt[c15Label(fl)]++
					} else {
						e.Record(test, common.OK(false, "", c15Label(fl)), nil)
					}
					i := l - 1
					for i >= 0 && suffix[i] == alpha-1 {
						suffix[i] = 0
						i--
					}
					if i < 0 {
						break
					}
					suffix[i]++
				}
			}
			labels := make([]string, 0, len(nt))
			for k := range nt {
				labels = append(labels, k)
			}
			sort.Strings(labels)
			for _, k := range labels {
				e.Bulk(test, nt[k], k)
			}
			first.Classes = []string{c15Label(ffl)}
			return first
		})
	}
}

// c15EnumDomain yields every history over the alphabet of length <= maxLen exactly once, grouped by a prefix of length <= split.
func c15EnumDomain(yield func(c15ExhCase) bool, maxSeq, maxLen, split int) bool {
	alpha := 1 + 4*maxSeq
	if split > maxLen {
		split = maxLen
	}
	for batch := 1; batch <= 2; batch++ {
		for l := 0; l <= split; l++ {
			prefix := make([]int, l)
			for {
				ext := 0
				if l == split {
					ext = maxLen - split
				}
				if !yield(c15ExhCase{batch, maxSeq, append([]int(nil), prefix...), ext}) {
					return false
				}
				i := l - 1
				for i >= 0 && prefix[i] == alpha-1 {
					prefix[i] = 0
					i--
				}
				if i < 0 {
					break
				}
				prefix[i]++
			}
		}
	}
	return true
}

func c15Pow(a, b int) int64 {
	r := int64(1)
	for i := 0; i < b; i++ {
		r *= int64(a)
	}
	return r
}

// TestC15Exhaustive enumerates ALL histories over {get, add(c,s), proposed[c s]} with 2 clients, batch size 1..2:
// quick: seq 1..3 up to length 5 and seq 1..2 up to length 6; thorough: seq 1..3 up to length 7.
// A Get that has to block is left pending while the following operations run (so the wake-up of a blocked Get is covered),
// and is cancelled by the next get operation or at the end of the history.
func TestC15Exhaustive(t *testing.T) {
	const test = "TestC15Exhaustive"
	defer runtime.GOMAXPROCS(runtime.GOMAXPROCS(1)) // histories are sequential; one P avoids cross-thread hand-offs per Get
	type dom struct{ maxSeq, maxLen int }
	doms := []dom{{3, 5}, {2, 6}}
	if common.Tier() == "thorough" {
		doms = []dom{{3, 7}}
	}
	var total int64
	var desc []string
	for _, d := range doms {
		for l := 0; l <= d.maxLen; l++ {
			total += 2 * c15Pow(1+4*d.maxSeq, l)
		}
		desc = append(desc, fmt.Sprintf("2 clients, seq 1..%d, batch 1..2, every history of length <= %d", d.maxSeq, d.maxLen))
	}
	common.Get(c15).Note(test, map[string]any{"domains": desc, "histories_in_domain": total})
	common.Exhaustive(t, c15, test, func(yield func(c15ExhCase) bool) {
		for _, d := range doms {
			if !c15EnumDomain(yield, d.maxSeq, d.maxLen, 3) {
				return
			}
		}
	}, c15ExhProp(t, test))
}

// ---------------------------------------------------------------------------------------------------------------
// 3. concurrent producers, marker and consumers (built with -race by the driver)

type c15Prod struct {
	Client int
	Seqs   []int
	Yield  int // > 0: runtime.Gosched() after every Yield-th Add
}

type c15RaceCase struct {
	Batch     int
	Prods     []c15Prod
	Marks     [][]c15Ref // the marker goroutine calls Proposed on each of these batches in turn
	MarkYield int
	Consumers int  // 0..2 goroutines looping on Get
	MarkOwn   bool // consumers call Proposed on every batch they receive (what the proposer does for its own chain)
}

type c15REntry struct {
	p, k   int
	c      uint32
	s      uint64
	filler bool
	cmd    *Command
	handed int
}

func (e *c15REntry) String() string {
	if e.filler {
		return fmt.Sprintf("filler%d", e.s)
	}
	return fmt.Sprintf("p%d.%d(c%ds%d)", e.p, e.k, e.c, e.s)
}

type c15RRec struct {
	b     *Batch
	floor [c15MaxClientID + 1]uint64 // marks whose Proposed call had returned before this Get started
}

type c15RLog struct {
	recs []c15RRec
	err  error
}

func c15AtomicMax(a *atomic.Uint64, v uint64) {
	for {
		old := a.Load()
		if v <= old || a.CompareAndSwap(old, v) {
			return
		}
	}
}

func c15RaceRun(c c15RaceCase) common.Result {
	fail := func(fp, format string, args ...any) common.Result {
		return common.Fail(fp, "%s\ncase: %s", fmt.Sprintf(format, args...), common.JSON(c))
	}
	cache := NewCommandCache(uint32(c.Batch))
	var all []*c15REntry
	byProd := make([][]*c15REntry, len(c.Prods))
	newEntry := func(p, k int, cl uint32, s uint64, filler bool) *c15REntry {
		e := &c15REntry{p: p, k: k, c: cl, s: s, filler: filler}
		data := make([]byte, 4)
		binary.BigEndian.PutUint32(data, uint32(len(all)))
		e.cmd = &Command{ClientID: cl, SequenceNumber: s, Data: data}
		all = append(all, e)
		return e
	}
	for p, pr := range c.Prods {
		for k, s := range pr.Seqs {
			byProd[p] = append(byProd[p], newEntry(p, k, uint32(pr.Client), uint64(s), false))
		}
	}
	var done [c15MaxClientID + 1]atomic.Uint64
	logs := make([]c15RLog, c.Consumers)
	var panics sync.Map
	start := make(chan struct{})
	var wg sync.WaitGroup
	guard := func(who string) {
		if x := recover(); x != nil {
			panics.Store(who, fmt.Sprint(x))
		}
	}
	for p := range c.Prods {
		wg.Add(1)
		go func(p int) {
			defer wg.Done()
			defer guard(fmt.Sprintf("producer %d", p))
			<-start
			y := c.Prods[p].Yield
			for k, e := range byProd[p] {
				cache.Add(e.cmd)
				if y > 0 && (k+1)%y == 0 {
					runtime.Gosched()
				}
			}
		}(p)
	}
	wg.Add(1)
	go func() {
		defer wg.Done()
		defer guard("marker")
		<-start
		for i, refs := range c.Marks {
			b := &Batch{}
			for _, x := range refs {
				b.Commands = append(b.Commands, &Command{ClientID: uint32(x.C), SequenceNumber: uint64(x.S)})
			}
			cache.Proposed(b)
			for _, x := range refs {
				c15AtomicMax(&done[x.C], uint64(x.S))
			}
			if c.MarkYield > 0 && (i+1)%c.MarkYield == 0 {
				runtime.Gosched()
			}
		}
	}()
	for x := 0; x < c.Consumers; x++ {
		wg.Add(1)
		go func(x int) {
			defer wg.Done()
			defer guard(fmt.Sprintf("consumer %d", x))
			<-start
			for {
				var rec c15RRec
				for cl := range rec.floor {
					rec.floor[cl] = done[cl].Load()
				}
				// virtual 5 s: expires only when producers and marker have finished and every consumer is blocked
				ctx, cancel := context.WithTimeout(context.Background(), c15MustReturn)
				b, err := cache.Get(ctx)
				cancel()
				if err != nil {
					if b != nil {
						err = fmt.Errorf("batch %v together with error %w", b, err)
					}
					logs[x].err = err
					return
				}
				rec.b = b
				logs[x].recs = append(logs[x].recs, rec)
				if c.MarkOwn {
					cache.Proposed(b)
					for _, cmd := range b.GetCommands() {
						if id := cmd.GetClientID(); id <= c15MaxClientID {
							c15AtomicMax(&done[id], cmd.GetSequenceNumber())
						}
					}
				}
			}
		}(x)
	}
	close(start)
	wg.Wait() // every goroutine has exited here (and synctest.Test would refuse to return otherwise)

	var pmsg []string
	panics.Range(func(k, v any) bool { pmsg = append(pmsg, fmt.Sprintf("%v: %v", k, v)); return true })
	if len(pmsg) > 0 {
		sort.Strings(pmsg)
		return fail("panic-concurrent", "panic in %s", strings.Join(pmsg, "; "))
	}

	identify := func(cmd *Command) *c15REntry {
		if cmd == nil || len(cmd.GetData()) != 4 {
			return nil
		}
		id := int(binary.BigEndian.Uint32(cmd.GetData()))
		if id >= len(all) || all[id].cmd != cmd {
			return nil
		}
		return all[id]
	}
	// final marks: Proposed only ever raises a client's mark, so the end value is the maximum over everything marked
	final := map[uint32]uint64{}
	raise := func(cl uint32, s uint64) {
		if s > final[cl] {
			final[cl] = s
		}
	}
	for _, refs := range c.Marks {
		for _, x := range refs {
			raise(uint32(x.C), uint64(x.S))
		}
	}
	handedConc := 0
	mixed := false
	perConsumer := make([][]*c15REntry, c.Consumers)
	for x := range logs {
		lg := &logs[x]
		if !errors.Is(lg.err, context.DeadlineExceeded) {
			return fail("get-error", "consumer %d: Get ended with %v, want context.DeadlineExceeded and no batch", x, lg.err)
		}
		for _, rec := range lg.recs {
			cmds := rec.b.GetCommands()
			var got []*c15REntry
			prods := map[int]bool{}
			for _, cmd := range cmds {
				e := identify(cmd)
				if e == nil {
					return fail("foreign-command", "consumer %d received a command that was never added: %v", x, cmd)
				}
				got = append(got, e)
				prods[e.p] = true
			}
			if len(cmds) != c.Batch {
				return fail("partial-batch", "consumer %d received %d commands %v, a full batch has %d", x, len(cmds), got, c.Batch)
			}
			if len(prods) > 1 {
				mixed = true
			}
			for _, e := range got {
				if e.s == 0 || e.s <= rec.floor[e.c] {
					return fail("stale-handout", "consumer %d received %v although Proposed(client %d, seq %d) had returned before that Get started", x, e, e.c, rec.floor[e.c])
				}
				e.handed++
				if e.handed > 1 {
					return fail("duplicate-handout", "%v was handed out twice", e)
				}
				if c.MarkOwn {
					raise(e.c, e.s)
				}
			}
			perConsumer[x] = append(perConsumer[x], got...)
			handedConc++
		}
	}
	// commands that were fresh at every moment of the run (seq above the final mark) can neither have been refused nor dropped
	var F []*c15REntry
	for _, e := range all {
		if e.s > final[e.c] && e.handed == 0 {
			F = append(F, e)
		}
	}
	if c.Consumers > 0 && len(F) >= c.Batch {
		return fail("get-blocked", "all producers and the marker have finished and every consumer's Get stayed blocked (virtual 5 s), yet %d commands "+
			"that were never marked proposed and never handed out are owed, batch size %d: lost wake-up or lost commands, e.g. %v", len(F), c.Batch, F[:c.Batch])
	}
	// white-box, classification only: accepted commands that went stale while waiting
	staleHeld := 0
	cache.mut.Lock()
	for _, cmd := range cache.cache {
		if cmd.GetSequenceNumber() <= final[cmd.GetClientID()] {
			staleHeld++
		}
	}
	cache.mut.Unlock()
	// drain: fillers complete the last batch; exactly F comes out, then Get blocks
	k := len(F)
	var drained []*c15REntry
	if k > 0 {
		fill := (c.Batch - k%c.Batch) % c.Batch
		for j := 1; j <= fill; j++ {
			cache.Add(newEntry(-1, j, c15FillerID, uint64(j), true).cmd)
		}
		for j := 0; j < (k+fill)/c.Batch; j++ {
			ctx, cancel := context.WithTimeout(context.Background(), c15MustReturn)
			b, err := cache.Get(ctx)
			cancel()
			if err != nil {
				return fail("get-blocked", "drain: %d never-marked commands (plus %d fillers) are owed but Get %d blocked (%v): commands were lost or a wake-up was", k, fill, j, err)
			}
			cmds := b.GetCommands()
			if len(cmds) != c.Batch {
				return fail("partial-batch", "drain: Get returned %d commands, a full batch has %d", len(cmds), c.Batch)
			}
			for _, cmd := range cmds {
				e := identify(cmd)
				if e == nil {
					return fail("foreign-command", "drain: received a command that was never added: %v", cmd)
				}
				if e.s <= final[e.c] {
					return fail("stale-handout", "drain: received %v although seq %d is marked proposed for client %d", e, final[e.c], e.c)
				}
				e.handed++
				if e.handed > 1 {
					return fail("duplicate-handout", "drain: %v was handed out twice", e)
				}
				drained = append(drained, e)
			}
		}
	}
	{
		ctx, cancel := context.WithTimeout(context.Background(), c15MustBlock)
		b, err := cache.Get(ctx)
		cancel()
		if err == nil {
			return fail("unexpected-batch", "after everything fresh was handed out Get still returned %v", b.GetCommands())
		}
		if b != nil || !errors.Is(err, context.DeadlineExceeded) {
			return fail("get-error", "a Get whose context expired returned (%v, %v)", b, err)
		}
	}
	for _, e := range F {
		if e.handed != 1 {
			return fail("fresh-lost", "%v was never marked proposed and never handed out", e)
		}
	}
	// FIFO: what one observer sees of one producer's commands is in the order that producer added them; the drain comes
	// after every concurrent hand-out, so an older command in the drain behind a newer one handed out earlier is a skip
	orders := perConsumer
	if len(orders) == 0 {
		orders = [][]*c15REntry{nil}
	}
	for x, seq := range orders {
		last := map[int]int{}
		for _, e := range append(append([]*c15REntry(nil), seq...), drained...) {
			if e.filler {
				continue
			}
			if l, ok := last[e.p]; ok && e.k <= l {
				return fail("fifo-order", "observer %d: producer %d's command #%d came out after its command #%d", x, e.p, e.k, l)
			}
			last[e.p] = e.k
		}
	}
	cl := []string{fmt.Sprintf("consumers=%d", c.Consumers)}
	addc := func(b bool, s string) {
		if b {
			cl = append(cl, s)
		}
	}
	addc(handedConc >= 2, "concurrent-batches>=2")
	addc(handedConc == 0 && c.Consumers > 0, "concurrent-batches=0")
	addc(mixed, "batch-mixes-producers")
	addc(staleHeld > 0, "stale-held-at-quiescence")
	addc(len(drained) > 0, "drained>0")
	addc(c.MarkOwn && c.Consumers > 0, "mark-own")
	addc(len(c.Marks) > 0, "marker-active")
	addc(c.Consumers == 0 && k >= 2*c.Batch, "multi-ready-no-consumer")
	nt := handedConc >= 2 || staleHeld > 0 || (c.Consumers == 0 && k >= 2*c.Batch)
	return common.OK(nt, "", cl...)
}

func c15GenRaceCase(rt *rapid.T) c15RaceCase {
	c := c15RaceCase{
		Batch:     rapid.IntRange(1, 4).Draw(rt, "batch"),
		Consumers: rapid.SampledFrom([]int{0, 1, 1, 1, 2, 2}).Draw(rt, "consumers"),
		MarkOwn:   rapid.Bool().Draw(rt, "markown"),
		MarkYield: rapid.IntRange(0, 2).Draw(rt, "myield"),
	}
	np := rapid.IntRange(1, 4).Draw(rt, "producers")
	for p := 0; p < np; p++ {
		pr := c15Prod{Client: rapid.IntRange(1, c15MaxClientID).Draw(rt, "client"), Yield: rapid.IntRange(0, 3).Draw(rt, "yield")}
		n := rapid.IntRange(0, 40).Draw(rt, "n")
		if rapid.IntRange(0, 3).Draw(rt, "style") != 0 {
			for s := 1; s <= n; s++ { // a client numbering its commands
				pr.Seqs = append(pr.Seqs, s)
			}
		} else {
			pr.Seqs = rapid.SliceOfN(rapid.IntRange(0, 12), n, n).Draw(rt, "seqs")
		}
		c.Prods = append(c.Prods, pr)
	}
	nm := rapid.IntRange(0, 8).Draw(rt, "marks")
	for i := 0; i < nm; i++ {
		k := rapid.IntRange(0, 4).Draw(rt, "k")
		var refs []c15Ref
		for j := 0; j < k; j++ {
			s := min(rapid.IntRange(0, 30).Draw(rt, "s1"), rapid.IntRange(0, 30).Draw(rt, "s2"))
			refs = append(refs, c15Ref{rapid.IntRange(1, c15MaxClientID).Draw(rt, "c"), s})
		}
		c.Marks = append(c.Marks, refs)
	}
	return c
}

// TestC15RaceConcurrent samples real interleavings of concurrent Add / Proposed / Get under the race detector.
func TestC15RaceConcurrent(t *testing.T) {
	common.Check(t, c15, "TestC15RaceConcurrent", 4000, 200000, c15GenRaceCase, func(c c15RaceCase) common.Result {
		if c.Batch < 1 || c.Consumers < 0 {
			return common.OK(false, "")
		}
		for _, p := range c.Prods {
			if p.Client < 0 || p.Client > c15MaxClientID {
				return common.OK(false, "")
			}
		}
		for _, m := range c.Marks {
			for _, x := range m {
				if x.C < 0 || x.C > c15MaxClientID {
					return common.OK(false, "")
				}
			}
		}
		return c15Bubble(t, func() common.Result { return c15RaceRun(c) })
	})
}
