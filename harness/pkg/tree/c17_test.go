package tree

// C17 (part) — tree.Shuffle, which produces the random tree of an experiment (internal/cli/run.go: RandomTree), hands the
// replicas a position assignment that still contains every replica exactly once. The consistency of the tree for *every*
// such assignment is checked by package verifx/c17; here only "Shuffle returns a permutation of its input" is decided.
// Injected by the /verif driver as internal/tree/zz_verif_c17_test.go (in-package: the random source is the unexported
// package variable rnd, which is re-seeded from the case so that the property function is deterministic).

import (
	"math/rand/v2"
	"slices"
	"testing"

	"github.com/relab/hotstuff/verifx/common"
	"pgregory.net/rapid"
)

type c17ShuffleCase struct {
	N      int    // number of replicas (0 allowed: the published test shuffles an empty slice)
	S1, S2 uint64 // seed of the generator used by Shuffle
	Rounds int    // Shuffle is applied this many times in a row to the same slice (experiments re-shuffle the same config)
	Offset uint32 // ids are Offset+1..Offset+N (Offset = 0 is the real configuration)
}

func c17ShuffleProp(c c17ShuffleCase) common.Result {
	if c.N < 0 || c.Rounds < 1 {
		return common.Fail("harness", "case outside the domain: %s", common.JSON(c))
	}
	rnd = rand.New(rand.NewPCG(c.S1, c.S2))
	p := make([]uint32, c.N)
	for i := range p {
		p[i] = c.Offset + uint32(i+1)
	}
	orig := slices.Clone(p)
	moved, distinctOrders := false, map[string]bool{}
	for r := 0; r < c.Rounds; r++ {
		Shuffle(p)
		if len(p) != c.N {
			return common.Fail("shuffle-length", "n=%d round %d: Shuffle changed the length to %d", c.N, r, len(p))
		}
		sorted := slices.Clone(p)
		slices.Sort(sorted)
		if !slices.Equal(sorted, orig) {
			return common.Fail("shuffle-not-permutation", "n=%d seed=(%d,%d) round %d: Shuffle produced %v, not a permutation of %v (a replica is missing from / twice in the tree)",
				c.N, c.S1, c.S2, r, p, orig)
		}
		if !slices.Equal(p, orig) {
			moved = true
		}
		distinctOrders[common.JSON(p)] = true
	}
	classes := []string{}
	switch {
	case c.N <= 1:
		classes = append(classes, "n<=1")
	case c.N <= 6:
		classes = append(classes, "n=2..6")
	default:
		classes = append(classes, "n=7..40")
	}
	if moved {
		classes = append(classes, "order-changed")
	} else {
		classes = append(classes, "order-unchanged")
	}
	if len(distinctOrders) > 1 {
		classes = append(classes, "rounds-differ")
	}
	// non-trivial: there is something to permute and the result is not the input order
	return common.OK(c.N >= 2 && moved, "", classes...)
}

func TestC17Shuffle(t *testing.T) {
	common.Check(t, "C17", "TestC17Shuffle", 8000, 200000, func(rt *rapid.T) c17ShuffleCase {
		return c17ShuffleCase{
			N:      rapid.IntRange(0, 40).Draw(rt, "n"),
			S1:     rapid.Uint64().Draw(rt, "s1"),
			S2:     rapid.Uint64().Draw(rt, "s2"),
			Rounds: rapid.IntRange(1, 4).Draw(rt, "rounds"),
			Offset: rapid.SampledFrom([]uint32{0, 0, 0, 100}).Draw(rt, "offset"),
		}
	}, c17ShuffleProp)
}
