package rules

// C04 — vote, lock and commit decisions equal the published protocol rules.
// Injected as protocol/rules/zz_verif_c04_test.go (in-package: the lock variables are unexported).
//
// The reference below is written over a *description* of the forest (indices, views, parent and QC pointers), from the
// pseudo-code of the papers:
//   chained  — HotStuff (Yin et al., PODC'19) Alg. 4/5: safeNode = extends(lock) OR justify.view > lock.view; lock on the
//              two-chain head; commit the three-chain tail when the two upper links are direct parent links (the repository
//              has no dummy blocks, so "direct" additionally means consecutive views);
//   fast     — Fast-HotStuff (Jalalzai et al.): vote if view == justify.view+1 (and view >= current view), or, with the
//              aggregate QC of the previous view, if the block extends the highQC block; commit the two-chain tail with direct, consecutive links;
//   simple   — simplified HotStuff (Jehl, FORTE'21): vote if view >= current view and justify.view >= locked.view; lock
//              the grandparent (by justify links) if higher; commit the great-grandparent when the three views are consecutive.
// A block that is not available in the store (and cannot be fetched) makes a rule that needs it answer "no".

import (
	"context"
	"fmt"
	"io"
	"sort"
	"strings"
	"testing"

	"github.com/relab/hotstuff"
	"github.com/relab/hotstuff/core"
	"github.com/relab/hotstuff/core/eventloop"
	"github.com/relab/hotstuff/core/logging"
	"github.com/relab/hotstuff/internal/proto/clientpb"
	"github.com/relab/hotstuff/security/blockchain"
	"github.com/relab/hotstuff/verifx/common"
	"pgregory.net/rapid"
)

const c04 = "C04"

type fblock struct {
	View   int
	Parent int // index of the parent block, -1 = genesis
	QC     int // index of the certified block, -1 = genesis
	Agg    bool // the proposal carries an aggregate QC (fast)
	AggDV  int  // the aggregate QC is for view (block view - 1 + AggDV): 0 = the view that just ended
}

type pres struct {
	Blk     int
	Kind    int // 0 = proposal: VoteRule, and if it says yes Store + CommitRule (as Voter/Committer do); 1 = the block enters the store silently (fetched as an ancestor)
	ViewArg int // offset added to the block's view for VoteRule's view argument
}

type forestCase struct {
	Rules  string
	Blocks []fblock
	Order  []pres
}

type c04Sender struct{}

func (c04Sender) NewView(hotstuff.ID, hotstuff.SyncInfo) error { return nil }
func (c04Sender) Vote(hotstuff.ID, hotstuff.PartialCert) error { return nil }
func (c04Sender) Timeout(hotstuff.TimeoutMsg)                  {}
func (c04Sender) Propose(*hotstuff.ProposeMsg)                 {}
func (c04Sender) RequestBlock(context.Context, hotstuff.Hash) (*hotstuff.Block, bool) {
	return nil, false
}
func (c04Sender) Sub([]hotstuff.ID) (core.Sender, error) { return c04Sender{}, nil }

// ---- reference ------------------------------------------------------------------------------------------------

type refState struct {
	bs    []fblock
	known []bool // block i is in the store
	lock  int    // -1 = genesis
}

func (r *refState) view(i int) int {
	if i < 0 {
		return 0
	}
	return r.bs[i].View
}
func (r *refState) have(i int) bool { return i < 0 || r.known[i] }

// extends: does block `from` (the proposal itself, not necessarily stored) have `target` on its parent chain (or is it)?
func (r *refState) extends(from, target int) bool {
	cur := from
	for r.view(cur) > r.view(target) {
		cur = r.bs[cur].Parent
		if !r.have(cur) {
			return false
		}
	}
	return cur == target
}

const none = -2

// vote and commit return the reference decisions for block i; commit also updates the lock.
func (r *refState) vote(rules string, i, viewArg int) bool {
	b := r.bs[i]
	switch rules {
	case NameChainedHotStuff:
		// the vote locks the block certified by the certified block's own certificate: a replica that knows the certified
		// block but cannot look up the block it would have to lock does not vote
		if r.have(b.QC) && b.QC >= 0 && !r.have(r.bs[b.QC].QC) {
			return false
		}
		if r.have(b.QC) && r.view(b.QC) > r.view(r.lock) {
			return true // liveness rule
		}
		return r.extends(i, r.lock) // safety rule
	case NameFastHotStuff:
		if b.Agg {
			// unhappy path: the aggregate QC must be the one of the previous view, and the block must extend its high QC
			return b.AggDV == 0 && r.have(b.QC) && r.extends(i, b.QC)
		}
		return b.View >= viewArg && b.View == r.view(b.QC)+1
	case NameSimpleHotStuff:
		if b.View < viewArg {
			return false
		}
		if !r.have(b.QC) {
			return false
		}
		if b.QC >= 0 && !r.have(r.bs[b.QC].QC) {
			return false // the block it would have to lock cannot be looked up
		}
		return r.view(b.QC) >= r.view(r.lock)
	}
	panic("rules")
}

func (r *refState) commit(rules string, i int) int {
	b := r.bs[i]
	qc := func(j int) (int, bool) { // the block certified by block j's QC; genesis certifies nothing
		if j < 0 {
			return 0, false
		}
		k := r.bs[j].QC
		return k, r.have(k)
	}
	switch rules {
	case NameChainedHotStuff:
		b1, ok := b.QC, r.have(b.QC)
		if !ok {
			return none
		}
		b2, ok := qc(b1)
		if !ok {
			return none
		}
		if r.view(b2) > r.view(r.lock) {
			r.lock = b2
		}
		b3, ok := qc(b2)
		if !ok {
			return none
		}
		if r.bs[b1].Parent == b2 && r.view(b1) == r.view(b2)+1 && r.bs[b2].Parent == b3 && r.view(b2) == r.view(b3)+1 {
			return b3
		}
		return none
	case NameFastHotStuff:
		p, ok := b.QC, r.have(b.QC)
		if !ok {
			return none
		}
		gp, ok := qc(p)
		if !ok {
			return none
		}
		if b.Parent == p && b.View == r.view(p)+1 && r.bs[p].Parent == gp && r.view(p) == r.view(gp)+1 {
			return gp
		}
		return none
	case NameSimpleHotStuff:
		p, ok := b.QC, r.have(b.QC)
		if !ok {
			return none
		}
		gp, ok := qc(p)
		if !ok {
			return none
		}
		if r.view(gp) > r.view(r.lock) {
			r.lock = gp
		}
		ggp, ok := qc(gp)
		if !ok {
			return none
		}
		if r.view(ggp)+1 == r.view(gp) && r.view(gp)+1 == r.view(p) {
			return ggp
		}
		return none
	}
	panic("rules")
}

// ---- property -------------------------------------------------------------------------------------------------

var c04cfgFast = core.NewRuntimeConfig(1, nil, core.WithAggregateQC())
var c04cfg = core.NewRuntimeConfig(1, nil)

func forestProp(c forestCase) common.Result {
	lg := logging.NewWithDest(io.Discard, "c04")
	el := eventloop.New(lg, 16)
	bc := blockchain.New(el, lg, c04Sender{})
	g := hotstuff.GetGenesis()
	k := len(c.Blocks)
	real := make([]*hotstuff.Block, k)
	get := func(i int) *hotstuff.Block {
		if i < 0 {
			return g
		}
		return real[i]
	}
	hasFork, hasGap := false, false
	children := map[int]int{}
	for i, b := range c.Blocks {
		if b.Parent >= i || b.QC >= i || b.Parent < -1 || b.QC < -1 {
			return common.Fail("harness", "malformed forest")
		}
		real[i] = hotstuff.NewBlock(get(b.Parent).Hash(), hotstuff.NewQuorumCert(nil, get(b.QC).View(), get(b.QC).Hash()),
			&clientpb.Batch{Commands: []*clientpb.Command{{ClientID: 1, SequenceNumber: uint64(i + 1)}}}, hotstuff.View(b.View), 1)
		children[b.Parent]++
		if children[b.Parent] > 1 {
			hasFork = true
		}
		pv := 0
		if b.Parent >= 0 {
			pv = c.Blocks[b.Parent].View
		}
		if b.View > pv+1 {
			hasGap = true
		}
	}
	var voteRule func(hotstuff.View, hotstuff.ProposeMsg) bool
	var commitRule func(*hotstuff.Block) *hotstuff.Block
	var lockOf func() *hotstuff.Block
	switch c.Rules {
	case NameChainedHotStuff:
		hs := NewChainedHotStuff(lg, c04cfg, bc)
		voteRule, commitRule, lockOf = hs.VoteRule, hs.CommitRule, func() *hotstuff.Block { return hs.bLock }
	case NameFastHotStuff:
		hs := NewFastHotStuff(lg, c04cfgFast, bc)
		voteRule, commitRule, lockOf = hs.VoteRule, hs.CommitRule, func() *hotstuff.Block { return nil }
	case NameSimpleHotStuff:
		hs := NewSimpleHotStuff(lg, c04cfg, bc)
		voteRule, commitRule, lockOf = hs.VoteRule, hs.CommitRule, func() *hotstuff.Block { return hs.locked }
	default:
		return common.Fail("harness", "rules %q", c.Rules)
	}
	ref := &refState{bs: c.Blocks, known: make([]bool, k), lock: -1}
	presented := make([]bool, k)
	refused, committed, lockMoved := 0, 0, 0
	var committedView hotstuff.View
	desc := func() string { return fmt.Sprintf("rules=%s blocks=%+v order=%+v", c.Rules, c.Blocks, c.Order) }
	for step, p := range c.Order {
		i := p.Blk
		if i < 0 || i >= k || presented[i] {
			continue
		}
		presented[i] = true
		if p.Kind == 1 {
			bc.Store(real[i])
			ref.known[i] = true
			continue
		}
		b := c.Blocks[i]
		viewArg := b.View + p.ViewArg
		if viewArg < 0 {
			viewArg = 0
		}
		msg := hotstuff.ProposeMsg{ID: 1, Block: real[i]}
		if b.Agg && c.Rules == NameFastHotStuff {
			av := b.View - 1 + b.AggDV
			if av < 0 {
				av = 0
			}
			agg := hotstuff.NewAggregateQC(nil, nil, hotstuff.View(av))
			msg.AggregateQC = &agg
		}
		want := ref.vote(c.Rules, i, viewArg)
		got := voteRule(hotstuff.View(viewArg), msg)
		if got != want {
			return common.Fail("vote:"+c.Rules, "step %d: VoteRule(view=%d, block %d %+v) = %v, the published rule says %v (lock: block %d of view %d; stored: %v)\n%s",
				step, viewArg, i, b, got, want, ref.lock, ref.view(ref.lock), ref.known, desc())
		}
		if !got {
			refused++
			continue
		}
		bc.Store(real[i])
		ref.known[i] = true
		oldLock := ref.lock
		wantC := ref.commit(c.Rules, i)
		gotB := commitRule(real[i])
		gotNone := gotB == nil || gotB.Hash() == g.Hash() // committing genesis again is the same as committing nothing
		wantNone := wantC == none || wantC == -1
		if gotNone != wantNone || (!gotNone && gotB.Hash() != real[wantC].Hash()) {
			gv := "none"
			if gotB != nil {
				gv = fmt.Sprintf("block of view %d", gotB.View())
			}
			wv := "none"
			if wantC != none {
				wv = fmt.Sprintf("block %d of view %d", wantC, ref.view(wantC))
			}
			return common.Fail("commit:"+c.Rules, "step %d: CommitRule(block %d %+v) = %s, the published rule says %s (stored: %v)\n%s", step, i, b, gv, wv, ref.known, desc())
		}
		if !gotNone {
			committed++
			if gotB.View() > committedView {
				// the committer's next step: the committed block moves on and the chain is pruned up to its height
				// (forked blocks are reported for aborting; no rule decision may depend on that)
				bc.PruneToHeight(gotB, gotB.View())
				committedView = gotB.View()
			}
		}
		if ref.lock != oldLock {
			lockMoved++
		}
		if l := lockOf(); l != nil && l.Hash() != get(ref.lock).Hash() {
			return common.Fail("lock:"+c.Rules, "step %d: after block %d the lock is a block of view %d, the published rule locks block %d of view %d\n%s", step, i, l.View(), ref.lock, ref.view(ref.lock), desc())
		}
	}
	var cl []string
	cl = append(cl, c.Rules)
	if committed > 0 {
		cl = append(cl, "commit")
	}
	if refused > 0 {
		cl = append(cl, "refusal")
	}
	if committed > 0 && refused > 0 {
		cl = append(cl, "commit+refusal")
	}
	if hasFork && hasGap {
		cl = append(cl, "fork+gap")
	}
	views := map[int]int{}
	for _, b := range c.Blocks {
		views[b.View]++
		if views[b.View] == 2 {
			cl = append(cl, "equal-views")
			break
		}
	}
	if lockMoved > 0 {
		cl = append(cl, "lock-moved")
	}
	return common.OK(hasFork && hasGap && (refused > 0 || committed > 0), forestKey(c), cl...)
}

func forestKey(c forestCase) string {
	var sb strings.Builder
	sb.WriteString(c.Rules[:1])
	for _, b := range c.Blocks {
		fmt.Fprintf(&sb, "|%d,%d,%d,%v,%d", b.View, b.Parent, b.QC, b.Agg, b.AggDV)
	}
	for _, p := range c.Order {
		fmt.Fprintf(&sb, ";%d,%d,%d", p.Blk, p.Kind, p.ViewArg)
	}
	return sb.String()
}

var allRules = []string{NameChainedHotStuff, NameFastHotStuff, NameSimpleHotStuff}

// ---- generators -----------------------------------------------------------------------------------------------

func genForest(rt *rapid.T) forestCase {
	c := forestCase{Rules: rapid.SampledFrom(allRules).Draw(rt, "rules")}
	maxK := 10
	if common.Tier() == "thorough" {
		maxK = 14
	}
	k := rapid.IntRange(1, maxK).Draw(rt, "k")
	viewOf := func(i int) int {
		if i < 0 {
			return 0
		}
		return c.Blocks[i].View
	}
	newest := -1
	if rapid.IntRange(0, 4).Draw(rt, "template") == 0 {
		// template "two branches from twins": a short common prefix, two blocks with the SAME view on top of it, and a
		// chain of 2..3 blocks over each of them, created in an interleaved order. Reaches lock/commit decisions that
		// involve different blocks of equal view.
		tip := -1
		for j := rapid.IntRange(0, 2).Draw(rt, "prefix"); j > 0; j-- {
			c.Blocks = append(c.Blocks, fblock{Parent: tip, QC: tip, View: viewOf(tip) + 1})
			tip = len(c.Blocks) - 1
		}
		tv := viewOf(tip) + 1 + rapid.IntRange(0, 1).Draw(rt, "tgap")
		tips := [2]int{}
		for j := 0; j < 2; j++ {
			c.Blocks = append(c.Blocks, fblock{Parent: tip, QC: tip, View: tv})
			tips[j] = len(c.Blocks) - 1
		}
		left := [2]int{rapid.IntRange(2, 3).Draw(rt, "l0"), rapid.IntRange(2, 3).Draw(rt, "l1")}
		for left[0]+left[1] > 0 {
			j := rapid.IntRange(0, 1).Draw(rt, "side")
			if left[j] == 0 {
				j = 1 - j
			}
			left[j]--
			v := viewOf(tips[j]) + 1
			if rapid.IntRange(0, 5).Draw(rt, "bgap") == 0 {
				v++
			}
			c.Blocks = append(c.Blocks, fblock{Parent: tips[j], QC: tips[j], View: v})
			tips[j] = len(c.Blocks) - 1
		}
		k = len(c.Blocks)
	}
	for i := len(c.Blocks); i < k; i++ {
		var b fblock
		move := rapid.IntRange(0, 19).Draw(rt, "move")
		if move < 12 {
			// extend the newest block with the next view, certifying the parent
			b = fblock{Parent: newest, QC: newest, View: viewOf(newest) + 1}
		} else if move < 15 && i > 0 {
			// equivocation: a sibling of an existing block with the same parent, certificate and view
			x := c.Blocks[rapid.IntRange(0, i-1).Draw(rt, "twin")]
			b = fblock{Parent: x.Parent, QC: x.QC, View: x.View}
		} else if move < 17 && i > 0 {
			// extend some older block directly (a competing branch that can reach the same views)
			x := rapid.IntRange(0, i-1).Draw(rt, "tip")
			b = fblock{Parent: x, QC: x, View: viewOf(x) + 1}
		} else {
			b.Parent = rapid.IntRange(-1, i-1).Draw(rt, "parent")
			b.QC = b.Parent
			if rapid.Bool().Draw(rt, "qcdiff") {
				b.QC = rapid.IntRange(-1, i-1).Draw(rt, "qc")
			}
			base := viewOf(b.Parent)
			if v := viewOf(b.QC); v > base {
				base = v
			}
			b.View = base + 1 + rapid.SampledFrom([]int{0, 0, 1, 2}).Draw(rt, "gap")
		}
		if c.Rules == NameFastHotStuff {
			b.Agg = rapid.IntRange(0, 9).Draw(rt, "agg") < 3
			if b.Agg {
				b.AggDV = rapid.SampledFrom([]int{0, 0, 0, 0, -1, -3, 1}).Draw(rt, "aggdv")
				if b.View-1+b.AggDV < 0 {
					b.AggDV = 0
				}
			}
		}
		c.Blocks = append(c.Blocks, b)
		if newest < 0 || b.View > viewOf(newest) {
			newest = i
		}
	}
	ids := make([]int, k)
	for i := range ids {
		ids[i] = i
	}
	if rapid.IntRange(0, 9).Draw(rt, "inorder") >= 7 {
		ids = rapid.Permutation(ids).Draw(rt, "perm")
	}
	for _, i := range ids {
		kind := rapid.SampledFrom([]int{0, 0, 0, 0, 0, 0, 0, 1, 2}).Draw(rt, "kind")
		if kind == 2 {
			continue // this block stays missing
		}
		va := rapid.SampledFrom([]int{0, 0, 0, 0, -1, 1}).Draw(rt, "viewarg")
		c.Order = append(c.Order, pres{Blk: i, Kind: kind, ViewArg: va})
	}
	return c
}

func TestC04RandomForests(t *testing.T) {
	common.Check(t, c04, "TestC04RandomForests", 6000, 300000, genForest, forestProp)
}

// TestC04SmallForests enumerates every forest of up to K blocks over views 1..V (views growing along parent and QC links),
// every presentation order, for the three rulesets.
func TestC04SmallForests(t *testing.T) {
	K, V := 3, 4
	if common.Tier() == "thorough" {
		K, V = 4, 5
	}
	common.Get(c04).Note("TestC04SmallForests", map[string]any{"max_blocks": K, "max_view": V})
	common.Exhaustive(t, c04, "TestC04SmallForests", func(yield func(forestCase) bool) {
		for _, rules := range allRules {
			for k := 1; k <= K; k++ {
				blocks := make([]fblock, k)
				var rec func(i int) bool
				perms := permutations(k)
				rec = func(i int) bool {
					if i == k {
						for _, perm := range perms {
							c := forestCase{Rules: rules, Blocks: append([]fblock(nil), blocks...)}
							for _, b := range perm {
								c.Order = append(c.Order, pres{Blk: b})
							}
							if !yield(c) {
								return false
							}
						}
						return true
					}
					for parent := -1; parent < i; parent++ {
						for qc := -1; qc < i; qc++ {
							lo := 0
							if parent >= 0 {
								lo = blocks[parent].View
							}
							if qc >= 0 && blocks[qc].View > lo {
								lo = blocks[qc].View
							}
							for v := lo + 1; v <= V; v++ {
								blocks[i] = fblock{View: v, Parent: parent, QC: qc}
								if !rec(i + 1) {
									return false
								}
							}
						}
					}
					return true
				}
				if !rec(0) {
					return
				}
			}
		}
	}, forestProp)
}

func permutations(k int) [][]int {
	var out [][]int
	idx := make([]int, k)
	for i := range idx {
		idx[i] = i
	}
	var rec func(n int)
	rec = func(n int) {
		if n == 1 {
			out = append(out, append([]int(nil), idx...))
			return
		}
		for i := 0; i < n; i++ {
			rec(n - 1)
			if n%2 == 0 {
				idx[i], idx[n-1] = idx[n-1], idx[i]
			} else {
				idx[0], idx[n-1] = idx[n-1], idx[0]
			}
		}
	}
	rec(k)
	sort.Slice(out, func(a, b int) bool { return fmt.Sprint(out[a]) < fmt.Sprint(out[b]) })
	return out
}
