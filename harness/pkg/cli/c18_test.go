package cli

// C18 (command-line part) — `hotstuff twins generate` writes exactly the scenarios the generator announces, and
// `hotstuff twins run` executes exactly those. Injected as internal/cli/zz_verif_c18_test.go (the command functions and
// their flag variables are unexported).

import (
	"encoding/json"
	"fmt"
	"io"
	"log"
	"os"
	"path/filepath"
	"sort"
	"testing"

	"github.com/relab/hotstuff/core/logging"
	"github.com/relab/hotstuff/twins"
	"github.com/relab/hotstuff/verifx/common"
	"pgregory.net/rapid"
)

const c18 = "C18"

type cliCase struct {
	Replicas, Twins, Partitions, Views uint8
	PerFile                            uint64 // 0 = one file
	Shuffle                            bool
	Seed                               int64
	Run                                bool // `twins run --log-all` (executes every scenario) instead of `twins generate`
	Workers                            uint `json:",omitempty"` // run: --concurrency (0 here means 1)
	FromFile                           bool `json:",omitempty"` // run: the scenarios are first written by `twins generate` and then read back with --input
	Extra                              int  `json:",omitempty"` // run from a file: --scenarios = announced + Extra (more than the file holds)
}

func (c cliCase) String() string {
	cmd := "generate"
	if c.Run {
		cmd = fmt.Sprintf("run --log-all --ticks 10 --concurrency %d", max(c.Workers, 1))
		if c.FromFile {
			cmd += fmt.Sprintf(" --input <file written by generate> --scenarios announced+%d", c.Extra)
		}
	}
	s := fmt.Sprintf("twins %s --replicas %d --twins %d --partitions %d --views %d", cmd, c.Replicas, c.Twins, c.Partitions, c.Views)
	if c.PerFile > 0 {
		s += fmt.Sprintf(" --scenarios-per-file %d", c.PerFile)
	}
	if c.Shuffle {
		s += fmt.Sprintf(" --shuffle --seed %d", c.Seed)
	}
	return s
}

func guarded(f func()) (p string) {
	defer func() {
		if r := recover(); r != nil {
			p = fmt.Sprint(r)
		}
	}()
	f()
	return ""
}

// canon renders a scenario with sorted members (NodeSet marshals its members sorted).
func canon(s twins.Scenario) string {
	b, _ := json.Marshal(s)
	return string(b)
}

func cliProp(c cliCase) common.Result {
	dir, err := os.MkdirTemp("", "c18cli")
	if err != nil {
		panic(err)
	}
	defer os.RemoveAll(dir)
	// the announced number, asked from a generator of its own
	var announced int64
	if p := guarded(func() {
		announced = twins.NewGenerator(logging.NewWithDest(io.Discard, "c18"), twins.Settings{NumNodes: c.Replicas, NumTwins: c.Twins, Partitions: c.Partitions, Views: c.Views}).Remaining()
	}); p != "" {
		return common.Fail("newgenerator-panics", "%v: NewGenerator panics: %s", c, p)
	}
	numReplicas, numTwins, numPartitions, numViews = c.Replicas, c.Twins, c.Partitions, c.Views
	numScenarios, numScenariosPerFile, numTicks = 0, c.PerFile, 10
	shuffle, randSeed = c.Shuffle, c.Seed
	twinsSrc, twinsConsensus, logAll, concurrency = "", "chainedhotstuff", true, max(c.Workers, 1)
	if c.Run && c.FromFile {
		// write the scenarios with `twins generate` first, then run them from that file
		twinsDest = filepath.Join(dir, "in.json")
		concurrency = 1
		perFile := numScenariosPerFile
		numScenariosPerFile = 0
		if p := guarded(twinsGenerate); p != "" {
			return common.Fail("cli-panics", "%v: generate panics: %s", c, p)
		}
		numScenariosPerFile = perFile
		twinsSrc = twinsDest
		concurrency = max(c.Workers, 1)
		numScenarios = uint64(announced) + uint64(c.Extra)
		if c.Extra == 0 {
			numScenarios = 0
		}
	}
	twinsDest = filepath.Join(dir, "out.json")
	if c.PerFile > 0 {
		twinsDest = filepath.Join(dir, "out")
	}
	if p := guarded(func() {
		if c.Run {
			twinsRun()
		} else {
			twinsGenerate()
		}
	}); p != "" {
		fp := "cli-panics"
		if announced == 0 && c.Shuffle {
			fp = "shuffle-panics-on-empty-generator"
		}
		return common.Fail(fp, "%v (%d scenarios announced) panics: %s", c, announced, p)
	}
	var files []string
	if c.PerFile == 0 {
		files = []string{twinsDest}
	} else {
		for i := 0; ; i++ {
			f := filepath.Join(twinsDest, fmt.Sprintf("%d.json", i))
			if _, err := os.Stat(f); err != nil {
				break
			}
			files = append(files, f)
		}
		if entries, _ := os.ReadDir(twinsDest); len(entries) != len(files) {
			return common.Fail("cli-files", "%v: %d directory entries, %d consecutively numbered files", c, len(entries), len(files))
		}
	}
	seen := map[string]int{}
	total := int64(0)
	for fi, f := range files {
		fh, err := os.Open(f)
		if err != nil {
			return common.Fail("cli-files", "%v: cannot open the output %s: %v", c, filepath.Base(f), err)
		}
		src, err := twins.FromJSON(fh)
		fh.Close()
		if err != nil {
			b, _ := os.ReadFile(f)
			return common.Fail("cli-file-unreadable", "%v: FromJSON cannot read %s: %v\n%.500s", c, filepath.Base(f), err, b)
		}
		st := src.Settings()
		if st.NumNodes != c.Replicas || st.NumTwins != c.Twins || st.Partitions != c.Partitions || st.Views != c.Views || st.Ticks != 10 ||
			st.Shuffle != c.Shuffle || (c.Shuffle && st.Seed != c.Seed) {
			return common.Fail("cli-settings", "%v: settings in %s are %+v", c, filepath.Base(f), st)
		}
		n := src.Remaining()
		if c.PerFile > 0 && fi < len(files)-1 && uint64(n) != c.PerFile {
			return common.Fail("cli-files", "%v: file %s holds %d scenarios", c, filepath.Base(f), n)
		}
		if c.PerFile > 0 && (n == 0 || uint64(n) > c.PerFile) {
			return common.Fail("cli-files", "%v: file %s holds %d scenarios", c, filepath.Base(f), n)
		}
		for i := int64(0); i < n; i++ {
			s, err := src.NextScenario()
			if err != nil {
				return common.Fail("cli-file-unreadable", "%v: scenario %d of %s: %v", c, i, filepath.Base(f), err)
			}
			if len(s) != int(c.Views) {
				return common.Fail("cli-scenario", "%v: a written scenario has %d views", c, len(s))
			}
			k := canon(s)
			if seen[k]++; seen[k] > 1 {
				return common.Fail("generator-repeats", "%v: scenario written twice: %s", c, k)
			}
			total++
		}
	}
	if total != announced {
		fp := "cli-count"
		if total == announced-1 {
			fp = "generator-loses-last-scenario"
		}
		if c.Run && total < announced && (c.Workers > 1 || c.FromFile) {
			fp = "run-executes-fewer-than-announced"
		}
		what := "written"
		if c.Run {
			what = "executed and logged"
		}
		return common.Fail(fp, "%v: the generator announces %d scenarios, %d were %s (%d files)", c, announced, total, what, len(files))
	}
	cl := []string{"generate"}
	if c.Run {
		cl = []string{"run"}
	}
	if c.PerFile > 0 {
		cl = append(cl, "directory-output")
		if len(files) > 1 {
			cl = append(cl, "several-files")
		}
	}
	if c.Shuffle {
		cl = append(cl, "shuffled")
	}
	if announced == 0 {
		cl = append(cl, "announces-0")
	}
	var _ = sort.Strings
	return common.OK(c.Twins >= 1 && c.Partitions >= 2 && announced > 1, "", cl...)
}

// TestC18CLI drives the generate / run commands over small settings of the box.
func TestC18CLI(t *testing.T) {
	log.SetOutput(io.Discard)
	logging.SetLogLevel("error")
	stderr := os.Stderr
	if devnull, err := os.OpenFile(os.DevNull, os.O_WRONLY, 0); err == nil {
		os.Stderr = devnull // the commands print the announced count through a stderr logger
		defer func() { os.Stderr = stderr }()
	}
	common.Check(t, c18, "TestC18CLI", 160, 3000, func(rt *rapid.T) cliCase {
		n := rapid.IntRange(1, 5).Draw(rt, "replicas")
		c := cliCase{
			Replicas:   uint8(n),
			Twins:      uint8(rapid.IntRange(0, min(2, n)).Draw(rt, "twins")),
			Partitions: uint8(rapid.IntRange(1, 3).Draw(rt, "partitions")),
			Views:      uint8(rapid.IntRange(1, 2).Draw(rt, "views")),
			Run:        rapid.IntRange(0, 3).Draw(rt, "run") == 0,
		}
		if c.Run {
			c.Views = 1 // every scenario is executed: keep the count at <= 261
			c.Workers = rapid.SampledFrom([]uint{1, 1, 2, 3, 5, 8}).Draw(rt, "workers")
			if rapid.IntRange(0, 2).Draw(rt, "from-file") == 0 {
				c.FromFile = true
				c.Extra = rapid.SampledFrom([]int{0, 0, 1, 3}).Draw(rt, "extra")
			}
		}
		if rapid.Bool().Draw(rt, "dir") {
			c.PerFile = uint64(rapid.IntRange(1, 40).Draw(rt, "perfile"))
		}
		if rapid.Bool().Draw(rt, "shuffle") {
			c.Shuffle = true
			c.Seed = rapid.Int64().Draw(rt, "seed")
		}
		return c
	}, cliProp)
}
