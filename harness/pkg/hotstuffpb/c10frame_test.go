package hotstuffpb_test

// C10 at the transport's decoding step: every frame on a replica-to-replica stream is decoded by the codec that this
// package registers with gRPC (content subtype "gorums") before any handler of the repository sees it. A frame is a
// length-prefixed metadata message (message id, METHOD NAME chosen by the peer) followed by a length-prefixed payload.
// Generated: method names drawn from every descriptor name the process knows (methods, but also messages, services,
// fields, enums of all registered files), mutations of them and arbitrary strings; payloads that are valid encodings of
// the repository's messages, arbitrary bytes, or truncated; frames cut at any length. Oracle: decoding returns (an error
// or a message), it does not panic - a panic here is in gRPC's receive goroutine and ends the process.

import (
	"fmt"
	"runtime/debug"
	"sort"
	"strings"
	"sync"
	"testing"

	"github.com/relab/gorums"
	"github.com/relab/gorums/ordering"
	"github.com/relab/hotstuff/internal/proto/hotstuffpb"
	"github.com/relab/hotstuff/verifx/common"
	"google.golang.org/grpc/encoding"
	"google.golang.org/protobuf/encoding/protowire"
	"google.golang.org/protobuf/proto"
	"google.golang.org/protobuf/reflect/protoreflect"
	"google.golang.org/protobuf/reflect/protoregistry"
	"pgregory.net/rapid"
)

// knownCodec is the fingerprint of the open finding in the pinned transport library.
const knownCodec = "gorums-codec-panics-on-non-method-name"

type frameCase struct {
	Method  string
	MsgID   uint64
	Payload []byte
	Cut     int // > 0: the frame is cut to that many bytes
}

var (
	namesOnce sync.Once
	allNames  []string // every descriptor name of the registered files
	methods   map[string]bool
)

func descriptorNames() []string {
	namesOnce.Do(func() {
		methods = map[string]bool{}
		seen := map[string]bool{}
		add := func(d protoreflect.Descriptor) { seen[string(d.FullName())] = true }
		var walkMsgs func(ms protoreflect.MessageDescriptors)
		walkMsgs = func(ms protoreflect.MessageDescriptors) {
			for i := 0; i < ms.Len(); i++ {
				m := ms.Get(i)
				add(m)
				for j := 0; j < m.Fields().Len(); j++ {
					add(m.Fields().Get(j))
				}
				for j := 0; j < m.Oneofs().Len(); j++ {
					add(m.Oneofs().Get(j))
				}
				for j := 0; j < m.Enums().Len(); j++ {
					add(m.Enums().Get(j))
				}
				walkMsgs(m.Messages())
			}
		}
		protoregistry.GlobalFiles.RangeFiles(func(f protoreflect.FileDescriptor) bool {
			walkMsgs(f.Messages())
			for i := 0; i < f.Enums().Len(); i++ {
				e := f.Enums().Get(i)
				add(e)
				for j := 0; j < e.Values().Len(); j++ {
					add(e.Values().Get(j))
				}
			}
			for i := 0; i < f.Services().Len(); i++ {
				s := f.Services().Get(i)
				add(s)
				for j := 0; j < s.Methods().Len(); j++ {
					add(s.Methods().Get(j))
					methods[string(s.Methods().Get(j).FullName())] = true
				}
			}
			for i := 0; i < f.Extensions().Len(); i++ {
				add(f.Extensions().Get(i))
			}
			return true
		})
		for n := range seen {
			allNames = append(allNames, n)
		}
		sort.Strings(allNames)
	})
	return allNames
}

func frameProp(c frameCase) common.Result {
	descriptorNames()
	codec := encoding.GetCodec(gorums.ContentSubtype)
	if codec == nil {
		return common.Fail("harness", "no codec registered for %q", gorums.ContentSubtype)
	}
	md, err := proto.Marshal(ordering.Metadata_builder{MessageID: c.MsgID, Method: c.Method}.Build())
	if err != nil {
		return common.OK(false, "", "frame metadata-not-encodable")
	}
	frame := protowire.AppendBytes(nil, md)
	frame = protowire.AppendBytes(frame, c.Payload)
	if c.Cut > 0 && c.Cut < len(frame) {
		frame = frame[:c.Cut]
	}
	var panicMsg, stack string
	var derr error
	func() {
		defer func() {
			if r := recover(); r != nil {
				panicMsg, stack = fmt.Sprint(r), string(debug.Stack())
			}
		}()
		derr = codec.Unmarshal(frame, gorums.NewResponseMessage(&ordering.Metadata{}, nil))
	}()
	kind := "unknown-name"
	switch {
	case methods[c.Method]:
		kind = "method"
	case sort.SearchStrings(allNames, c.Method) < len(allNames) && allNames[sort.SearchStrings(allNames, c.Method)] == c.Method:
		kind = "non-method-descriptor"
	}
	if panicMsg != "" {
		desc := fmt.Sprintf("frame with Method=%q (%s), message id %d, payload %d bytes, cut=%d", c.Method, kind, c.MsgID, len(c.Payload), c.Cut)
		if kind == "non-method-descriptor" && strings.Contains(panicMsg, "interface conversion") && strings.Contains(stack, "gorums.Codec.gorumsUnmarshal") {
			return common.Fail(knownCodec, "decoding a peer's frame panicked in the transport library: %s\n%s", panicMsg, desc)
		}
		return common.Fail("panic:frame:"+common.TopRepoFrame(stack), "decoding a peer's frame panicked: %s\n%s\n%s", panicMsg, desc, stack)
	}
	verdict := "decoded"
	if derr != nil {
		verdict = "error"
	}
	return common.OK(kind != "unknown-name", "", "frame "+kind, "frame "+verdict)
}

func genFrame(rt *rapid.T) frameCase {
	names := descriptorNames()
	c := frameCase{MsgID: rapid.Uint64().Draw(rt, "id")}
	switch rapid.IntRange(0, 5).Draw(rt, "name") {
	case 0, 1:
		c.Method = rapid.SampledFrom(names).Draw(rt, "descriptor")
	case 2:
		var ms []string
		for _, n := range names {
			if methods[n] {
				ms = append(ms, n)
			}
		}
		c.Method = rapid.SampledFrom(ms).Draw(rt, "method")
	case 3:
		n := rapid.SampledFrom(names).Draw(rt, "base")
		switch rapid.IntRange(0, 3).Draw(rt, "mut") {
		case 0:
			c.Method = n + "."
		case 1:
			c.Method = "." + n
		case 2:
			if i := strings.LastIndex(n, "."); i > 0 {
				c.Method = n[:i]
			}
		default:
			c.Method = strings.ToUpper(n)
		}
	case 4:
		c.Method = rapid.String().Draw(rt, "any")
	default:
		c.Method = ""
	}
	switch rapid.IntRange(0, 3).Draw(rt, "payload") {
	case 0:
		c.Payload = rapid.SliceOfN(rapid.Byte(), 0, 64).Draw(rt, "bytes")
	case 1:
		b, _ := proto.Marshal(&hotstuffpb.BlockHash{Hash: rapid.SliceOfN(rapid.Byte(), 0, 40).Draw(rt, "hash")})
		c.Payload = b
	case 2:
		b, _ := proto.Marshal(&hotstuffpb.TimeoutMsg{View: rapid.Uint64().Draw(rt, "view"), SyncInfo: &hotstuffpb.SyncInfo{QC: &hotstuffpb.QuorumCert{View: 1, Hash: []byte{1}}}})
		c.Payload = b
	}
	if rapid.IntRange(0, 4).Draw(rt, "cut") == 0 {
		c.Cut = rapid.IntRange(1, 80).Draw(rt, "cutat")
	}
	return c
}

func TestC10Frames(t *testing.T) {
	common.Check(t, "C10", "TestC10Frames", 4000, 200000, genFrame, frameProp)
}
