// Package common is the shared evidence / replay / known-findings layer of the /verif harness.
// It is compiled into the relab/hotstuff module through a build overlay (it does not exist in /repo).
//
// A property check is written as a pure function prop(case) Result over a serialisable case type plus a
// rapid generator for that type (or an enumerator). Check / Exhaustive drive it, count what was generated,
// and on a failing case write the *concrete case* as a replay file before failing the test, so the file
// left on disk after rapid's shrinking is the minimal case.
package common

import (
	"encoding/json"
	"flag"
	"fmt"
	"hash/fnv"
	"os"
	"path/filepath"
	"runtime"
	"runtime/debug"
	"sort"
	"strconv"
	"strings"
	"sync"
	"testing"
	"time"

	"pgregory.net/rapid"
)

// Result is what a property function reports about one case.
type Result struct {
	Err         string   // non-empty: the property is violated on this case
	Fingerprint string   // root-cause class of the violation (matched against known_findings.json)
	NonTrivial  bool     // the case is non-trivial by the check's stated rule
	Key         string   // canonical description used for distinctness; "" = JSON of the case
	Classes     []string // labels for the class histogram
}

// OK builds a passing result.
func OK(nontrivial bool, key string, classes ...string) Result {
	return Result{NonTrivial: nontrivial, Key: key, Classes: classes}
}

// Fail builds a failing result.
func Fail(fingerprint, format string, args ...any) Result {
	return Result{Err: fmt.Sprintf(format, args...), Fingerprint: fingerprint, NonTrivial: true}
}

type violation struct {
	Test        string `json:"test"`
	Fingerprint string `json:"fingerprint"`
	Error       string `json:"error"`
	Replay      string `json:"replay"`
}

type fragment struct {
	Property       string                     `json:"property"`
	Shard          int                        `json:"shard"`
	Seed           uint64                     `json:"seed"`
	Evaluations    int64                      `json:"evaluations"`
	NonTrivial     int64                      `json:"nontrivial_evaluations"`
	Distinct       []uint64                   `json:"distinct_nontrivial_hashes"`
	DistinctBulk   int64                      `json:"distinct_by_construction"`
	Classes        map[string]int64           `json:"classes"`
	Samples        []json.RawMessage          `json:"samples"`
	Violations     []violation                `json:"violations"`
	Known          map[string]int64           `json:"known_hits"`
	Tests          map[string]map[string]any  `json:"tests"`
	Exhaustive     map[string]bool            `json:"exhaustive"`
	Inconclusive   []string                   `json:"inconclusive"`
	WallS          float64                    `json:"wall_s"`
}

// Ev accumulates evidence for one property inside one test process.
type Ev struct {
	mu       sync.Mutex
	id       string
	start    time.Time
	frag     fragment
	distinct map[uint64]struct{}
	sampleBy map[string]int // samples kept per test
	known    map[string]bool
}

var (
	evMu sync.Mutex
	evs  = map[string]*Ev{}
)

// Tier returns "quick" or "thorough".
func Tier() string {
	if os.Getenv("VERIF_TIER") == "thorough" {
		return "thorough"
	}
	return "quick"
}

// Shards returns the number of parallel processes this run is split into, and this process's index.
func Shards() (n, k int) {
	n, _ = strconv.Atoi(os.Getenv("VERIF_SHARDS"))
	k, _ = strconv.Atoi(os.Getenv("VERIF_SHARD"))
	if n < 1 {
		n = 1
	}
	if k < 0 || k >= n {
		k = 0
	}
	return
}

// Seed is the per-process seed derived by the driver from VERIF_SEED and the shard index (never 0).
func Seed() uint64 {
	s, _ := strconv.ParseUint(os.Getenv("VERIF_PROC_SEED"), 10, 64)
	if s == 0 {
		s = 0x9E3779B97F4A7C15
	}
	return s
}

// N picks the case count for the current tier and divides it over the shards.
func N(quick, thorough int) int {
	n := quick
	if Tier() == "thorough" {
		n = thorough
	}
	if f, err := strconv.ParseFloat(os.Getenv("VERIF_SCALE"), 64); err == nil && f > 0 {
		n = int(float64(n) * f)
	}
	s, _ := Shards()
	n = (n + s - 1) / s
	if n < 1 {
		n = 1
	}
	return n
}

// Get returns the evidence collector of a property.
func Get(id string) *Ev {
	evMu.Lock()
	defer evMu.Unlock()
	if e, ok := evs[id]; ok {
		return e
	}
	_, k := Shards()
	e := &Ev{id: id, start: time.Now(), distinct: map[uint64]struct{}{}, sampleBy: map[string]int{}, known: map[string]bool{}}
	e.frag = fragment{Property: id, Shard: k, Seed: Seed(), Classes: map[string]int64{}, Known: map[string]int64{},
		Tests: map[string]map[string]any{}, Exhaustive: map[string]bool{}}
	e.loadKnown()
	evs[id] = e
	return e
}

type knownEntry struct {
	Property    string `json:"property"`
	Status      string `json:"status"`
	Fingerprint string `json:"fingerprint"`
}

func (e *Ev) loadKnown() {
	p := os.Getenv("VERIF_KNOWN")
	if p == "" {
		return
	}
	b, err := os.ReadFile(p)
	if err != nil {
		return
	}
	var list []knownEntry
	if json.Unmarshal(b, &list) != nil {
		return
	}
	for _, k := range list {
		if k.Property == e.id && k.Status == "open" {
			e.known[k.Fingerprint] = true
		}
	}
}

// IsKnown reports whether a fingerprint is listed as an open finding for this property.
func (e *Ev) IsKnown(fp string) bool { return e.known[fp] }

func hash64(s string) uint64 {
	h := fnv.New64a()
	_, _ = h.Write([]byte(s))
	return h.Sum64()
}

const samplesPerTest = 3

// Record counts one evaluated case.
func (e *Ev) Record(test string, res Result, c any) {
	e.mu.Lock()
	defer e.mu.Unlock()
	e.frag.Evaluations++
	for _, cl := range res.Classes {
		e.frag.Classes[test+":"+cl]++
	}
	if !res.NonTrivial {
		return
	}
	e.frag.NonTrivial++
	key := res.Key
	var js []byte
	if key == "" {
		js, _ = json.Marshal(c)
		key = string(js)
	}
	h := hash64(test + "|" + key)
	if _, ok := e.distinct[h]; ok {
		return
	}
	e.distinct[h] = struct{}{}
	if e.sampleBy[test] < samplesPerTest && c != nil {
		if js == nil {
			js, _ = json.Marshal(c)
		}
		if len(js) > 6000 {
			js, _ = json.Marshal(map[string]any{"truncated_case": string(js[:6000])})
		}
		s, _ := json.Marshal(map[string]any{"test": test, "case": json.RawMessage(js)})
		e.frag.Samples = append(e.frag.Samples, s)
		e.sampleBy[test]++
	}
}

// Bulk counts n cases that are distinct by construction (an enumeration that visits each element once) without
// keeping a hash per case. Used for very large exhaustive ranges.
func (e *Ev) Bulk(test string, n int64, class string) {
	e.mu.Lock()
	defer e.mu.Unlock()
	e.frag.Evaluations += n
	e.frag.NonTrivial += n
	e.frag.DistinctBulk += n
	if class != "" {
		e.frag.Classes[test+":"+class] += n
	}
}

// Note attaches per-test facts (requested / completed counts, bounds) to the evidence.
func (e *Ev) Note(test string, kv map[string]any) {
	e.mu.Lock()
	defer e.mu.Unlock()
	m := e.frag.Tests[test]
	if m == nil {
		m = map[string]any{}
		e.frag.Tests[test] = m
	}
	for k, v := range kv {
		m[k] = v
	}
}

// SetExhaustive overrides the "this enumeration covered its whole domain" flag of a test (e.g. when only a prefix was enumerated).
func (e *Ev) SetExhaustive(test string, v bool) {
	e.mu.Lock()
	defer e.mu.Unlock()
	e.frag.Exhaustive[test] = v
}

// Inconclusive records that a guard (time, size) stopped part of the exploration; never a violation.
func (e *Ev) Inconclusive(what string) {
	e.mu.Lock()
	defer e.mu.Unlock()
	if len(e.frag.Inconclusive) < 50 {
		e.frag.Inconclusive = append(e.frag.Inconclusive, what)
	}
}

// Flush (re)writes this process's evidence fragment.
func (e *Ev) Flush() {
	e.mu.Lock()
	defer e.mu.Unlock()
	dir := os.Getenv("VERIF_FRAG_DIR")
	if dir == "" {
		return
	}
	e.frag.Distinct = e.frag.Distinct[:0]
	for h := range e.distinct {
		e.frag.Distinct = append(e.frag.Distinct, h)
	}
	sort.Slice(e.frag.Distinct, func(i, j int) bool { return e.frag.Distinct[i] < e.frag.Distinct[j] })
	e.frag.WallS = time.Since(e.start).Seconds()
	b, _ := json.Marshal(&e.frag)
	unit := os.Getenv("VERIF_UNIT")
	_ = os.MkdirAll(dir, 0o755)
	_ = os.WriteFile(filepath.Join(dir, fmt.Sprintf("%s-%s-%d.json", e.id, unit, e.frag.Shard)), b, 0o644)
}

type replayFile struct {
	Property    string          `json:"property"`
	Test        string          `json:"test"`
	Fingerprint string          `json:"fingerprint"`
	Error       string          `json:"error"`
	Seed        uint64          `json:"seed"`
	Case        json.RawMessage `json:"case"`
}

func sanitize(s string) string {
	var b strings.Builder
	for _, r := range s {
		switch {
		case r >= 'a' && r <= 'z', r >= 'A' && r <= 'Z', r >= '0' && r <= '9', r == '-', r == '_', r == '.':
			b.WriteRune(r)
		default:
			b.WriteByte('_')
		}
	}
	if b.Len() > 80 {
		return b.String()[:80]
	}
	return b.String()
}

// reportViolation writes the replay file (overwriting the previous one of the same test in this process, so that
// after shrinking the minimal case remains) and remembers the violation in the fragment.
func (e *Ev) reportViolation(test string, res Result, c any) string {
	dir := os.Getenv("VERIF_REPLAY_DIR")
	if dir == "" {
		dir = os.TempDir()
	}
	dir = filepath.Join(dir, e.id)
	_ = os.MkdirAll(dir, 0o755)
	js, _ := json.Marshal(c)
	rf := replayFile{Property: e.id, Test: test, Fingerprint: res.Fingerprint, Error: res.Err, Seed: Seed(), Case: js}
	b, _ := json.MarshalIndent(&rf, "", " ")
	_, k := Shards()
	path := filepath.Join(dir, fmt.Sprintf("%s-%s-s%d.json", sanitize(test), os.Getenv("VERIF_UNIT"), k))
	_ = os.WriteFile(path, b, 0o644)
	e.mu.Lock()
	found := false
	for i := range e.frag.Violations {
		if e.frag.Violations[i].Test == test {
			e.frag.Violations[i] = violation{test, res.Fingerprint, res.Err, path}
			found = true
		}
	}
	if !found {
		e.frag.Violations = append(e.frag.Violations, violation{test, res.Fingerprint, res.Err, path})
	}
	e.mu.Unlock()
	e.Flush()
	return path
}

func (e *Ev) knownHit(fp string) {
	e.mu.Lock()
	e.frag.Known[fp]++
	e.mu.Unlock()
}

// Safe evaluates prop, turning a panic into a failing result (fingerprint "panic:<top repository frame>").
func Safe[C any](prop func(C) Result, c C) (res Result) {
	defer func() {
		if r := recover(); r != nil {
			st := string(debug.Stack())
			res = Result{Err: fmt.Sprintf("panic: %v\n%s", r, trimStack(st)), Fingerprint: "panic:" + TopRepoFrame(st), NonTrivial: true}
		}
	}()
	return prop(c)
}

func trimStack(st string) string {
	lines := strings.Split(st, "\n")
	if len(lines) > 40 {
		lines = lines[:40]
	}
	return strings.Join(lines, "\n")
}

// TopRepoFrame returns the first function of the relab/hotstuff module (outside the harness) in a stack dump.
func TopRepoFrame(stack string) string {
	for _, l := range strings.Split(stack, "\n") {
		l = strings.TrimSpace(l)
		if !strings.HasPrefix(l, "github.com/relab/hotstuff") {
			continue
		}
		if strings.Contains(l, "/verifx/") || strings.Contains(l, "zzVerif") || strings.Contains(l, "ZZVerif") {
			continue
		}
		if i := strings.LastIndex(l, "("); i > 0 {
			l = l[:i]
		}
		return strings.TrimPrefix(l, "github.com/relab/hotstuff")
	}
	return "unknown"
}

// ReplayRequested returns the replay file content if this process was started in replay mode.
func replayRequested() *replayFile {
	p := os.Getenv("VERIF_REPLAY")
	if p == "" {
		return nil
	}
	b, err := os.ReadFile(p)
	if err != nil {
		fmt.Fprintf(os.Stderr, "cannot read replay file: %v\n", err)
		os.Exit(2)
	}
	var rf replayFile
	if err := json.Unmarshal(b, &rf); err != nil {
		fmt.Fprintf(os.Stderr, "cannot parse replay file: %v\n", err)
		os.Exit(2)
	}
	return &rf
}

// Replay handles replay mode for a test: returns true if the caller must not generate cases.
func Replay[C any](t *testing.T, id, test string, prop func(C) Result) bool {
	rf := replayRequested()
	if rf == nil {
		return false
	}
	if rf.Test != test || rf.Property != id {
		t.Skip("replay mode: another test")
		return true
	}
	var c C
	if err := json.Unmarshal(rf.Case, &c); err != nil {
		fmt.Fprintf(os.Stderr, "cannot decode case: %v\n", err)
		os.Exit(2)
	}
	res := Safe(prop, c)
	if res.Err != "" {
		fmt.Printf("REPLAY-VIOLATION property=%s test=%s fingerprint=%s\n%s\n", id, test, res.Fingerprint, res.Err)
		t.Fatalf("replayed case violates %s: %s", id, res.Err)
	}
	fmt.Printf("REPLAY-OK property=%s test=%s: the case no longer violates the property\n", id, test)
	return true
}

func setRapid(checks int) {
	_ = flag.Set("rapid.checks", strconv.Itoa(checks))
	_ = flag.Set("rapid.nofailfile", "true")
	if f := flag.Lookup("rapid.seed"); f != nil && (f.Value.String() == "0" || f.Value.String() == "") {
		_ = flag.Set("rapid.seed", strconv.FormatUint(Seed(), 10))
	}
	if os.Getenv("VERIF_SHRINKTIME") != "" {
		_ = flag.Set("rapid.shrinktime", os.Getenv("VERIF_SHRINKTIME"))
	}
}

// Check drives prop with rapid-generated cases. quick/thorough are total case counts over all shards.
func Check[C any](t *testing.T, id, test string, quick, thorough int, gen func(*rapid.T) C, prop func(C) Result) {
	t.Helper()
	e := Get(id)
	t.Cleanup(e.Flush)
	if Replay(t, id, test, prop) {
		return
	}
	n := N(quick, thorough)
	setRapid(n)
	completed := 0
	e.Note(test, map[string]any{"rapid_checks_requested": n, "generator": "rapid"})
	rapid.Check(t, func(rt *rapid.T) {
		c := gen(rt)
		res := Safe(prop, c)
		e.Record(test, res, c)
		completed++
		if res.Err == "" {
			return
		}
		if e.IsKnown(res.Fingerprint) {
			e.knownHit(res.Fingerprint)
			return
		}
		path := e.reportViolation(test, res, c)
		rt.Fatalf("VIOLATION-CASE property=%s test=%s fingerprint=%s replay=%s\n%s", id, test, res.Fingerprint, path, res.Err)
	})
	e.Note(test, map[string]any{"rapid_checks_completed": completed})
}

// Exhaustive drives prop over an enumerated finite domain. The enumeration is split over shards by index.
// complete must be true iff the enumerator covers its whole domain (sets exhaustive in the evidence).
func Exhaustive[C any](t *testing.T, id, test string, enum func(yield func(C) bool), prop func(C) Result) {
	t.Helper()
	e := Get(id)
	t.Cleanup(e.Flush)
	if Replay(t, id, test, prop) {
		return
	}
	s, k := Shards()
	idx := 0
	total := 0
	stopped := false
	enum(func(c C) bool {
		mine := idx%s == k
		idx++
		if !mine {
			return true
		}
		total++
		res := Safe(prop, c)
		e.Record(test, res, c)
		if res.Err == "" {
			return true
		}
		if e.IsKnown(res.Fingerprint) {
			e.knownHit(res.Fingerprint)
			return true
		}
		path := e.reportViolation(test, res, c)
		t.Errorf("VIOLATION-CASE property=%s test=%s fingerprint=%s replay=%s\n%s", id, test, res.Fingerprint, path, res.Err)
		stopped = true
		return false
	})
	e.Note(test, map[string]any{"enumerated": total, "generator": "exhaustive enumeration", "stopped_at_violation": stopped})
	e.mu.Lock()
	e.frag.Exhaustive[test] = !stopped
	e.mu.Unlock()
}

// Goroutines returns the current goroutine count (used as an async quiescence signal).
func Goroutines() int { return runtime.NumGoroutine() }

// JSON renders a value compactly for keys and messages.
func JSON(v any) string {
	b, _ := json.Marshal(v)
	return string(b)
}
