CHECKS["C11"] = dict(
    overlay_dirs={**KIT, "verifx/certspec": "harness/certspec", "verifx/c11": "harness/x/c11"},
    units=[unit("c11", "./verifx/c11", "^TestC11", shards=(8, 16), timeout=(900, 3400))],
    rule=("rapid-generated operation histories (2..60 ops; sign by the verifier or others, per-signer batch signing, combine, "
          "relabel signer ids keeping the bytes, cut the serialised bytes of a multi-signature into other pieces (equal chunks or arbitrary cuts, same labels), permute the labels among the contained signatures, present the same bytes and labels under the other scheme's signature type (ECDSA <-> EdDSA, as the wire format allows), "
          "messages shaped like a serialised batch, absent (nil) signatures, verify against any of 6 messages, batch-verify against the signed batch with "
          "entries changed/added/removed, build honest QC/TC/AggQC and re-verify them with altered view, hash or attested QC) "
          "for ecdsa/eddsa/bls12, n in {2,4,7}, cache capacity 1..8 and 100. Differential oracle: each request goes to an "
          "authority with the cache and to one without it (same keys, membership, block store); err==nil must agree. "
          "Non-trivial = the history contains a query whose signature bytes were accepted earlier under a different "
          "message/batch/labels/claim, or a repeat query after more distinct accepted entries than the capacity (eviction); "
          "distinct = hash of the history."),
    assumptions=["the uncached authority is the reference (its own correctness is C02)"],
)
