CHECKS["C12"] = dict(
    overlay_dirs={**KIT, "verifx/c12": "harness/x/c12"},
    units=[unit("c12", "./verifx/c12", "^TestC12", shards=(8, 16), timeout=(600, 3000)),
           unit("c12fuzz", "./verifx/c12", "^$", fuzz="FuzzC12Decode", fuzztime={"quick": 20, "thorough": 180}, fuzzworkers=8,
                tiers=("thorough",), timeout=(300, 900))],
    rule="tbd",
    assumptions=[],
)
