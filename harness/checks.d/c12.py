CHECKS["C12"] = dict(
    overlay_dirs={**SIM, "verifx/c12": "harness/x/c12"}, overlay=SIM_ACCESS,
    units=[unit("c12", "./verifx/c12", "^TestC12", shards=(8, 16), timeout=(600, 3000)),
           unit("c12recv", "./verifx/sim", "^TestC12ReceivePath", shards=(8, 16), timeout=(600, 3000)),
           unit("c12fuzz", "./verifx/c12", "^$", fuzz="FuzzC12Decode", fuzztime={"quick": 20, "thorough": 180}, fuzzworkers=8,
                tiers=("thorough",), timeout=(300, 900))],
    rule=("round trip: rapid-generated objects of every message type (block as served by RequestBlock, proposal +/- AggQC with proposer and "
          "message ID filled from the authenticated peer as server.go does, vote, QC, TC, AggQC with 0..n entries incl. foreign ids, "
          "SyncInfo in all 8 presence combinations, timeout +/- MsgSignature) built from real keys of the 3 schemes, n in 1..7, 1..n signers in "
          "arbitrary order, signed correctly or not, parents/QC targets genesis / stored blocks / unknown, nil / empty / small / 5000-command "
          "batches, 64 KiB commands, views/ids/sequence numbers at the integer boundaries, timestamps over the whole protobuf range in UTC / fixed "
          "zone / local zone / the unmodified time.Now() of NewBlock; through proto.Marshal/Unmarshal and the To/From converters; compared on "
          "Hash(), ToBytes(), ordered participants, presence of optional parts and the verdict of another replica's cert.Authority. "
          "TestC12Shapes enumerates every presence combination per scheme with honest quorum signatures. "
          "sensitivity: one-component changes (parent, proposer, view, batch append/drop/edit/swap, timestamp deltas 1 ns .. 2^64 ns, embedded QC "
          "hash / view / signature re-signed, other message, reordered, re-attributed, added, removed) must change Hash() and ToBytes() of a block, "
          "also after the changed block crossed the wire; id / view / QC changes must change a timeout's bytes-to-sign; view / hash changes a QC's "
          "ToBytes(); an AggregateQC with a re-attributed entry must not verify under the old aggregate signature. "
          "decode stability: honest encodings with structure-aware field edits, byte edits, read as another message type, and free bytes: "
          "decode(encode(decode(b))) == decode(b); FuzzC12Decode (thorough) is the coverage-guided version seeded with honest messages. "
          "non-trivial = the object has an optional part present and another absent, or a boundary value (round trip); the change really "
          "changed the component (sensitivity); the bytes decoded and were not an untouched honest encoding (decode). distinct = by shape "
          "(kind, scheme, n, presence bits, signer-set class, boundary flags, verdict) for the round trip, by case otherwise. Receive path (TestC12ReceivePath): proposals, votes, new-view and timeout messages created by one replica, marshalled, unmarshalled and handed to the REAL service handlers of server/server.go of another replica with the peer id in the connection metadata, clique and Kauri-tree configurations (a proposal relayed by an inner node of the tree): what the handler puts on the event loop has the creator's block hash, bytes-to-sign, certificates, signatures and sender. One hash, one block (TestC12HashNamesOneBlock): a block and a variant whose certificate was transformed structurally (no signature -> empty signature object of any scheme, ECDSA <-> EdDSA retyping, re-split, dropped or duplicated entries), through the wire: a variant that differs in signature presence, type, signers or per-entry bytes must have another hash; the unchanged block keeps hash and bytes."),
    assumptions=["proto.Marshal/Unmarshal of google.golang.org/protobuf stand in for the gorums transport codec (gorums uses the same library)",
                 "qspec.RequestBlockQF is exercised by the C13 check, not here",
                 "Kauri mode (proposer id taken from the wire instead of the peer) is not generated",
                 "VerifyAnyQC is compared only where its verdict is a function of the proposal (see notes/C12-findings.md)",
                 "inputs that hit nil dereferences on absent fields (Proposal without Block, PartialCert without decodable signature, "
                 "ToBytes of a signature-less certificate) are excluded by inspection: property C10"],
)
