CHECKS["C02"] = dict(
    overlay_dirs={**KIT, "verifx/certspec": "harness/certspec", "verifx/c02": "harness/x/c02"},
    units=[unit("c02", "./verifx/c02", "^TestC02", shards=(8, 16), timeout=(900, 3400))],
    rule=("rapid-generated certificate SPECIFICATIONS (who really signed which bytes with which key under which label; what view/"
          "hash/QC-map the certificate claims) for QC, TC and AggregateQC, schemes ecdsa/eddsa/bls12, n in 1..13, cache 0/3/100, built "
          "into real objects with the low-level constructors (BLS: sum of real shares + relabelled bit-field) or, for the honest "
          "class, through Authority.Create*. 16 mutation classes (honest-api, honest-manual, repeated-signer, sub-quorum, "
          "unknown-signer, foreign-message, relabel-view, relabel-hash, swapped-ids, empty-sig, garbage-sig, wrong-key, mixed-views, "
          "extra-map-entry, valid-plus-invalid, free-form). Oracle = ground truth computed from the specification by byte equality of "
          "what was signed with what the certificate claims: accept => >= q distinct configured valid signers (and the reported high "
          "QC is the highest valid attested one); honest => accepted at every replica; each certificate is verified twice per replica "
          "(second time possibly from the cache). Non-trivial = anything but an untouched honest certificate; distinct = (scheme, n, "
          "kind, multiset of entry classes, certificate-level flag, verdict)."),
    assumptions=["a panic inside verification is counted as 'not accepted' here (crash-freedom is C10)",
                 "BLS: an aggregate containing an invalid share is assumed not to verify except by a defect (no secret-key-dependent forgeries are attempted)"],
)
