CHECKS["C18"] = dict(
    overlay={"twins/zz_verif_c18_test.go": "harness/pkg/twins/c18_test.go",
             "internal/cli/zz_verif_c18_test.go": "harness/pkg/cli/c18_test.go"},
    units=[unit("c18", "./twins", "^TestC18", shards=(16, 16), timeout=(600, 3000)),
           unit("c18cli", "./internal/cli", "^TestC18CLI", shards=(4, 8), timeout=(600, 3000))],
    rule="draft",
    assumptions=[],
)
