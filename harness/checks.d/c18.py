CHECKS["C18"] = dict(
    overlay={"twins/zz_verif_c18_test.go": "harness/pkg/twins/c18_test.go",
             "internal/cli/zz_verif_c18_test.go": "harness/pkg/cli/c18_test.go"},
    units=[unit("c18", "./twins", "^TestC18[^R]", shards=(16, 16), timeout=(600, 3000)),
           unit("c18race", "./twins", "^TestC18Race", race=True, shards=(4, 8), timeout=(600, 3000)),
           unit("c18cli", "./internal/cli", "^TestC18CLI", shards=(4, 8), timeout=(600, 3000))],
    rule=("generator: EVERY setting of the box nodes 1..5 x twins 0..min(2,nodes) x partitions 1..3 x views 1..4 (168 settings), each "
          "unshuffled and shuffled with 3 (quick) / 6 (thorough) fixed seeds, plus rapid-drawn settings with random int64 seeds. A "
          "generator announcing <= 300k (quick) / 2M (thorough) scenarios is drained completely, a larger one for its first 50k / 200k. "
          "Checked per case: yielded count == Remaining() announced at construction, Remaining() decreases by one per scenario and "
          "reaches 0, no two scenarios equal (leader + ordered list of member-sorted partitions per view), a second generator with the "
          "same settings/seed yields the same sequence, a shuffled generator yields a permutation of the unshuffled set (complete drains) "
          "or only views of the unshuffled generator (prefix drains), the drained set is V^views for one view set V, every view is a "
          "partition of exactly the configured nodes (both twins included) with a leader in 1..nodes, json.Marshal/Unmarshal keeps "
          "leaders and membership (every scenario up to 20k per case in quick / 300k in thorough, a stride plus every scenario holding a "
          "new view beyond), generators of <= 2500 scenarios also survive the ToJSON/FromJSON file format, and three further calls after "
          "exhaustion return io.EOF without panic. non-trivial = settings with >= 1 twin pair and >= 2 partitions; the scenarios of "
          "unshuffled complete drains of such settings are counted as distinct by construction (verified pairwise different). "
          "verdict: checkCommits on synthetic Networks against a pairwise reference: exhaustive over 1..3 replicas x logs of length <= 3 "
          "(4 replicas: <= 2 quick, <= 3 thorough) over two blocks per position x every twin mask, plus rapid-drawn fork-shaped logs of "
          "<= 4 replicas and length <= 10; non-trivial = logs diverging after a common prefix. executor: ExecuteScenario on real "
          "scenarios (4 replicas, 0..1 twins, 3 rule sets), reported Safe/Commits == reference over the reported NodeCommits. "
          "command line (unit c18cli): twinsGenerate / twinsRun --log-all write/execute exactly the announced scenarios, once each, "
          "in one file or a directory of files readable by FromJSON. distinct = hash of the case. Concurrent drawing (TestC18ConcurrentDraw, and TestC18RaceConcurrentDraw under the race detector): 2..8 goroutines draw from ONE generator (what `twins run --concurrency N` does); what they were handed, as a multiset, must be exactly the sequential enumeration (no scenario twice, none missing, none foreign). Long fault-free scenarios (TestC18LongScenarios): no twins, one node apart for 20..60 views and together with the others for 6..12 more, all rulesets: the report must say safe. CLI runs (TestC18CLI) also vary `--concurrency` 1..8 and run scenarios back from a file written by `twins generate` (`--input`), optionally asking for more scenarios than the file holds: every announced scenario is executed and logged exactly once, and the command ends without a panic."),
    assumptions=["scenario equality is equality of leaders and of the ordered partition lists (the JSON form); views that differ only in "
                 "the order of their partitions are counted as different (measured: class has-views-equal-up-to-partition-order)",
                 "ExecuteScenario is only observed reporting 'safe' on real runs (no unsafe run is available: the skipped TestFHSBug "
                 "scenario commits nothing); the unsafe branch of the verdict is exercised on synthetic Networks only",
                 "settings announcing more than 300k (quick) / 2M (thorough) scenarios are checked on a prefix of their sequence",
                 "the outcome of a concurrent `twins run` is compared as a multiset (which worker executes which scenario is not specified)"],
)
