CHECKS["C16"] = dict(
    overlay_dirs={**KIT, "verifx/c16": "harness/x/c16"},
    units=[unit("c16", "./verifx/c16", "^TestC16", shards=(8, 16), timeout=(600, 3000))],
    rule=("stateless: EVERY n in 1..64 x every view of four windows of 4097 consecutive views (0.., around 2^32, around 2^63, "
          "ending at 2^64-1), one scheme object per replica built by the real factory: round-robin == view mod n + 1 (start of "
          "the window by arbitrary-precision arithmetic, then cyclic successor), member of 1..n, all replicas equal, no replica "
          "twice within n consecutive views and every replica once; fixed / tree-less tree scheme constant = replica 1 on every "
          "replica; tree scheme == position 0 == Tree.Root() for every replica's own tree object (n 1..64 x branch factor 2..5 x "
          "six permutation shapes exhaustively, random permutations by rapid). history-based: rapid-generated committed chains "
          "(per block: view gap, proposer, ordered signer list of size >= quorum; first block carries the unsigned genesis "
          "certificate), n 1..64, chain length parameter 1..4, seed, base view (0, just below 2^32 / 2^63, random), signature "
          "scheme (ecdsa/eddsa = ordered multi-signature, bls12 = bitfield), and an op list (advance committed head by 1..3 "
          "blocks, each commit followed by the store's PruneToHeight as consensus.Committer does (chains that start at a small view) | "
          "GetLeader(head view + chain length + rel) | GetLeader(any uint64)). The first block's genesis certificate may carry a junk "
          "signature object (none / no participants / arbitrary members / an unknown id); such chains belong to the domain only if "
          "certificate verification accepts that block (after repair 31 it does not). Three independent replicas (own config, "
          "store, view states; one holds the proposer's block objects, two hold copies decoded from the protobuf wire format, one "
          "of those asks every question twice) must answer identically; carousel: active (signed head certificate and view == "
          "head view + chain length) => answer in signers(head certificate) minus proposers(last f committed blocks), else "
          "round-robin, always a member; reputation: member or 0, round-robin before the first signed certificate, else a signer "
          "of the head certificate or 0. TestC16RealChain builds the certificates with real keys/authorities from votes in "
          "arrival order and verifies them. TestC16CarouselSupport sweeps 40*|candidates|+60 seeds and demands that the set of "
          "chosen leaders EQUALS the candidate set. non-trivial: carousel = an active-carousel query with a non-empty exclusion "
          "list; reputation = a weighted (non-zero) answer after >= 2 distinct signed heads were observed; tree = root != 1. "
          "distinct = hash of the case / (n, window) / each (n, view) pair by construction."),
    assumptions=["signer sets below quorum size are outside the domain (the carousel divides by the candidate count)",
                 "replicas hold every ancestor of the committed head in their block store (the committer fetches them before committing)",
                 "reputation: only replicas that asked the same questions at the same committed heads are compared (the property's "
                 "own scope), plus repetition of an identical question; replicas that skipped a committed head are not compared",
                 "carousel support: a candidate missed by all 40*c+60 seeds would be a false alarm with probability < c*e^-40"],
)
