CHECKS["C06"] = dict(
    engine="E1",
    overlay_dirs=SIM, overlay={**SIM_ACCESS, "server/zz_verif_c06_test.go": "harness/pkg/server/c06_test.go"},
    units=[unit("c06", "./verifx/sim", "^TestC06", shards=(16, 16), timeout=(900, 3400)),
           unit("c06io", "./server", "^TestC06", shards=(4, 16), timeout=(600, 3000))],
    rule=("(1) the C01 simulator runs with a real ClientIO on every event loop, three clients whose commands reach every replica, "
          "batch size 1..3, and a Byzantine actor that re-proposes the commands of earlier blocks. The applied command sequence "
          "of each replica is OBSERVED (not re-implemented): a prioritised handler saves the SHA-256 state of ClientIO.Hash() "
          "before the batch, a later handler finds the unique in-order subset of the batch that explains the new digest. Oracle "
          "after every step: ExecuteEvent batches are exactly the batches of the committed blocks in log order; no (client, seq) "
          "applied twice; CmdCount = number applied; applied sequences of honest replicas are prefix-related. (2) in-package "
          "ClientIO histories (Exec/Abort batches with duplicates across batches, aborted-then-executed and executed-then-"
          "aborted commands, waiting clients registered the way ExecCommand does): each waiting client gets at most one outcome, "
          "success only after the command was applied; TestC06ExecCommandRPC does the same through the real RPC path (gorums client "
          "-> ClientIO.ExecCommand on 127.0.0.1, a few dozen histories per run). Non-trivial = a command occurs in two committed blocks, or was aborted and "
          "executed (sim) / a waiting command meets a duplicate or an abort (ClientIO); distinct = config+schedule / history."),
    assumptions=["the simulator edges are trusted", "the RPC variant waits for request arrival with a time guard (inconclusive, never a violation, if it expires)"],
)
