CHECKS["C13"] = dict(
    overlay_dirs={**KIT, "verifx/c13": "harness/x/c13"},
    overlay={"network/zz_verif_c13_test.go": "harness/pkg/network/c13_test.go"},
    units=[unit("c13", "./verifx/c13", "^TestC13", shards=(8, 16), timeout=(600, 3000)),
           unit("c13net", "./network", "^TestC13", shards=(4, 8), timeout=(600, 3000))],
    rule=("store: a case is a block forest (<= 8 blocks; parent = genesis, any earlier block or an ancestor nobody has; view = "
          "parent view + 1..3, so views grow strictly along parent links and forks / equal views on different branches / gaps "
          "arise freely) with per-block peer replies (none, the block, another block, the block with one field changed) and a "
          "pre-drawn list of <= 50 operations Store (again with an equal fresh object), LocalGet, Get, Get(unknown hash), "
          "Extends(a,b), change-peer-replies, and TryCommit(proposal) through the real consensus.Committer with a stub commit "
          "rule returning the proposal's 0..3rd ancestor (skipped when it conflicts with the committed chain); the sender stub "
          "does what GorumsSender.RequestBlock does (proto round trip, first reply with the requested hash). Oracle = reference "
          "forest with the true parent links: Get/LocalGet return a block whose hash (recomputed from its content) is the "
          "requested one, exactly when it is stored or an honest peer reply exists; Extends(a,b) <=> b on a's parent chain over "
          "obtainable blocks; CommitEvents equal the reference chain; no AbortEvent names a block on the committed chain, no "
          "block is aborted twice in the history, none is aborted and later committed; final sweep of the whole ancestry "
          "relation with silent peers. Plus ALL forests of <= 4 (thorough 5) blocks x block stored last x every pair of commit "
          "targets. non-trivial = a commit advanced the chain while two stored blocks share a view <= the committed view. "
          "network: ALL reply vectors of length <= 4 (thorough 5) over 10 reply symbols through the real qspec.RequestBlockQF "
          "called as gorums does (after every arrival) and BlockFromProto, and random Get/LocalGet/Extends/Store histories of "
          "the real Blockchain over a sender built from that quorum function; non-trivial = at least one lying reply. "
          "distinct = hash of the case."),
    assumptions=["a block conflicting with the committed chain is never handed to the committer (consensus safety, C01/C03)",
                 "the gorums quorum call is emulated (quorum function invoked on the growing reply map, first true wins); gRPC transport is not exercised",
                 "a fetched block is kept by the store (LocalGet after a successful Get finds it)",
                 "Extends with a target the store cannot obtain is not judged (real callers pass stored targets)"],
)
