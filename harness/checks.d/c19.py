CHECKS["C19"] = dict(
    overlay_dirs={**KIT, "verifx/c19": "harness/x/c19"},
    units=[unit("c19", "./verifx/c19", "^TestC19", shards=(8, 16), timeout=(600, 3000)),
           unit("c19fuzz", "./verifx/c19", "^$", fuzz="FuzzC19Bitfield", fuzztime={"quick": 20, "thorough": 120}, fuzzworkers=8,
                shards=(1, 1), timeout=(300, 600), tiers=("thorough",))],
    rule=("bit-field histories: rapid-generated sequences of Add/Contains/Len/ForEach/RangeWhile(stop at call k)/rebuild-from-Bytes() "
          "over ids 1..300 (weighted to 8k-1, 8k, 8k+1, re-insertion of earlier ids and their neighbours), optionally starting from "
          "BitfieldFromBytes of arbitrary bytes, compared after every step with a reference map set (Len, ascending duplicate-free "
          "iteration, Contains of every id up to two bytes past the data, early stop); non-trivial = an id was inserted twice, the set "
          "spans >= 2 bytes and was queried. reconstruction: arbitrary byte strings of 0..64 bytes (weighted to 0x00/0xff/edge "
          "bytes): Len == popcount, iteration == set bits (bit id-1, LSB first), Bytes() returns the input, the same set built by "
          "Add has the same bytes up to trailing zeros, later insertions keep Len right; non-trivial = >= 2 bytes with a set bit. "
          "exhaustive: all ordered id pairs (a,b) in 1..300^2 inserted as a,b,a; all two-byte strings at byte offsets 0, 1, 36. "
          "signer lists: for ecdsa/eddsa/bls12 with real keys, 2..12 fresh single signatures by replicas out of 1..20 (distinct or "
          "with repeats) and 1..8 Combine calls (inputs chosen with the help of the reference model: disjoint, barely overlapping, or arbitrary) over a growing pool (inputs may be earlier results or the same entry twice): "
          "Combine succeeds <=> inputs pairwise disjoint (else ErrCombineOverlap), result set == union, Len == distinct signers, "
          "inputs unchanged, BLS bit-field bytes round trip; non-trivial = a nested combination succeeded and an overlapping one "
          "was refused. thorough tier adds native fuzzing of BitfieldFromBytes (oracle inside the target). distinct = hash of the case."),
    assumptions=["id 0 and ids above 300 are outside the domain (ids start at 1; 0 makes the bit index negative)",
                 "value copies of a Bitfield that share the byte slice with the original and are then mutated are not exercised "
                 "(the byte slice handed to BitfieldFromBytes / returned by Bytes() is documented as raw, i.e. shared)",
                 "iteration order of Multi (ecdsa/eddsa signer lists) is not specified by the property; only duplicate-freeness, "
                 "set equality and consistency between ForEach and RangeWhile are checked"],
)
