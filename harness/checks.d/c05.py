CHECKS["C05"] = dict(
    engine="E1",
    overlay_dirs=SIM, overlay=SIM_ACCESS,
    units=[unit("c05", "./verifx/sim", "^TestC05", shards=(16, 16), timeout=(900, 3400))],
    rule=("prefix: rapid-generated fault schedule (5..90 steps of deliver/drop/duplicate/timeout/partition/burst) on a cluster "
          "(n in {4,7}, three rulesets, <= f crashed plus isolated replicas, leaders fixed / round-robin / scripted inside the "
          "quorum Q); a quarter of the prefixes are lag-shaped (a minority cut off while the rest goes on by progress or timeouts, "
          "crossing messages lost, heal), a quarter deep-lag (one later member of Q cut off for 3..16 rounds) and, when a live replica is "
          "cut off during the suffix, a quarter relay-shaped (every timer fires but only that replica hears the timeouts, what it sends "
          "afterwards reaches a few others, everything else is lost). Suffix (algorithmic): only Q is connected; rounds of 'deliver everything in flight among Q in FIFO order "
          "until quiescent, then fire the timer of every member that made no progress'. Oracle: (a) no stall - three consecutive "
          "rounds in which no member of Q changes view, high QC or commit count; (b) every member of Q commits a new block before "
          "more than 4*chainLength+2 views led by members of Q have passed since the suffix started; (c) fault-free synchronous "
          "runs: proposals are one block per view 1..N each extending and certifying its predecessor, and after every delivery "
          "generation every replica has committed exactly the blocks of views 1..(newest handled proposal - chain length). "
          "Non-trivial = the prefix left two members of Q >= 2 views apart or stale timeouts in a collector; distinct = config+schedule. The fault-free run also draws ONE replica whose view timer is slower than the others' (it fires after their timeout messages were delivered; messages still arrive before any timer)."),
    assumptions=["bounded liveness under a schedule the harness owns; nothing is claimed about real timers or unbounded asynchrony",
                 "a round guard (3*(lag+bound)+12 rounds) reached without (a) or (b) failing is reported as inconclusive, not as a violation"],
)
