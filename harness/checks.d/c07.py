CHECKS["C07"] = dict(
    engine="E1",
    overlay_dirs=SIM, overlay=SIM_ACCESS,
    units=[unit("c07", "./verifx/sim", "^TestC07", shards=(16, 16), timeout=(900, 3400))],
    rule=("the C01 simulator runs (both timeout rules: simple for chained/simple HotStuff, aggregate for Fast-HotStuff) with the "
          "actor weighted towards certificates: replayed old QC/TC, QC/TC/AggQC with relabelled view, sub-quorum and "
          "repeated-signer certificates, forged certificates inside proposals, new-view and timeout messages. Oracle after "
          "every step for every honest replica: view, stated and real view of the high QC (and their equality), high TC view and "
          "committed view never decrease; every view increment v -> v+1 is backed, by ground truth from the signing log (honest "
          "tap + the actor's own signatures), by >= q distinct replicas that really signed a block of view >= v or by >= q that "
          "really signed a timeout for a view >= v (a necessary condition, so it cannot raise a false alarm); ViewChangeEvents "
          "are exactly v+1, v+2, ... one per increment. Non-trivial = an honest replica received a fabricated certificate from "
          "the actor and made at least one legitimate view step; distinct = config+schedule. Strategy runs (TestC07StrategyPace): the same monitor after every view of ALL strategies of two strategic views of a Byzantine replica that leads every view (see C01; 16,200 runs). Rogue key (TestC07RogueKey): a bls12 cluster whose Byzantine replica registered a rogue public key presents a TC / QC signed by itself alone but naming two honest replicas, 1..3 times to every honest replica in new-view or timeout messages; the monitor's evidence rules apply after every delivery."),
    assumptions=["the simulator edges, the signing tap and the fast keyed-hash base are trusted", "schedules are sampled"],
)
