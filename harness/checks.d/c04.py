CHECKS["C04"] = dict(
    overlay={"protocol/rules/zz_verif_c04_test.go": "harness/pkg/rules/c04_test.go"},
    units=[unit("c04", "./protocol/rules", "^TestC04", shards=(8, 16), timeout=(600, 3400))],
    rule=("block forests described by (view, parent index, QC index, aggregate-QC flag) with views growing along parent and QC "
          "links: EXHAUSTIVE for <= 3 blocks over views 1..4 (quick) / <= 4 blocks over views 1..5 (thorough), every "
          "presentation order, x 3 rulesets; plus rapid-generated forests of <= 10 (quick) / 14 (thorough) blocks biased 60% "
          "towards extending the newest block (plus equivocating siblings with equal views and competing branches), with presentation orders (70% creation order), blocks that enter the store "
          "silently or stay missing, and a view argument of block view -1/0/+1. Presentation mirrors the callers: VoteRule, "
          "and if yes Store + CommitRule, and when that names a newer block the committer's PruneToHeight(block, its view) (no decision may depend on pruning). Oracle: independent reference implementation of the published rules over the "
          "description; compared after every presentation: vote decision, committed block, lock. Non-trivial = the forest has "
          "a fork and a view gap and at least one refusal or commit; distinct = the forest+order string."),
    assumptions=["the reference is this harness' reading of the HotStuff, Fast-HotStuff and simplified-HotStuff papers; where a block that decides the lock is missing from the store (the papers know no missing blocks) the reference refuses the vote, as a replica that cannot update its lock must (finding 48)",
                 "forests where a block's view is not above its parent's and its certified block's view are outside the generated domain (unreachable for certified blocks)"],
)
