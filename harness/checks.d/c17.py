CHECKS["C17"] = dict(
    overlay_dirs={"verifx/c17": "harness/x/c17"},
    overlay={"internal/tree/zz_verif_c17_test.go": "harness/pkg/tree/c17_test.go"},
    units=[unit("c17", "./verifx/c17", "^TestC17(Exhaustive|Grid|Random)", shards=(8, 16), timeout=(600, 3000)),
           unit("c17shuffle", "./internal/tree", "^TestC17Shuffle", shards=(2, 4), timeout=(600, 3000))],
    rule=("A case is one cluster configuration (n, branch factor, tree positions = a permutation of the replica ids 1..n, "
          "constructor NewSimple / NewDelayed(none|tree-height|aggregation), delta, locations). Every replica builds its own "
          "Tree from its own copy of the positions, as worker.newTree does; the oracle rebuilds the tree from the replicas' "
          "answers about themselves (Parent, ReplicaChildren, SubTree, PeersOf, ReplicaHeight, TreeHeight, Root, WaitTime) and "
          "the cross-queries ChildrenOf / IsRoot: one agreed root = TreePositions[0] and the only replica without parent; "
          "parent(x)=p <=> x in children(p), listed exactly once overall; parents lead to the root (no cycle); SubTree = set "
          "of descendants without duplicates; PeersOf ∪ {self} = children of the parent (either convention, but one "
          "convention for all), empty for the root; ReplicaHeight = TreeHeight - depth, TreeHeight = number of levels; "
          "<= bf children; level order = TreePositions and levels filled left to right (documented layout); simulated "
          "dissemination reaches every replica exactly once and aggregation brings n votes to the root; tree-based leader "
          "= root from every replica; wait times follow the shape (2*(height-1)*delta, or slowest child's wait + round trip "
          "+ delta); asking twice gives the same answers and the positions are not modified. "
          "TestC17Exhaustive: ALL permutations for n<=6 (quick) / n<=7 (thorough) x bf 2..6 x 4 constructors, plus all 40320 permutations of n=8, bf=2 (smallest four-level tree; aggregation constructor in quick, all four in thorough). TestC17Grid: every "
          "(n, bf) in 1..40 x 2..6 x 4 constructors x 7 structured permutations. TestC17Random: rapid permutations, n 1..40 "
          "(90% n>=7). TestC17Shuffle (in package tree, random source re-seeded from the case): tree.Shuffle returns a "
          "permutation of its input. Non-trivial = n >= 2 (two different Tree objects must agree on at least one edge); for "
          "the shuffle test additionally the order changed. distinct = hash of the case."),
    assumptions=["replica ids are 1..n and TreePositions is a permutation of them (documented: unique entries, length = number of replicas)",
                 "branch factor >= 2 and the replica's own id among the positions (NewSimple panics otherwise, by contract)",
                 "aggregation wait time needs one valid location per replica (documented: Locations required if TreePositions is set)",
                 "callers do not write into the slices returned by ChildrenOf/ReplicaChildren/PeersOf (they alias the tree's position slice); no caller in the repository does",
                 "n > 40 and bf > 6 are outside the stated quantifier (the layout arithmetic does not depend on n; not machine-checked)"],
)
