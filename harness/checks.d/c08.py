CHECKS["C08"] = dict(
    engine="E1",
    overlay_dirs=SIM, overlay=SIM_ACCESS,
    units=[unit("c08", "./verifx/sim", "^TestC08", shards=(16, 16), timeout=(900, 3400))],
    rule=("a real replica stack (synchronizer + collector + timeout rule + authority) is brought to view 1..4 by honest timeouts "
          "and then receives a rapid-generated interleaving of 1..40 timeout messages crafted with the other replicas' keys: "
          "views current-2..current+3 and a far-future view, honest / duplicated / hostile (signature over another view, by "
          "another replica, over garbage, two-signer view signature, absent or wrong message signature) from <= f Byzantine "
          "senders, SyncInfo empty / genesis / invalid TC / stale TC, its own timer firing in between; n in {4,7}, simple and "
          "aggregate timeout rule, fast/ECDSA/EdDSA. Reference collector: a message is correct iff its view signature is one "
          "signature by the authenticated sender over the stated view (aggregate rule: and its message signature one signature "
          "by the sender over the message bytes); set(v) = distinct senders of correct messages for a view not yet left. Oracle "
          "per delivery: the replica leaves its view (by exactly one, holding a TC for v whose signers are within set(v), that "
          "verifies at another replica, and sends it - plus a verifying aggregate QC - to the next leader) exactly at the "
          "delivery that makes |set(v)| reach the quorum; no other delivery changes view or high TC. Non-trivial = >= 2 views "
          "mixed, a hostile message seen and a certificate formed; distinct = the history."),
    assumptions=["a (sender, view) pair sends one message (plus re-sends); Byzantine senders never follow a malformed message for a view with a correct one for the same view",
                 "the simulator edges are trusted"],
)
