CHECKS["C20"] = dict(
    overlay_dirs={**KIT, "verifx/c20": "harness/x/c20"},
    units=[unit("c20", "./verifx/c20", "^TestC20", shards=(8, 16))],
    rule=("Exhaustive: every cluster size n in 1..1,000,000 (each n is one distinct case; f is recomputed by search, "
          "not by the formula under test) for NumFaulty/QuorumSize: 2q-n>=f+1, q<=n-f, q-1 fails the first; "
          "RuntimeConfig.QuorumSize for n in 1..200, queried after every AddReplica while the membership grows; boundary certificates (QC, TC, AggQC) carrying q-1, q and n distinct "
          "valid signatures for n in 1..13 and the three schemes, verified by another replica, and the same certificates with q-1 real "
          "signatures PADDED to q (and to n) signer labels that have no signature behind them (BLS: bits in the participants field; "
          "ECDSA/EdDSA: entries without bytes; an aggregate certificate lists no message for them) - the count reaches the threshold, "
          "the signatures do not: refused; likewise (ECDSA/EdDSA) q-1 real signatures plus 1 / n-(q-1) ENTRIES repeating them, in three arrangements "
          "(appended in order, each next to its original, appended in reverse) - the entries reach the threshold, the replicas do not: refused; collector thresholds "
          "(timeout collector, vote collector, Kauri) are exercised at q-1/q for n in {4,7} by the C08/C09 harness units. "
          "Sampled (TestC20ConfigHistory): histories of up to 30 AddReplica (new and known ids out of 13) / ReplicaCount / QuorumSize "
          "operations and timeout-certificate checks with q-1 and q signatures through an Authority that shares the configuration: "
          "the threshold in use is always the one of the membership configured so far. "
          "Every enumerated case is non-trivial; distinct = distinct n / distinct (scheme,n,kind,k); a history is non-trivial when the "
          "threshold was consulted while the membership was still changing."),
    all_exhaustive=False,
    assumptions=["Go integer and float64 arithmetic as implemented by the toolchain",
                 "for n beyond 1,000,000 the three-line algebraic argument in DESIGN.md (prose, not machine-checked)"],
)

