CHECKS["C14"] = dict(
    overlay={"core/eventloop/zz_verif_c14_test.go": "harness/pkg/eventloop/c14_test.go"},
    units=[unit("c14", "./core/eventloop", "^TestC14(Queue|Dispatch)", shards=(8, 16), timeout=(600, 3000)),
           unit("c14race", "./core/eventloop", "^TestC14Race", race=True, shards=(4, 16), timeout=(600, 3000))],
    rule=("queue: ALL push/pop/len sequences of length 9 (quick) / 11 (thorough) for capacities 1..4 (exhaustive; the oracle is "
          "evaluated after every step so all shorter sequences are covered as prefixes) plus random sequences up to length 80 "
          "and capacity 12, against a reference deque with drop-oldest (pop/len results and the element reported as dropped); "
          "non-trivial = the ring wrapped, overflowed and was popped. dispatcher: rapid-generated mixes of "
          "add/register(priority, run-in-add, self-/other-unregistering, event-spawning or event-deferring handlers - also while deferred events are being re-added)/unregister/unregister-function-called-again/defer/tick "
          "against a reference dispatcher (FIFO, every registered handler exactly once, priority first, deferred events once, "
          "after the awaited type, in deferral order); non-trivial = >=2 deferred events delivered or an unregister during "
          "dispatch. concurrency (-race): P producers x M events with a running consumer (no loss, per-producer order) and "
          "overflow with the consumer paused (dropped ∪ remaining = pushed, only oldest dropped). distinct = hash of the case. Wake-up (TestC14RaceWakeup, in the race unit): one producer adds ONE event at a time to a running loop and waits for its handler before the next (2000..6000 events per case, spin 0..1000 between them, capacity 1/2/100): every event is handled without the help of later events; an event still unhandled after 3 s that is handled right after a second event is added is a lost wake-up (a wall-clock bound, used only to tell apart asleep from slow: the second event decides)."),
    assumptions=["goroutine interleavings are sampled under the race detector, not enumerated",
                 "handler order inside the priority class / ordinary class is not specified by the property and not checked"],
)
