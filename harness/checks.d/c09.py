CHECKS["C09"] = dict(
    engine="E1",
    overlay_dirs={**SIM, "verifx/c09": "harness/x/c09", "verifx/c10k": "harness/x/c10k"}, overlay={**SIM_ACCESS, "protocol/comm/zz_verif_access.go": "harness/access/comm/zz_verif_access.go"},
    units=[unit("c09", "./verifx/sim", "^TestC09VotingMachine", shards=(16, 16), timeout=(900, 3400)),
           unit("c09race", "./verifx/sim", "^TestC09Race", race=True, shards=(8, 16), timeout=(900, 3400)),
           unit("c09kauri", "./verifx/c09", "^TestC09Kauri", shards=(8, 16), timeout=(900, 3400)),
           unit("c09kaurirace", "./verifx/c10k", "^TestC09RaceKauriRounds", race=True, shards=(4, 16), timeout=(900, 3400))],
    rule=("all-to-one: a real replica stack that leads view 2 receives a rapid-generated arrival sequence (1..24) of honest votes "
          "for the view-1 block mixed with duplicates, votes for a sibling / unknown / old block, garbage signatures, two-signer "
          "and self-repeating multi-signature 'votes', non-member votes, BLS empty aggregates, with the proposal (or an "
          "equivocating sibling) arriving before, between or after the votes; n in {4,7}; fast/ECDSA/EdDSA/BLS; synchronous "
          "verification and concurrent verification under -race. Reference: S = distinct signers of valid single-signer votes "
          "for the block that are effective (block known, or a proposal event released the deferred vote). Oracle after every "
          "delivery: no certificate before |S| reaches the quorum, a certificate once it has, every emitted certificate names "
          "the block and its view, has signers within S and verifies at another replica. multi-block (TestC09*MultiBlock): 2..4 known "
          "blocks of views 1..4 (chains and siblings), up to 30 interleaved valid/duplicate/garbage votes from all replicas; a set S_X "
          "per block X counts while X is newer than the collector's high QC; a certificate for X exactly at the vote that completes "
          "S_X, and votes for one block never disturb the votes collected for another. tree: see TestC09Kauri (signature cache of the "
          "tree node on and off). Non-trivial = a "
          "certificate formed after a hostile vote or a vote that preceded its block; distinct = the history. Early votes (TestC09VotingMachineEarlyVotes): all arrival orders of the proposals of views 1 and 2 and the votes of replicas 2..n for the block of view 2 at the collector (leader of view 3), n in {4,7}, with block requests answered or unanswered: a certificate exactly when the block and a quorum of valid votes for it have arrived."),
    assumptions=["the voters hold the block they vote for, so the collector can fetch it", "concurrent verification: interleavings are sampled under the race detector; waiting for goroutines uses time only as a guard (inconclusive, never a violation)"],
)
