CHECKS["C15"] = dict(
    overlay={"internal/proto/clientpb/zz_verif_c15_test.go": "harness/pkg/clientpb/c15_test.go"},
    units=[unit("c15", "./internal/proto/clientpb", "^TestC15(Model|Exhaustive)", shards=(16, 16), timeout=(600, 3000)),
           unit("c15race", "./internal/proto/clientpb", "^TestC15Race", race=True, shards=(8, 16), timeout=(600, 3000))],
    rule=("Reference list model written from the statement: Add accepts iff seq > mark[client]; Proposed raises marks (never lowers); "
          "Get returns the first batchSize fresh accepted commands in arrival order and forgets what it examined, else blocks until its "
          "context ends. Every returned batch is judged first by the clauses alone (full size, only added commands, none at or below "
          "the mark, none handed out twice), then compared element by element with the model; at the end fillers from an unused "
          "client complete the last batch and everything still fresh must come out in order, after which Get must block. "
          "TestC15Model: rapid histories of add / proposed(batch over any commands) / proposed(a batch handed out earlier) / get / get with an already cancelled context (either outcome is allowed; the following requests show whether the cache was disturbed), "
          "batch 1..4, clients 1..3, seq 0..10, up to 60 ops, in two blocking modes (context ending after 5 ms, or the Get left "
          "pending across the following operations and checked after each one). TestC15Exhaustive: ALL histories over "
          "{get, add(c,s), proposed[c s]} for 2 clients and batch size 1..2: quick seq 1..3 up to length 5 plus seq 1..2 up to length 6, "
          "thorough seq 1..3 up to length 7 (pending-Get mode; each history counted once, distinct by construction). "
          "TestC15RaceConcurrent (-race): 1..4 producer goroutines, a marker goroutine and 0..2 consumer goroutines on one cache; "
          "sound one-sided oracle (full batches, no double hand-out, nothing at or below a mark whose Proposed call had returned "
          "before the Get started, per-producer order per observer incl. the final drain, a Get may stay blocked at quiescence only "
          "if fewer than batchSize never-marked commands are owed, and exactly those come out of the drain). "
          "All blocking decisions use the virtual clock of a testing/synctest bubble (it advances only when every goroutine is "
          "durably blocked): 'must return' = 5 s virtual budget or synctest.Wait, 'must block' = context ends after 5 ms virtual / "
          "is cancelled. Non-trivial (sequential) = at some Get an accepted command had gone stale while waiting (a Proposed landed "
          "between its Add and the Get), or >= 2 full fresh batches were present; non-trivial (concurrent) = >= 2 batches handed out "
          "during the concurrent phase, or stale commands held at quiescence, or >= 2 batches pending with no consumer. "
          "distinct = hash of the case (rapid) / one per enumerated history (exhaustive)."),
    assumptions=["goroutine interleavings are sampled under the race detector, not enumerated",
                 "testing/synctest (Go runtime) is trusted to advance the bubble clock only when every goroutine of the bubble is "
                 "durably blocked; blocking verdicts therefore do not depend on wall-clock time or machine load",
                 "marks start at 0, so sequence number 0 is never fresh (real clients number their commands from 1)",
                 "two Adds of the same (client, seq) before it is marked are two accepted commands (the cache does not de-duplicate "
                 "unproposed commands; real clients send each sequence number once per replica)",
                 "a Get whose context is already done while a full batch is ready may return either the batch or the context's error (Go's select chooses); both are accepted, so which of the two happens in a run is not reproducible from the seed - the verdict on correct code does not depend on it",
                 "the duplicate filter inside Add is not observable through Get (a command stale at Add stays stale and is "
                 "filtered at extraction), so it is outside this property"],
)
