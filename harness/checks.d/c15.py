CHECKS["C15"] = dict(
    overlay={"internal/proto/clientpb/zz_verif_c15_test.go": "harness/pkg/clientpb/c15_test.go"},
    units=[unit("c15", "./internal/proto/clientpb", "^TestC15(Model|Exhaustive)", shards=(16, 16), timeout=(600, 3000)),
           unit("c15race", "./internal/proto/clientpb", "^TestC15Race", race=True, shards=(8, 16), timeout=(600, 3000))],
    rule=("placeholder"),
    assumptions=[],
)
