CHECKS["C10"] = dict(
    engine="E3",
    overlay_dirs={**SIM, "verifx/c10k": "harness/x/c10k", "verifx/c02": "harness/x/c02", "verifx/certspec": "harness/certspec"}, overlay={**SIM_ACCESS, "protocol/comm/zz_verif_access.go": "harness/access/comm/zz_verif_access.go", "internal/proto/hotstuffpb/zz_verif_c10frame_test.go": "harness/pkg/hotstuffpb/c10frame_test.go", "metrics/zz_verif_c10metrics_test.go": "harness/pkg/metrics/c10metrics_test.go", "core/zz_verif_c10connect_test.go": "harness/pkg/core/c10connect_test.go"},
    units=[unit("c10", "./verifx/sim", "^TestC10", shards=(16, 16), timeout=(900, 3400)),
           unit("c10kauri", "./verifx/c10k", "^TestC10Kauri", shards=(8, 16), timeout=(900, 3400)),
           unit("c10anyqc", "./verifx/c02", "^TestC10ProposalCertificates", shards=(8, 16), timeout=(900, 3400)),
           unit("c10frame", "./internal/proto/hotstuffpb", "^TestC10Frames", shards=(4, 16), timeout=(600, 1800)),
           unit("c10metrics", "./metrics", "^TestC10Metrics", shards=(2, 8), timeout=(600, 1800)),
           unit("c10connect", "./core", "^TestC10RaceConnect", race=True, shards=(2, 8), timeout=(600, 1800)),
           unit("c10fuzz", "./verifx/sim", "^$", tiers=("thorough",), fuzz="FuzzC10Wire", fuzztime={"quick": 20, "thorough": 240}, fuzzworkers=16, timeout=(600, 900))],
    rule=("a live replica (all real handlers on its event loop; chained/simple/fast; ECDSA/EdDSA/BLS; cache on/off) is first "
          "driven 0..12 FIFO generations into a reachable state, then 1..5 rapid-generated wire messages are handed to the "
          "REAL service handlers (Propose, Vote, NewView, Timeout, RequestBlock; via an overlay accessor) with peer context "
          "and sender metadata (member, non-member, 0, missing, not a number), and the event loop is run to quiescence. "
          "Messages are generated structurally: every message-typed field nil / empty / present recursively (Block, QC, TC, "
          "AggQC with 0..3 entries, SyncInfo, batches with nil commands, nil or extreme timestamps, nil requests), hashes in "
          "{genesis, known block, high-QC block, unknown, short, long, nil}, views in {0, cur-1, cur, cur+1, cur+11, 2^63, "
          "2^64-1}, 13 signature variants (absent, empty oneof, wrong scheme, empty list, nil element, garbage, valid by the "
          "sender over right / wrong bytes, valid quorum, repeated signer, BLS malformed point / empty / 4 KiB bit-field). "
          "Oracle: (1) no panic anywhere on the path (recovered, fingerprinted by rpc and first repository frame); (2) for "
          "messages in which nothing can verify (no valid signature, no genesis / view-0 shortcut) the snapshot (view, high QC, "
          "high TC, committed block, lock, last voted view, commit count) is unchanged. Non-trivial = the message reaches "
          "beyond the first handler line; distinct = the message sequence. Thorough tier adds native coverage-guided fuzzing "
          "(FuzzC10Wire): arbitrary bytes decoded as Proposal / PartialCert / SyncInfo / TimeoutMsg / BlockHash, seeded with the "
          "marshalled honest messages of a short run, through the same handlers; oracle: no panic, state never moves backwards. "
          "Kauri service (TestC10KauriContributions): a real tree node (n in {4,7,10}, branch factor 2..3, any position, signature "
          "cache 0/1/10, connected or not yet) receives 1..10 events: contribution messages with claimed id in {member, 0, 77, 2^32-1}, "
          "view in {current, current+1, 0, 2^64-1} and 17 signature variants (the 12 hostile ones above plus valid-over-another-block, "
          "member signature under an unknown id, valid one / some / quorum, repeated signer, quorum plus unknown signer), mixed with "
          "the node's own aggregation rounds for blocks of rising view, wait-timer expiries and the connect event. Oracle: no panic; "
          "a contribution in which nothing verifies leaves (aggregate, senders, sent flag, view, messages sent to the parent, "
          "certificates announced) unchanged. Proposal verification with GENUINE aggregate certificates (TestC10ProposalCertificates, shared generator with C02): Authority.VerifyAnyQC on proposals that combine generated aggregate certificates (honest ones included) with each of 13 prepared block certificates - valid, invalid, and without a signature next to a signed one for the same block and view - never panics. Transport decoding (TestC10Frames): frames (metadata with message id and a METHOD NAME drawn from every descriptor name registered in the process - methods, messages, services, fields, oneofs, enums -, mutations of them, arbitrary strings; payload = arbitrary bytes or encoded repository messages; frames cut at any length) through the codec the repository registers with gRPC; oracle: an error or a message, never a panic (a non-method descriptor name panics in the pinned transport library: open finding 44). Metrics (TestC10Metrics): the throughput, view-timeout and consensus-latency handlers on a replica's event loop receive 1..12 generated events - ExecuteEvents for blocks built from the wire form a peer chooses (Commands field absent / empty / with a nil entry / 1..4 commands), view changes, latency reports, ticks; oracle: no panic. Connecting (TestC10RaceConnect, race detector): the replica table (n 2..13, 0..n replicas known) is completed by AddReplica / SetReplicaMetadata while 1..4 goroutines do the handlers' lookups (ReplicaInfo, QuorumSize, PeerIDFromContext over a TLS certificate or metadata); oracle: no data race."),
    assumptions=["of the gorums transport only the frame codec is exercised (TestC10Frames); connections, streams and the routing of replies to pending calls are not (protobuf guarantees well-typed messages; byte-level decode fuzzing of the messages is part of C12)",
                 "tree-contribution messages are delivered to a stand-alone tree node (real Kauri module, authority, block chain and event loop; mock sender), not to the full replica stack"],
)
