CHECKS["C03"] = dict(
    engine="E1",
    overlay_dirs=SIM, overlay=SIM_ACCESS,
    units=[unit("c03", "./verifx/sim", "^TestC03", shards=(16, 16), timeout=(900, 3400))],
    rule=("the C01 simulator runs with the actor weighted towards proposals (wrong leader, stale view, forged / sub-quorum / "
          "repeated-signer / relabelled certificates, parent different from the certified block, view not above the certified "
          "view, two blocks for one view, replays under its own id), armed as deviations of an otherwise honest-behaving "
          "Byzantine leader. Oracle over the tap's signing log of every honest replica: each block signature is for a block "
          "proposed by the scheduled leader of its view and received from it, whose certificate is real (>= q replicas REALLY "
          "signed the certified block before that step, by ground truth; stated view = certified block's view), whose parent is "
          "the certified block and whose view is higher; block signatures have strictly increasing views; none at or below a "
          "view for which the replica signed a timeout before. Non-trivial = some honest replica both signed a block and "
          "received a proposal that had to be refused; distinct = config+schedule. Strategy runs (TestC03StrategyVotes): the same vote oracle over ALL strategies of two strategic views of a Byzantine replica that leads every view (see C01: which certificate the block extends, who sees it, equivocation, before or after the receivers' timers fired; 16,200 runs). Origin of a proposal (TestC03ProposalOrigin): at the network entry point server.Propose, a well-formed block for the replica's current view whose Proposer field names any replica, arriving over the connection of any peer (member, non-member, id 0, no id), n in {4,7}, with and without a Kauri tree: the replica signs only if the peer is the leader of the view or - with a tree - its parent; the leader's proposal on the usual path is voted for; a block made up by a non-leader parent and voted for is the open finding 43."),
    assumptions=["the simulator edges, the signing tap and the fast keyed-hash base are trusted", "schedules are sampled"],
)
