SIM = {**KIT, "verifx/sim": "harness/sim"}
SIM_ACCESS = {"protocol/synchronizer/zz_verif_access.go": "harness/access/synchronizer/zz_verif_access.go",
              "server/zz_verif_access.go": "harness/access/server/zz_verif_access.go",
              "protocol/consensus/zz_verif_access.go": "harness/access/consensus/zz_verif_access.go",
              "protocol/rules/zz_verif_access.go": "harness/access/rules/zz_verif_access.go"}

CHECKS["C01"] = dict(
    engine="E1",
    overlay_dirs=SIM, overlay=SIM_ACCESS,
    units=[unit("c01", "./verifx/sim", "^TestC01", shards=(16, 16), timeout=(900, 3400))],
    rule=("simulator runs: rapid-generated cluster configuration (n in {4,7}; chained/simple/fast; fast keyed-hash base or real "
          "ECDSA/EdDSA with cache on/off; <= f faulty replicas, each a twin pair or the scripted Byzantine actor; round-robin, "
          "fixed or scripted leader cycle in which faulty replicas lead often; optionally a Twins-style per-view "
          "partition/leader scenario applied by the sender's view) and a schedule of 5..140 pre-drawn steps (deliver any / "
          "deliver-to / drop / duplicate / timeout / timeout-all / partition / heal / FIFO burst / actor action with 13 kinds). "
          "Oracle after every step: each honest commit log is hash-linked from genesis with strictly increasing views and no "
          "repetition, and honest logs are pairwise prefix-related. Non-trivial = some honest replica committed and at least "
          "one fault occurred (drop, partition, timeout, duplicate, scenario drop, twin, actor message); distinct = config+schedule. "
          "TestC01FastAggregate focuses the same oracle on Fast-HotStuff with frequent timeouts and an actor that replays old "
          "aggregate QCs, withholds / releases proposals and equivocates after view changes. TestC01TwinsEnumerated runs ALL "
          "scenarios of the repository's own Twins generator for 4 replicas, 1 twin pair, 2 partitions and 3 views (5,832; quick) / "
          "4 views (104,976; thorough) x 3 rulesets x 1 / 3 non-lock-step delivery schedules (exhaustive in the scenario dimension). "
          "TestC01LeaderStrategies*: a Byzantine replica leads EVERY view and plays a strategy: after 1..3 honest-looking views, per "
          "strategic view one of 30 moves (the new block extends the newest / 2nd / 3rd newest certified block the leader holds a "
          "genuine certificate for, assembled from the honest votes it collected plus its own; shown to everybody / the victim group / "
          "the others, or two blocks on different certificates for the two groups; before or after the receivers' view timers fired; "
          "for Fast-HotStuff with an aggregate QC of the previous view built by an honest replica or by the leader from any quorum of "
          "that view's timeout messages), every view ends with the honest timers firing, then chain-length+1 closing views for "
          "everybody or for the non-victims. ALL strategies of 2 (quick: 16,200 runs) / 3 (thorough: 486,000 runs) strategic views "
          "x 3 warm-ups x 2 closings x 3 rulesets at n=4 are enumerated; strategies of 3..6 views at n in {4,7} are sampled. "
          "Non-trivial there = two conflicting blocks were certified and some honest replica committed. Withheld ancestors (TestC01WithholdStrategies): the strategic leader bridges a split of the honest replicas (message loss between the victim and the others throughout; the leader reaches and hears both sides and hands everybody the timeout certificates) and answers block fetches only for the newest 1..3 views; the skeleton - views for the others only, a view for the victim and one other, that other alone, a fork below for the victim and the third replica, closing views for those two - is perturbed per view with probability 1/6 (arbitrary certificate, arbitrary audience subset, early or late); all three rulesets, n=4; options: every honest replica isolated (hears only the leader), only every 2nd / 3rd block request answered."),
    assumptions=["the simulator's sender/clock/crypto-tap edges and the fast keyed-hash base are trusted",
                 "schedules are sampled; n limited to {4,7}; the event-queue overflow of production (capacity 100) is not modelled"],
)
