package c10k

// C10 (tree-contribution messages) — whatever a peer sends as a Kauri contribution, in any state of the tree node, the
// node keeps running, and a contribution in which nothing verifies leaves the node's aggregation state unchanged.

import (
	"context"
	"fmt"
	"runtime/debug"
	"testing"
	"time"

	"github.com/relab/hotstuff"
	"github.com/relab/hotstuff/core"
	"github.com/relab/hotstuff/core/eventloop"
	"github.com/relab/hotstuff/internal/proto/clientpb"
	"github.com/relab/hotstuff/internal/proto/hotstuffpb"
	"github.com/relab/hotstuff/internal/proto/kauripb"
	"github.com/relab/hotstuff/internal/testutil"
	"github.com/relab/hotstuff/internal/tree"
	"github.com/relab/hotstuff/protocol/comm"
	"github.com/relab/hotstuff/security/blockchain"
	"github.com/relab/hotstuff/security/cert"
	"github.com/relab/hotstuff/verifx/common"
	"github.com/relab/hotstuff/verifx/kit"
	"pgregory.net/rapid"
)

const (
	sigAbsent = iota
	sigEmptyOneof
	sigWrongScheme
	sigEmptyList
	sigNilElement
	sigGarbage
	sigValidWrongMsg
	sigValidOtherBlock
	sigBLSMalformed
	sigBLSEmpty
	sigBLSHugeField
	sigUnknownSigner // valid bytes of a member, labelled with an id outside the configuration
	sigValidOne      // from here on: something verifies
	sigValidSome
	sigValidQuorum
	sigRepeated
	sigQuorumPlusUnknown
	sigKinds
)

type kmsg struct {
	K      string // contrib | begin | timer | connect
	ID     int    // claimed sender id selector
	View   int    // view selector
	Sig    int    // signature variant
	Who    []int  // signers for the valid variants
	Blk    int    // begin: which block
}

type c10kCase struct {
	Scheme    string
	N         int
	BF        int
	Pos       int
	Cache     int
	Connected bool
	Msgs      []kmsg
}

func mod(a, n int) int { return ((a % n) + n) % n }

type snapshot struct {
	View    hotstuff.View
	Agg     string
	Senders string
	AggSent bool
	Sent    int
	QCs     int
}

func prop(c c10kCase) common.Result {
	ms := kit.NewCluster(c.Scheme, c.N)
	positions := tree.DefaultTreePos(c.N)
	id := positions[c.Pos%c.N]
	tr := tree.NewSimple(id, c.BF, positions)
	tr.SetTreeHeightWaitTime(20 * time.Second) // expiry is injected, never slept for
	me := ms[id-1]
	opts := []core.RuntimeOption{core.WithSyncVerification(), core.WithKauriTree(tr)}
	if c.Cache > 0 {
		opts = append(opts, core.WithCache(uint(c.Cache)))
	}
	cfg := core.NewRuntimeConfig(id, me.Cfg.PrivateKey(), opts...)
	for i := 1; i <= c.N; i++ {
		info, _ := me.Cfg.ReplicaInfo(hotstuff.ID(i))
		cfg.AddReplica(info)
	}
	lg := kit.Logger("c10k")
	el := eventloop.New(lg, 1<<10)
	snd := testutil.NewMockSender(id, positions...)
	bc := blockchain.New(el, lg, snd)
	snd.AddBlockchain(bc)
	auth := cert.NewAuthority(cfg, bc, me.Base)
	k := comm.NewKauri(lg, el, cfg, bc, auth, snd)
	nQC := 0
	eventloop.Register(el, func(m hotstuff.NewViewMsg) {
		if _, ok := m.SyncInfo.QC(); ok {
			nQC++
		}
	})
	drain := func() {
		for i := 0; i < 10000 && el.Tick(context.Background()); i++ {
		}
	}
	g := hotstuff.GetGenesis()
	var blocks []*hotstuff.Block
	for i := 0; i < 3; i++ {
		b := kit.NewBlock(g.Hash(), kit.GenesisQC(), &clientpb.Batch{Commands: []*clientpb.Command{{ClientID: 7, SequenceNumber: uint64(i + 1), Data: []byte{byte(i)}}}}, hotstuff.View(i+1), positions[0])
		blocks = append(blocks, b)
		bc.Store(b)
		kit.StoreAll(ms, b)
	}
	if c.Connected {
		el.AddEvent(hotstuff.ReplicaConnectedEvent{})
		drain()
	}
	var cur *hotstuff.Block // the block being aggregated, if any
	snap := func() snapshot {
		agg, senders, aggSent, view := k.VerifState()
		s := snapshot{View: view, AggSent: aggSent, Senders: fmt.Sprint(senders), Sent: len(snd.ContributionsSent()), QCs: nQC}
		if agg != nil {
			s.Agg = fmt.Sprintf("%s|%x", hotstuff.IDSetToString(agg.Participants()), agg.ToBytes())
		}
		return s
	}
	sign := func(who int, m []byte) hotstuff.QuorumSignature {
		s, err := ms[who-1].Base.Sign(m)
		if err != nil {
			panic(err)
		}
		return s
	}
	ecdsaList := func(sigs ...*hotstuffpb.ECDSASignature) *hotstuffpb.QuorumSignature {
		return &hotstuffpb.QuorumSignature{Sig: &hotstuffpb.QuorumSignature_ECDSASigs{ECDSASigs: &hotstuffpb.ECDSAMultiSignature{Sigs: sigs}}}
	}
	eddsaList := func(sigs ...*hotstuffpb.EDDSASignature) *hotstuffpb.QuorumSignature {
		return &hotstuffpb.QuorumSignature{Sig: &hotstuffpb.QuorumSignature_EDDSASigs{EDDSASigs: &hotstuffpb.EDDSAMultiSignature{Sigs: sigs}}}
	}
	blsSig := func(point, field []byte) *hotstuffpb.QuorumSignature {
		return &hotstuffpb.QuorumSignature{Sig: &hotstuffpb.QuorumSignature_BLS12Sig{BLS12Sig: &hotstuffpb.BLS12AggregateSignature{Sig: point, Participants: field}}}
	}
	build := func(m kmsg) (pb *hotstuffpb.QuorumSignature, strict bool) {
		right := []byte("no aggregation is running")
		if cur != nil {
			right = cur.ToBytes()
		}
		one := 1 + mod(m.ID, c.N)
		combine := func(who []int, msg []byte) hotstuff.QuorumSignature {
			seen := map[int]bool{}
			var sigs []hotstuff.QuorumSignature
			for _, w := range who {
				w = 1 + mod(w, c.N)
				if !seen[w] {
					seen[w] = true
					sigs = append(sigs, sign(w, msg))
				}
			}
			if len(sigs) == 0 {
				sigs = append(sigs, sign(one, msg))
			}
			s, err := kit.CombineAny(c.Scheme, me.Base, sigs)
			if err != nil {
				return sigs[0]
			}
			return s
		}
		switch mod(m.Sig, sigKinds) {
		case sigAbsent:
			return nil, true
		case sigEmptyOneof:
			return &hotstuffpb.QuorumSignature{}, true
		case sigWrongScheme:
			if c.Scheme == "eddsa" {
				return ecdsaList(&hotstuffpb.ECDSASignature{Signer: uint32(one), Sig: []byte{0x30, 0x06, 0x02, 0x01, 0x01, 0x02, 0x01, 0x01}}), true
			}
			return eddsaList(&hotstuffpb.EDDSASignature{Signer: uint32(one), Sig: make([]byte, 64)}), true
		case sigEmptyList:
			switch c.Scheme {
			case "eddsa":
				return eddsaList(), true
			case "bls12":
				return blsSig(nil, nil), true
			}
			return ecdsaList(), true
		case sigNilElement:
			switch c.Scheme {
			case "eddsa":
				return eddsaList(&hotstuffpb.EDDSASignature{}, &hotstuffpb.EDDSASignature{Signer: uint32(one), Sig: make([]byte, 64)}), true
			case "bls12":
				return blsSig(make([]byte, 96), []byte{0xff}), true
			}
			return ecdsaList(&hotstuffpb.ECDSASignature{}, &hotstuffpb.ECDSASignature{Signer: uint32(one), Sig: []byte{1}}), true
		case sigGarbage:
			switch c.Scheme {
			case "eddsa":
				return eddsaList(&hotstuffpb.EDDSASignature{Signer: uint32(one), Sig: []byte("garbage")}), true
			case "bls12":
				return blsSig([]byte("garbage-that-is-not-a-point"), []byte{0x0f}), true
			}
			return ecdsaList(&hotstuffpb.ECDSASignature{Signer: uint32(one), Sig: []byte("garbage")}, &hotstuffpb.ECDSASignature{Signer: 77, Sig: nil}), true
		case sigValidWrongMsg:
			return hotstuffpb.QuorumSignatureToProto(combine(m.Who, []byte("some other message"))), true
		case sigValidOtherBlock:
			o := blocks[0]
			if cur == o {
				o = blocks[1]
			}
			return hotstuffpb.QuorumSignatureToProto(combine(m.Who, o.ToBytes())), true
		case sigBLSMalformed:
			return blsSig([]byte{0xff, 0xff, 0xff}, []byte{0x07}), true
		case sigBLSEmpty:
			p := make([]byte, 96)
			p[0] = 0xc0
			return blsSig(p, nil), true
		case sigBLSHugeField:
			p := make([]byte, 96)
			p[0] = 0xc0
			f := make([]byte, 4096)
			for i := range f {
				f[i] = 0xff
			}
			return blsSig(p, f), true
		case sigUnknownSigner:
			pb := hotstuffpb.QuorumSignatureToProto(sign(one, right))
			switch x := pb.Sig.(type) {
			case *hotstuffpb.QuorumSignature_ECDSASigs:
				x.ECDSASigs.Sigs[0].Signer = 77
			case *hotstuffpb.QuorumSignature_EDDSASigs:
				x.EDDSASigs.Sigs[0].Signer = 77
			case *hotstuffpb.QuorumSignature_BLS12Sig:
				f := make([]byte, 10)
				f[9] = 0x10 // only id 77
				x.BLS12Sig.Participants = f
			}
			return pb, true
		case sigValidOne:
			return hotstuffpb.QuorumSignatureToProto(sign(one, right)), cur == nil
		case sigValidSome:
			return hotstuffpb.QuorumSignatureToProto(combine(m.Who, right)), cur == nil
		case sigValidQuorum:
			var all []int
			for i := 0; i < hotstuff.QuorumSize(c.N); i++ {
				all = append(all, m.ID+i)
			}
			return hotstuffpb.QuorumSignatureToProto(combine(all, right)), cur == nil
		case sigRepeated:
			s := sign(one, right)
			pb := hotstuffpb.QuorumSignatureToProto(s)
			switch x := pb.Sig.(type) {
			case *hotstuffpb.QuorumSignature_ECDSASigs:
				x.ECDSASigs.Sigs = append(x.ECDSASigs.Sigs, x.ECDSASigs.Sigs[0], x.ECDSASigs.Sigs[0])
			case *hotstuffpb.QuorumSignature_EDDSASigs:
				x.EDDSASigs.Sigs = append(x.EDDSASigs.Sigs, x.EDDSASigs.Sigs[0], x.EDDSASigs.Sigs[0])
			}
			return pb, cur == nil
		case sigQuorumPlusUnknown:
			var all []int
			for i := 0; i < hotstuff.QuorumSize(c.N); i++ {
				all = append(all, m.ID+i)
			}
			pb := hotstuffpb.QuorumSignatureToProto(combine(all, right))
			switch x := pb.Sig.(type) {
			case *hotstuffpb.QuorumSignature_ECDSASigs:
				x.ECDSASigs.Sigs = append(x.ECDSASigs.Sigs, &hotstuffpb.ECDSASignature{Signer: 77, Sig: x.ECDSASigs.Sigs[0].Sig})
			case *hotstuffpb.QuorumSignature_EDDSASigs:
				x.EDDSASigs.Sigs = append(x.EDDSASigs.Sigs, &hotstuffpb.EDDSASignature{Signer: 77, Sig: x.EDDSASigs.Sigs[0].Sig})
			case *hotstuffpb.QuorumSignature_BLS12Sig:
				f := append([]byte(nil), x.BLS12Sig.Participants...)
				for len(f) < 10 {
					f = append(f, 0)
				}
				f[9] |= 0x10
				x.BLS12Sig.Participants = f
			}
			return pb, cur == nil
		}
		return nil, true
	}
	reached, hostile := 0, 0
	var classes []string
	for i, m := range c.Msgs {
		desc := fmt.Sprintf("%s n=%d bf=%d subject=%d (position %d) cache=%d connected=%v message #%d %+v\nhistory %+v", c.Scheme, c.N, c.BF, id, c.Pos%c.N, c.Cache, c.Connected, i, m, c.Msgs[:i+1])
		var panicMsg, stack string
		run := func(f func()) {
			defer func() {
				if r := recover(); r != nil {
					panicMsg, stack = fmt.Sprint(r), string(debug.Stack())
				}
			}()
			f()
			drain()
		}
		switch m.K {
		case "connect":
			run(func() { el.AddEvent(hotstuff.ReplicaConnectedEvent{}) })
			c.Connected = true
		case "begin":
			// the replica's own consensus starts an aggregation round for a block it voted for (never backwards in view)
			b := blocks[mod(m.Blk, len(blocks))]
			if cur != nil && b.View() <= cur.View() {
				continue
			}
			pc, err := auth.CreatePartialCert(b)
			if err != nil {
				return common.Fail("harness", "own vote: %v", err)
			}
			run(func() {
				if err := k.Aggregate(&hotstuff.ProposeMsg{ID: positions[0], Block: b}, pc); err != nil {
					panic(fmt.Sprintf("harness: begin: %v", err))
				}
			})
			if c.Connected {
				cur = b
			}
		case "timer":
			_, _, _, v := k.VerifState()
			run(func() { el.AddEvent(comm.VerifWaitTimerExpired(hotstuff.View(uint64(v) + uint64(mod(m.View, 3)) - 1))) })
		case "contrib":
			_, _, _, v := k.VerifState()
			var view uint64
			switch mod(m.View, 6) {
			case 0, 1, 2:
				view = uint64(v)
			case 3:
				view = uint64(v) + 1
			case 4:
				view = 0
			case 5:
				view = ^uint64(0)
			}
			pb, strict := build(m)
			var cid uint32
			switch mod(m.ID, c.N+3) {
			case c.N:
				cid = 0
			case c.N + 1:
				cid = 77
			case c.N + 2:
				cid = ^uint32(0)
			default:
				cid = uint32(1 + mod(m.ID, c.N))
			}
			before := snap()
			run(func() { el.AddEvent(&kauripb.Contribution{ID: cid, View: view, Signature: pb}) })
			if panicMsg == "" {
				if view == uint64(v) {
					reached++
				}
				if strict {
					hostile++
					if after := snap(); after != before {
						return common.Fail("kauri-state-moved:"+fmt.Sprint(mod(m.Sig, sigKinds)), "a contribution in which nothing verifies changed the tree node's state:\nbefore %+v\nafter  %+v\n%s", before, after, desc)
					}
				}
			}
			classes = append(classes, fmt.Sprintf("sig=%d", mod(m.Sig, sigKinds)))
		default:
			continue
		}
		if panicMsg != "" {
			return common.Fail("panic:kauri:"+m.K+":"+common.TopRepoFrame(stack), "panic: %s\n%s\n%s", panicMsg, desc, stack)
		}
	}
	classes = append(classes, c.Scheme, fmt.Sprintf("cache=%v", c.Cache > 0))
	if cur != nil {
		classes = append(classes, "aggregating")
	}
	return common.OK(reached > 0 && hostile > 0 && cur != nil, "", classes...)
}

func gen(rt *rapid.T) c10kCase {
	c := c10kCase{Scheme: rapid.SampledFrom([]string{"ecdsa", "eddsa", "ecdsa", "eddsa", "bls12"}).Draw(rt, "scheme")}
	c.N = rapid.SampledFrom([]int{4, 7, 7, 10}).Draw(rt, "n")
	if c.Scheme == "bls12" && c.N > 7 {
		c.N = 7
	}
	c.BF = rapid.IntRange(2, 3).Draw(rt, "bf")
	c.Pos = rapid.IntRange(0, c.N-1).Draw(rt, "pos")
	c.Cache = rapid.SampledFrom([]int{0, 0, 1, 10}).Draw(rt, "cache")
	c.Connected = rapid.SampledFrom([]bool{true, true, true, false}).Draw(rt, "connected")
	n := rapid.IntRange(1, 10).Draw(rt, "nmsgs")
	for i := 0; i < n; i++ {
		m := kmsg{K: rapid.SampledFrom([]string{"contrib", "contrib", "contrib", "contrib", "contrib", "begin", "begin", "timer", "connect"}).Draw(rt, "k")}
		m.ID = rapid.IntRange(0, 15).Draw(rt, "id")
		m.View = rapid.IntRange(0, 5).Draw(rt, "view")
		m.Sig = rapid.IntRange(0, sigKinds-1).Draw(rt, "sig")
		m.Blk = rapid.IntRange(0, 2).Draw(rt, "blk")
		if s := m.Sig; s == sigValidSome || s == sigValidWrongMsg || s == sigValidOtherBlock {
			m.Who = rapid.SliceOfN(rapid.IntRange(0, c.N-1), 1, 4).Draw(rt, "who")
		}
		c.Msgs = append(c.Msgs, m)
	}
	return c
}

func TestC10KauriContributions(t *testing.T) {
	common.Check(t, "C10", "TestC10KauriContributions", 6000, 150000, gen, prop)
}

// TestC09RaceKauriRounds (property C09, "goroutine interleavings ... tree aggregation"): the same histories - several
// aggregation rounds for blocks of rising view with contributions and timer expiries in between - under the race detector.
// A tree node starts one goroutine per round (the wait timer); what that goroutine reads must not be written by the next
// round meanwhile. The verdict is the race detector's.
func TestC09RaceKauriRounds(t *testing.T) {
	common.Check(t, "C09", "TestC09RaceKauriRounds", 400, 8000, gen, prop)
}
