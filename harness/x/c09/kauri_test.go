package c09

// C09 (tree aggregation) — a node of the Kauri aggregation tree produces a quorum certificate exactly when valid votes
// from a quorum have been merged; invalid, overlapping or foreign contributions never count; everything it emits verifies.

import (
	"context"
	"fmt"
	"sort"
	"testing"
	"time"

	"github.com/relab/hotstuff"
	"github.com/relab/hotstuff/core"
	"github.com/relab/hotstuff/core/eventloop"
	"github.com/relab/hotstuff/internal/proto/clientpb"
	"github.com/relab/hotstuff/internal/proto/hotstuffpb"
	"github.com/relab/hotstuff/internal/proto/kauripb"
	"github.com/relab/hotstuff/internal/testutil"
	"github.com/relab/hotstuff/internal/tree"
	"github.com/relab/hotstuff/protocol/comm"
	"github.com/relab/hotstuff/security/blockchain"
	"github.com/relab/hotstuff/security/cert"
	"github.com/relab/hotstuff/security/crypto"
	"github.com/relab/hotstuff/verifx/common"
	"github.com/relab/hotstuff/verifx/kit"
	"pgregory.net/rapid"
)

type kop struct {
	K       string // contrib | timer
	Sender  int
	Signers []int  // who really signed the contribution (replica ids)
	Bad     string // "" | garbage | other-block | other-view | non-member | nil-sig
}

type kauriCase struct {
	Scheme string
	N      int
	BF     int
	Pos    int // position of the subject in the tree order (0 = root)
	Cache  int // capacity of the subject's signature cache (0 = none)
	Ops    []kop
}

func kauriProp(c kauriCase) common.Result {
	ms := kit.NewCluster(c.Scheme, c.N)
	positions := tree.DefaultTreePos(c.N)
	id := positions[c.Pos%c.N]
	tr := tree.NewSimple(id, c.BF, positions)
	tr.SetTreeHeightWaitTime(20 * time.Second) // the wait goroutine never fires inside a case; expiry is injected
	// the subject: same keys and membership as member id, plus the tree
	me := ms[id-1]
	opts := []core.RuntimeOption{core.WithSyncVerification(), core.WithKauriTree(tr)}
	if c.Cache > 0 {
		opts = append(opts, core.WithCache(uint(c.Cache)))
	}
	cfg := core.NewRuntimeConfig(id, me.Cfg.PrivateKey(), opts...)
	for i := 1; i <= c.N; i++ {
		info, _ := me.Cfg.ReplicaInfo(hotstuff.ID(i))
		cfg.AddReplica(info)
	}
	lg := kit.Logger("kauri")
	el := eventloop.New(lg, 1<<10)
	snd := testutil.NewMockSender(id, positions...)
	bc := blockchain.New(el, lg, snd)
	snd.AddBlockchain(bc)
	auth := cert.NewAuthority(cfg, bc, me.Base)
	k := comm.NewKauri(lg, el, cfg, bc, auth, snd)
	_ = k
	var qcs []hotstuff.QuorumCert
	eventloop.Register(el, func(m hotstuff.NewViewMsg) {
		if qc, ok := m.SyncInfo.QC(); ok {
			qcs = append(qcs, qc)
		}
	})
	drain := func() {
		for i := 0; i < 10000 && el.Tick(context.Background()); i++ {
		}
	}
	el.AddEvent(hotstuff.ReplicaConnectedEvent{})
	drain()
	g := hotstuff.GetGenesis()
	mk := func(tag string) *hotstuff.Block {
		return kit.NewBlock(g.Hash(), kit.GenesisQC(), &clientpb.Batch{Commands: []*clientpb.Command{{ClientID: 7, SequenceNumber: 1, Data: []byte(tag)}}}, 1, positions[0])
	}
	b, other := mk("b"), mk("other")
	bc.Store(b)
	bc.Store(other)
	kit.StoreAll(ms, b)
	kit.StoreAll(ms, other)
	pc, err := auth.CreatePartialCert(b)
	if err != nil {
		return common.Fail("harness", "own vote: %v", err)
	}
	prop := &hotstuff.ProposeMsg{ID: positions[0], Block: b}
	if err := k.Aggregate(prop, pc); err != nil {
		return common.Fail("harness", "begin: %v", err)
	}
	drain()
	q := hotstuff.QuorumSize(c.N)
	verifier := ms[(int(id))%c.N] // another replica
	// reference state
	agg := map[int]bool{int(id): true}
	validSeen := map[int]bool{int(id): true} // everybody whose valid signature over the block has reached the subject
	timerFired := false
	hostile, merged, overlapRejected := 0, 0, 0
	nQC, nSent := 0, len(snd.ContributionsSent())
	subtree := tr.SubTree()
	isLeaf := len(tr.ReplicaChildren()) == 0
	senders := map[int]bool{}
	sentUp := isLeaf // a leaf sends its own vote up at once
	checkEmitted := func(desc string) *common.Result {
		for _, qc := range qcs[nQC:] {
			if qc.BlockHash() != b.Hash() || qc.View() != b.View() {
				r := common.Fail("kauri-qc-wrong-target", "the emitted certificate names block %s view %d\n%s", qc.BlockHash().SmallString(), qc.View(), desc)
				return &r
			}
			bad := false
			qc.Signature().Participants().ForEach(func(i hotstuff.ID) {
				if !validSeen[int(i)] {
					bad = true
				}
			})
			if bad {
				r := common.Fail("kauri-qc-foreign-signers", "the emitted certificate has signers %s but valid signatures only came from %v\n%s", hotstuff.IDSetToString(qc.Signature().Participants()), keysOf(validSeen), desc)
				return &r
			}
			if err := verifier.Auth.VerifyQuorumCert(qc); err != nil {
				if kit.QuirkQC(verifier, qc) {
					r := common.Fail(kit.KnownBLS, "the emitted certificate is rejected at replica %d (%v) although its signature satisfies the verification equation in other arrangements\n%s", verifier.ID, err, desc)
					return &r
				}
				r := common.Fail("kauri-qc-does-not-verify", "the emitted certificate (signers %s) does not verify at replica %d: %v\n%s", hotstuff.IDSetToString(qc.Signature().Participants()), verifier.ID, err, desc)
				return &r
			}
		}
		nQC = len(qcs)
		sent := snd.ContributionsSent()
		for _, cm := range sent[nSent:] {
			if cm.QC == nil {
				r := common.Fail("kauri-nil-contribution", "a nil aggregate was sent to the parent\n%s", desc)
				return &r
			}
			bad := false
			cm.QC.Participants().ForEach(func(i hotstuff.ID) {
				if !validSeen[int(i)] {
					bad = true
				}
			})
			if bad {
				r := common.Fail("kauri-contribution-foreign-signers", "the aggregate sent to the parent has signers %s but valid signatures only came from %v\n%s", hotstuff.IDSetToString(cm.QC.Participants()), keysOf(validSeen), desc)
				return &r
			}
			if err := verifier.Auth.Verify(cm.QC, b.ToBytes()); err != nil {
				if kit.QuirkSig(verifier.Cfg, verifier.Base, cm.QC, b.ToBytes()) {
					r := common.Fail(kit.KnownBLS, "the aggregate sent to the parent is rejected at replica %d (%v) although it satisfies the verification equation in other arrangements\n%s", verifier.ID, err, desc)
					return &r
				}
				r := common.Fail("kauri-contribution-does-not-verify", "the aggregate sent to the parent (signers %s) does not verify: %v\n%s", hotstuff.IDSetToString(cm.QC.Participants()), err, desc)
				return &r
			}
		}
		nSent = len(sent)
		return nil
	}
	if r := checkEmitted("after begin"); r != nil {
		return *r
	}
	if isLeaf && nSent != 1 {
		return common.Fail("kauri-leaf-silent", "a leaf must send its own vote to its parent at once (sent %d)", nSent)
	}
	for step, op := range c.Ops {
		desc := fmt.Sprintf("%s n=%d bf=%d subject=%d (position %d) step %d %+v; reference aggregate %v, quorum %d\nhistory: %+v", c.Scheme, c.N, c.BF, id, c.Pos%c.N, step, op, keysOf(agg), q, c.Ops[:step+1])
		qcBefore := len(qcs)
		switch op.K {
		case "timer":
			if timerFired {
				continue // one wait timer per aggregation round
			}
			el.AddEvent(comm.VerifWaitTimerExpired(b.View()))
			drain()
			if !timerFired && !sentUp {
				if len(snd.ContributionsSent()) == nSent && id != tr.Root() {
					return common.Fail("kauri-timer-sends-nothing", "the wait timer expired before the aggregate was sent, but nothing was sent to the parent\n%s", desc)
				}
			}
			timerFired = true
		case "contrib":
			var members []*kit.Member
			set := map[int]bool{}
			for _, s := range op.Signers {
				if s >= 1 && s <= c.N && !set[s] && s != int(id) {
					set[s] = true
					members = append(members, ms[s-1])
				}
			}
			if len(members) == 0 {
				continue
			}
			msgBytes := b.ToBytes()
			view := uint64(b.View())
			switch op.Bad {
			case "garbage":
				msgBytes = []byte("garbage")
			case "other-block":
				msgBytes = other.ToBytes()
			case "other-view":
				view = 7
			}
			sig, err := kit.CombineAny(c.Scheme, me.Base, kit.SignEach(members, msgBytes))
			if err != nil {
				continue
			}
			if op.Bad == "non-member" {
				f := kit.NewForeignMember(c.Scheme)
				fs, _ := f.Base.Sign(msgBytes)
				sig = relabel(fs, hotstuff.ID(c.N+1))
			}
			pb := hotstuffpb.QuorumSignatureToProto(sig)
			if op.Bad == "nil-sig" {
				pb = nil
			}
			el.AddEvent(&kauripb.Contribution{ID: uint32(op.Sender%c.N + 1), View: view, Signature: pb})
			drain()
			valid := op.Bad == ""
			if !valid {
				hostile++
			}
			if valid && c.Scheme == "bls12" && kit.QuirkSig(cfg, me.Base, sig, msgBytes) {
				return common.Fail(kit.KnownBLS, "the tree node's scheme rejects a valid BLS contribution although its signature satisfies the verification equation in other arrangements\n%s", desc)
			}
			// the wait timer ends the round of an inner node (it has forwarded what it had); the root has nobody to forward
			// to: the votes it holds and the ones still arriving keep counting
			if valid && (!timerFired || id == tr.Root()) {
				for s := range set {
					validSeen[s] = true
				}
				overlap := false
				for s := range set {
					if agg[s] {
						overlap = true
					}
				}
				if overlap {
					overlapRejected++
				} else {
					for s := range set {
						agg[s] = true
					}
					merged++
					senders[op.Sender%c.N+1] = true
					// quorum reached by this merge: a certificate must be announced
					if len(agg) >= q && len(qcs) == qcBefore {
						return common.Fail("kauri-qc-missing", "merging this valid, non-overlapping contribution completes a quorum (%v) but no certificate was announced\n%s", keysOf(agg), desc)
					}
					if len(agg) >= q {
						last := qcs[len(qcs)-1]
						if last.Signature().Participants().Len() != len(agg) {
							return common.Fail("kauri-qc-signers", "the announced certificate has signers %s, the merged aggregate is %v\n%s", hotstuff.IDSetToString(last.Signature().Participants()), keysOf(agg), desc)
						}
					}
					full := true
					for _, s := range subtree {
						if !senders[int(s)] {
							full = false
						}
					}
					if full {
						sentUp = true
					}
				}
			} else if valid {
				for s := range set {
					validSeen[s] = true
				}
			}
			if (!valid || len(agg) < q) && (!timerFired || id == tr.Root()) && len(qcs) != qcBefore && len(agg) < q {
				return common.Fail("kauri-qc-before-quorum", "a certificate was announced although the merged valid votes are only %v\n%s", keysOf(agg), desc)
			}
		}
		if r := checkEmitted(desc); r != nil {
			return *r
		}
	}
	cls := []string{c.Scheme, fmt.Sprintf("n=%d", c.N), map[bool]string{true: "leaf", false: "inner-or-root"}[isLeaf]}
	if id == tr.Root() {
		cls = append(cls, "root")
	}
	if len(qcs) > 0 {
		cls = append(cls, "qc-announced")
	}
	if overlapRejected > 0 {
		cls = append(cls, "overlap-rejected")
	}
	if hostile > 0 {
		cls = append(cls, "hostile-contribution")
	}
	return common.OK(merged > 0 && (hostile > 0 || overlapRejected > 0), "", cls...)
}

func keysOf(m map[int]bool) []int {
	var l []int
	for k := range m {
		l = append(l, k)
	}
	sort.Ints(l)
	return l
}

func relabel(s hotstuff.QuorumSignature, id hotstuff.ID) hotstuff.QuorumSignature {
	switch m := s.(type) {
	case crypto.Multi[*crypto.ECDSASignature]:
		return crypto.NewMulti(crypto.RestoreECDSASignature(m[0].ToBytes(), id))
	case crypto.Multi[*crypto.EDDSASignature]:
		return crypto.NewMulti(crypto.RestoreEDDSASignature(m[0].ToBytes(), id))
	case *crypto.BLS12AggregateSignature:
		var bf crypto.Bitfield
		bf.Add(id)
		r, err := crypto.RestoreBLS12AggregateSignature(m.ToBytes(), bf)
		if err != nil {
			panic(err)
		}
		return r
	}
	return s
}

func TestC09Kauri(t *testing.T) {
	common.Check(t, "C09", "TestC09Kauri", 5000, 120000, func(rt *rapid.T) kauriCase {
		c := kauriCase{Scheme: rapid.SampledFrom([]string{"ecdsa", "eddsa", "ecdsa", "eddsa", "bls12"}).Draw(rt, "scheme")}
		c.N = rapid.SampledFrom([]int{7, 7, 10, 13}).Draw(rt, "n")
		if c.Scheme == "bls12" {
			c.N = 7
		}
		c.BF = rapid.IntRange(2, 3).Draw(rt, "bf")
		c.Pos = rapid.SampledFrom([]int{0, 0, 1, 2, 3, c.N - 1}).Draw(rt, "pos")
		c.Cache = rapid.SampledFrom([]int{0, 0, 1, 2, 100}).Draw(rt, "cache")
		n := rapid.IntRange(1, 12).Draw(rt, "nops")
		for i := 0; i < n; i++ {
			op := kop{K: rapid.SampledFrom([]string{"contrib", "contrib", "contrib", "contrib", "contrib", "timer"}).Draw(rt, "k")}
			op.Sender = rapid.IntRange(0, c.N-1).Draw(rt, "sender")
			op.Signers = rapid.SliceOfNDistinct(rapid.IntRange(1, c.N), 1, 4, func(i int) int { return i }).Draw(rt, "signers")
			op.Bad = rapid.SampledFrom([]string{"", "", "", "", "", "garbage", "other-block", "other-view", "non-member", "nil-sig"}).Draw(rt, "bad")
			c.Ops = append(c.Ops, op)
		}
		return c
	}, kauriProp)
}
