package c02

// C02 at the proposal entry point: Authority.VerifyAnyQC is what a voter runs on every proposal - the block's certificate,
// and with aggregate QCs enabled the aggregate certificate that comes with it. Accepting a proposal says that both verify.

import (
	"fmt"
	"runtime/debug"
	"testing"

	"github.com/relab/hotstuff"
	cs "github.com/relab/hotstuff/verifx/certspec"
	"github.com/relab/hotstuff/verifx/common"
	"github.com/relab/hotstuff/verifx/kit"
	"pgregory.net/rapid"
)

type propCase struct {
	Agg     *cs.Spec // nil: the proposal carries no aggregate certificate
	BlockQC int      // pool index of the block's certificate
	AggOn   bool     // the verifier runs with aggregate QCs enabled
	Scheme  string
	N       int
	Cache   int
	Verif   int
}

var poolNames = [cs.PoolSize]string{"genesis", "b0", "b1", "b3", "sub-quorum", "relabel-view-9", "relabel-view-huge", "unknown-block", "repeated-signer", "genesis-view-7", "nil-signature", "b3-signers-relabelled", "b3-resplit", "genesis-with-signature", "b3-other-quorum", "b3-retyped"}

func proposalProp(c propCase) common.Result {
	w := cs.GetWorld(c.Scheme, c.N)
	var agg *hotstuff.AggregateQC
	var built cs.Built
	view := hotstuff.View(9)
	if c.Agg != nil {
		var err error
		if built, err = w.Build(*c.Agg); err != nil {
			if c.Agg.ViaAPI {
				return common.OK(false, "", "aggregate cannot be assembled")
			}
			return common.Fail("harness", "build: %v", err)
		}
		agg = &built.AggQC
		view = hotstuff.View(c.Agg.ClaimView + 1)
	}
	idx := ((c.BlockQC % cs.PoolSize) + cs.PoolSize) % cs.PoolSize
	qc := w.Pool[idx]
	blk := kit.NewBlock(qc.BlockHash(), qc, nil, view, 1)
	auth := w.Auth(c.Verif, c.Cache, c.AggOn)
	var err error
	panicked := false
	func() {
		defer func() {
			if r := recover(); r != nil {
				panicked, err = true, fmt.Errorf("panic: %v", r)
			}
		}()
		// several presentations: the verdict may not depend on the order in which the attested certificates are visited
		for round := 0; round < 6 && err == nil; round++ {
			err = auth.VerifyAnyQC(&hotstuff.ProposeMsg{ID: 1, Block: blk, AggregateQC: agg})
		}
	}()
	desc := fmt.Sprintf("%s n=%d q=%d cache=%d aggregate-QCs-enabled=%v verifier=%d; block certificate: pool entry %q (valid: %v, certifies a block of view %d); aggregate: %s",
		c.Scheme, c.N, w.Q, c.Cache, c.AggOn, c.Verif, poolNames[idx], w.PoolValid(idx), cs.PoolBlockView[idx], describeAgg(c.Agg, built))
	useAgg := c.AggOn && agg != nil
	if err == nil {
		if !w.PoolValid(idx) {
			return common.Fail("anyqc-accepts-invalid-block-certificate:"+poolNames[idx], "the proposal was ACCEPTED although its block certificate is not valid\n%s", desc)
		}
		if useAgg {
			if built.ValidSigners < w.Q {
				return common.Fail("anyqc-accepts-aggregate-without-quorum", "the proposal was ACCEPTED although only %d distinct configured replicas validly signed their part of the aggregate certificate\n%s", built.ValidSigners, desc)
			}
			if built.BestValidView != int64(cs.PoolBlockView[idx]) {
				return common.Fail("anyqc-block-certificate-not-the-high-qc", "the proposal was ACCEPTED although the block certificate (block view %d) is not the highest valid certificate attested in the aggregate (block view %d)\n%s", cs.PoolBlockView[idx], built.BestValidView, desc)
			}
		}
	} else if !panicked {
		honest := w.PoolValid(idx) && (!useAgg || (built.AllHonest && built.BestValidView == int64(cs.PoolBlockView[idx]) && attested(c.Agg, idx)))
		if honest {
			if c.Scheme == "bls12" && (kit.QuirkQC(w.Members[c.Verif-1], qc, err) || (useAgg && kit.QuirkAgg(w.Members[c.Verif-1], *agg, err))) {
				return common.Fail(kit.KnownBLS, "an honest proposal is rejected (%v) although the signatures satisfy the verification equation in other arrangements\n%s", err, desc)
			}
			return common.Fail("anyqc-rejects-honest", "an honest proposal (valid block certificate that is the aggregate's highest attested one) was REJECTED: %v\n%s", err, desc)
		}
	}
	verd := "reject"
	if err == nil {
		verd = "accept"
	}
	cl := []string{"proposal", c.Scheme, verd, "blockqc=" + poolNames[idx]}
	if useAgg {
		cl = append(cl, "with-aggregate")
	}
	return common.OK(!w.PoolValid(idx) || (useAgg && !built.AllHonest), fmt.Sprintf("%s|%d|%v|%v|%s|%s", c.Scheme, c.N, c.AggOn, useAgg, poolNames[idx], verd), cl...)
}

// attested: the pool entry is one of the certificates the aggregate's signers attest (so that it can be "the" high QC).
func attested(s *cs.Spec, idx int) bool {
	if s == nil {
		return false
	}
	for _, m := range s.Map {
		if ((m.QC%cs.PoolSize)+cs.PoolSize)%cs.PoolSize == idx {
			return true
		}
	}
	return false
}

func describeAgg(s *cs.Spec, b cs.Built) string {
	if s == nil {
		return "none"
	}
	return fmt.Sprintf("view %d, map %v, entry classes %v, valid distinct signers %d, all honest %v, best valid attested block view %d", s.ClaimView, s.Map, b.EntryClasses, b.ValidSigners, b.AllHonest, b.BestValidView)
}

func TestC02Proposals(t *testing.T) {
	common.Check(t, id, "TestC02Proposals", 4000, 80000, genProposal, proposalProp)
}

// TestC10ProposalCertificates (property C10): the same proposals - genuine and hostile aggregate certificates combined with
// every prepared block certificate, among them certificates WITHOUT a signature next to signed ones for the same block - must
// never make proposal verification panic (it runs on the replica's event loop; nothing recovers there).
func TestC10ProposalCertificates(t *testing.T) {
	common.Check(t, "C10", "TestC10ProposalCertificates", 4000, 80000, genProposal, func(c propCase) common.Result {
		w := cs.GetWorld(c.Scheme, c.N)
		var agg *hotstuff.AggregateQC
		view := hotstuff.View(9)
		if c.Agg != nil {
			built, err := w.Build(*c.Agg)
			if err != nil {
				return common.OK(false, "", "aggregate cannot be assembled")
			}
			agg = &built.AggQC
			view = hotstuff.View(c.Agg.ClaimView + 1)
		}
		idx := ((c.BlockQC % cs.PoolSize) + cs.PoolSize) % cs.PoolSize
		qc := w.Pool[idx]
		blk := kit.NewBlock(qc.BlockHash(), qc, nil, view, 1)
		auth := w.Auth(c.Verif, c.Cache, c.AggOn)
		var panicMsg, stack string
		var err error
		func() {
			defer func() {
				if r := recover(); r != nil {
					panicMsg, stack = fmt.Sprint(r), string(debug.Stack())
				}
			}()
			err = auth.VerifyAnyQC(&hotstuff.ProposeMsg{ID: 1, Block: blk, AggregateQC: agg})
		}()
		if panicMsg != "" {
			return common.Fail("panic:anyqc:"+common.TopRepoFrame(stack), "proposal verification panicked: %s\n%s n=%d aggregate-QCs-enabled=%v block certificate %q, aggregate %v\n%s", panicMsg, c.Scheme, c.N, c.AggOn, poolNames[idx], c.Agg != nil, stack)
		}
		verd := "reject"
		if err == nil {
			verd = "accept"
		}
		return common.OK(agg != nil && c.AggOn, fmt.Sprintf("%s|%d|%v|%s|%s", c.Scheme, c.N, c.AggOn, poolNames[idx], verd), "anyqc "+verd, "anyqc blockqc="+poolNames[idx])
	})
}

func genProposal(rt *rapid.T) propCase {
		c := propCase{AggOn: rapid.IntRange(0, 3).Draw(rt, "aggon") > 0}
		var s cs.Spec
		for tries := 0; ; tries++ {
			s = genSpec(rt, 7, []string{"ecdsa", "eddsa", "ecdsa", "eddsa", "bls12"})
			if s.Kind == "aggqc" || tries > 20 {
				break
			}
		}
		c.Scheme, c.N, c.Cache = s.Scheme, s.N, s.Cache
		c.Verif = rapid.IntRange(1, c.N).Draw(rt, "verifier")
		if s.Kind == "aggqc" && rapid.IntRange(0, 4).Draw(rt, "withagg") > 0 {
			s.Verifier = c.Verif
			c.Agg = &s
			if rapid.IntRange(0, 2).Draw(rt, "two-collectors") == 0 {
				// the replicas learnt the newest certificate from two collectors: same block, different signatures
				for i := range s.Map {
					if p := ((s.Map[i].QC % cs.PoolSize) + cs.PoolSize) % cs.PoolSize; p == cs.PoolB3 && i%2 == 1 {
						s.Map[i].QC = cs.PoolB3Other
						for k := range s.Entries { // what that replica signed goes along
							if s.Entries[k].SID == s.Map[i].ID && ((s.Entries[k].SQC%cs.PoolSize)+cs.PoolSize)%cs.PoolSize == cs.PoolB3 {
								s.Entries[k].SQC = cs.PoolB3Other
							}
						}
					}
				}
			}
		}
		// the block certificate: mostly one the aggregate attests or its relabelled twin, otherwise any pool entry
		switch rapid.IntRange(0, 5).Draw(rt, "bq") {
		case 0, 1:
			best, bv := cs.PoolB3, int64(-1)
			for _, m := range s.Map {
				p := ((m.QC % cs.PoolSize) + cs.PoolSize) % cs.PoolSize
				if int64(cs.PoolBlockView[p]) > bv && (p == cs.PoolGenesis || p == cs.PoolB0 || p == cs.PoolB1 || p == cs.PoolB3 || p == cs.PoolB3Other) {
					best, bv = p, int64(cs.PoolBlockView[p])
				}
			}
			c.BlockQC = best
		case 2:
			c.BlockQC = rapid.SampledFrom([]int{cs.PoolB3Relabel, cs.PoolB3Resplit, cs.PoolRepeated, cs.PoolSubQuorum, cs.PoolGenesisSigned, cs.PoolNilSig, cs.PoolB3Retyped}).Draw(rt, "twin")
		default:
			c.BlockQC = rapid.IntRange(0, cs.PoolSize-1).Draw(rt, "pool")
		}
	return c
}

// TestC02PoolEncodingsDistinct: the bytes a certificate contributes to what others sign (timeout messages, block hashes)
// tell apart any two prepared certificates that differ in validity, in the kind of their signature object or in their
// signers - otherwise a signature over one is a signature over the other, and a collector can swap them.
func TestC02PoolEncodingsDistinct(t *testing.T) {
	type pc struct {
		Scheme string
		N      int
	}
	common.Exhaustive(t, id, "TestC02PoolEncodingsDistinct", func(yield func(pc) bool) {
		for _, s := range kit.Schemes {
			for n := 2; n <= 7; n++ {
				if !yield(pc{s, n}) {
					return
				}
			}
		}
	}, func(c pc) common.Result {
		w := cs.GetWorld(c.Scheme, c.N)
		kind := func(q hotstuff.QuorumCert) string {
			if q.Signature() == nil {
				return "no signature"
			}
			var ids []hotstuff.ID
			q.Signature().Participants().ForEach(func(i hotstuff.ID) { ids = append(ids, i) })
			return fmt.Sprintf("%T %v", q.Signature(), ids)
		}
		for i := 0; i < cs.PoolSize; i++ {
			for j := i + 1; j < cs.PoolSize; j++ {
				a, b := w.Pool[i], w.Pool[j]
				if string(a.ToBytes()) != string(b.ToBytes()) {
					continue
				}
				if w.PoolValid(i) != w.PoolValid(j) || kind(a) != kind(b) {
					return common.Fail("certificates-encode-alike", "%s n=%d: the prepared certificates %q (valid %v, %s) and %q (valid %v, %s) have the same bytes-to-sign",
						c.Scheme, c.N, poolNames[i], w.PoolValid(i), kind(a), poolNames[j], w.PoolValid(j), kind(b))
				}
			}
		}
		return common.OK(true, fmt.Sprintf("%s/%d", c.Scheme, c.N), "pool encodings")
	})
}
