package c02

// C02 — accepted certificates carry a quorum of distinct valid signatures.

import (
	"fmt"
	"testing"

	"github.com/relab/hotstuff"
	cs "github.com/relab/hotstuff/verifx/certspec"
	"github.com/relab/hotstuff/verifx/common"
	"github.com/relab/hotstuff/verifx/kit"
	"pgregory.net/rapid"
)

const id = "C02"

var hugeViews = []uint64{1 << 63, ^uint64(0), 1 << 32}

// ---------------------------------------------------------------------------------------------------------------
// generator: pick a mutation class, then build a specification for it

var classes = []string{
	"honest-api", "honest-manual", "repeated-signer", "sub-quorum", "unknown-signer", "foreign-message",
	"relabel-view", "relabel-hash", "swapped-ids", "empty-sig", "garbage-sig", "mixed-views", "extra-map-entry",
	"valid-plus-invalid", "wrong-key", "free-form", "unsigned-map-entry", "labels-without-share", "huge-view-entry",
}

func subset(rt *rapid.T, n, k int, label string) []int {
	// k distinct ids from 1..n in generated order
	perm := rapid.Permutation(seq(n)).Draw(rt, label)
	return perm[:k]
}

func seq(n int) []int {
	s := make([]int, n)
	for i := range s {
		s[i] = i + 1
	}
	return s
}

func genSpec(rt *rapid.T, maxN int, schemes []string) cs.Spec {
	s := cs.Spec{}
	s.Scheme = rapid.SampledFrom(schemes).Draw(rt, "scheme")
	if s.Scheme == "bls12" {
		s.N = rapid.IntRange(1, min(maxN, 7)).Draw(rt, "n")
		if common.Tier() == "thorough" {
			s.N = rapid.IntRange(1, maxN).Draw(rt, "n13")
		}
	} else {
		s.N = rapid.IntRange(1, maxN).Draw(rt, "n")
	}
	s.Cache = rapid.SampledFrom([]int{0, 0, 3, 100}).Draw(rt, "cache")
	s.Kind = rapid.SampledFrom([]string{"qc", "tc", "aggqc"}).Draw(rt, "kind")
	n := s.N
	q := hotstuff.QuorumSize(n)
	class := rapid.SampledFrom(classes).Draw(rt, "class")
	// honest base: k >= q distinct signers over the right content
	k := rapid.IntRange(q, n).Draw(rt, "k")
	signers := subset(rt, n, k, "signers")
	switch s.Kind {
	case "qc":
		s.ClaimBlk = rapid.SampledFrom([]int{0, 1, 2, 3, 3, 3}).Draw(rt, "blk")
		s.ClaimView = []uint64{1, 2, 2, 5}[s.ClaimBlk]
	case "tc":
		s.ClaimView = rapid.SampledFrom([]uint64{1, 2, 7, 1 << 40, ^uint64(0)}).Draw(rt, "tcview")
	case "aggqc":
		s.ClaimView = rapid.SampledFrom([]uint64{1, 6, 7, 1 << 40}).Draw(rt, "aggview")
	}
	validPool := []int{cs.PoolGenesis, cs.PoolB0, cs.PoolB1, cs.PoolB3}
	mk := func(id int) cs.Entry {
		e := cs.Entry{Claimed: id, Key: id, Blk: -1, View: s.ClaimView, SID: id}
		if s.Kind == "qc" {
			e.Blk = s.ClaimBlk
		}
		return e
	}
	for _, sid := range signers {
		e := mk(sid)
		if s.Kind == "aggqc" {
			e.SQC = rapid.SampledFrom(validPool).Draw(rt, "hqc")
			s.Map = append(s.Map, cs.MapEnt{ID: sid, QC: e.SQC})
		}
		s.Entries = append(s.Entries, e)
	}
	pick := func(label string) int { return rapid.IntRange(0, len(s.Entries)-1).Draw(rt, label) }
	switch class {
	case "honest-api":
		if len(s.Entries) >= 2 {
			s.ViaAPI = true
		}
	case "honest-manual":
	case "repeated-signer":
		// one real signature (or a few) repeated so that the *count* reaches the quorum
		distinct := rapid.IntRange(1, max(1, q-1)).Draw(rt, "distinct")
		if distinct < len(s.Entries) {
			base := s.Entries[:distinct]
			out := append([]cs.Entry(nil), base...)
			total := rapid.IntRange(q, n+1).Draw(rt, "total")
			for len(out) < total {
				out = append(out, base[rapid.IntRange(0, distinct-1).Draw(rt, "rep")])
			}
			s.Entries = out
			if s.Kind == "aggqc" {
				s.Map = s.Map[:distinct]
			}
		}
	case "sub-quorum":
		keep := rapid.IntRange(0, q-1).Draw(rt, "keep")
		s.Entries = s.Entries[:keep]
		if s.Kind == "aggqc" && rapid.Bool().Draw(rt, "shrinkmap") {
			s.Map = s.Map[:keep]
		}
	case "unknown-signer":
		// q-1 honest + entries labelled with ids outside the membership, really signed by some member or a stranger
		s.Entries = s.Entries[:q-1]
		extra := rapid.IntRange(1, 3).Draw(rt, "extra")
		for i := 0; i < extra; i++ {
			e := mk(n + 1 + i)
			e.Key = rapid.IntRange(0, n).Draw(rt, "ukey")
			s.Entries = append(s.Entries, e)
			if s.Kind == "aggqc" {
				s.Map = append(s.Map, cs.MapEnt{ID: e.Claimed, QC: cs.PoolGenesis})
			}
		}
	case "foreign-message":
		m := rapid.IntRange(1, len(s.Entries)).Draw(rt, "nforeign")
		for i := 0; i < m; i++ {
			e := &s.Entries[pick("fi")]
			switch s.Kind {
			case "qc":
				e.Blk = rapid.SampledFrom([]int{0, 1, 2, 3, -1}).Draw(rt, "fblk")
			case "tc":
				if rapid.Bool().Draw(rt, "fblock") {
					e.Blk = rapid.IntRange(0, 3).Draw(rt, "fblk")
				} else {
					e.View = s.ClaimView + rapid.SampledFrom([]uint64{1, ^uint64(0), 1 << 20}).Draw(rt, "dv")
				}
			case "aggqc":
				switch rapid.IntRange(0, 2).Draw(rt, "fwhat") {
				case 0:
					e.SID = rapid.IntRange(1, n+1).Draw(rt, "fsid")
				case 1:
					e.View = s.ClaimView + rapid.SampledFrom([]uint64{1, ^uint64(0)}).Draw(rt, "dv")
				default:
					e.SQC = rapid.IntRange(0, cs.PoolSize-1).Draw(rt, "fqc")
				}
			}
		}
	case "relabel-view":
		s.ClaimView = rapid.SampledFrom(append([]uint64{s.ClaimView + 1, s.ClaimView - 1, s.ClaimView + 2, 0}, hugeViews...)).Draw(rt, "newview")
		// the entries still carry signatures over the original content (their View field keeps the old view)
	case "relabel-hash":
		if s.Kind == "qc" {
			s.ClaimBlk = rapid.SampledFrom([]int{0, 1, 2, 3, 4, 5}).Draw(rt, "newblk")
			s.ClaimView = []uint64{1, 2, 2, 5, 6, 0}[s.ClaimBlk]
			if rapid.Bool().Draw(rt, "keepview") {
				s.ClaimView = rapid.SampledFrom([]uint64{0, 1, 2, 5, 6}).Draw(rt, "v")
			}
		} else if s.Kind == "aggqc" && len(s.Map) > 0 {
			// the map attests other QCs than the ones that were signed
			for i := range s.Map {
				if rapid.Bool().Draw(rt, "chg") {
					s.Map[i].QC = rapid.IntRange(0, cs.PoolSize-1).Draw(rt, "mqc")
				}
			}
		}
	case "swapped-ids":
		if len(s.Entries) >= 2 {
			i, j := pick("i"), pick("j")
			s.Entries[i].Claimed, s.Entries[j].Claimed = s.Entries[j].Claimed, s.Entries[i].Claimed
		}
	case "empty-sig":
		m := rapid.IntRange(1, len(s.Entries)).Draw(rt, "nempty")
		for i := 0; i < m; i++ {
			s.Entries[pick("ei")].Empty = true
		}
		if rapid.IntRange(0, 3).Draw(rt, "all") == 0 {
			s.Entries = nil
		}
	case "garbage-sig":
		m := rapid.IntRange(1, len(s.Entries)).Draw(rt, "ngarbage")
		for i := 0; i < m; i++ {
			s.Entries[pick("gi")].Key = 0
		}
	case "wrong-key":
		m := rapid.IntRange(1, len(s.Entries)).Draw(rt, "nwrong")
		for i := 0; i < m; i++ {
			e := &s.Entries[pick("wi")]
			e.Key = 1 + (e.Key % n)
		}
	case "mixed-views":
		for i := range s.Entries {
			if rapid.Bool().Draw(rt, "mv") {
				s.Entries[i].View = s.ClaimView + uint64(rapid.IntRange(1, 3).Draw(rt, "d"))
			}
		}
		if s.Kind == "aggqc" {
			for i := range s.Map {
				s.Map[i].QC = rapid.IntRange(0, cs.PoolSize-1).Draw(rt, "mq")
				for j := range s.Entries {
					if s.Entries[j].Claimed == s.Map[i].ID {
						s.Entries[j].SQC = s.Map[i].QC // signed and attested agree; the attested QCs themselves are of mixed validity
					}
				}
			}
		}
	case "extra-map-entry":
		if s.Kind == "aggqc" {
			// drop signatures but keep their map entries, or add map entries for replicas that did not sign
			cut := rapid.IntRange(0, len(s.Entries)).Draw(rt, "cut")
			s.Entries = s.Entries[:cut]
			for i := 0; i < rapid.IntRange(0, 2).Draw(rt, "addm"); i++ {
				s.Map = append(s.Map, cs.MapEnt{ID: rapid.IntRange(1, n+2).Draw(rt, "mid"), QC: rapid.IntRange(0, cs.PoolSize-1).Draw(rt, "mq")})
			}
		} else {
			s.Entries = s.Entries[:q-1]
		}
	case "labels-without-share":
		// fewer than a quorum of real signatures; the signer COUNT is padded with labels that carry no signature share (for BLS
		// a bit in the participants field, for the multi-signature schemes an entry without bytes), and for an aggregate
		// certificate the padded ids get no map entry, so that every listed message really is signed
		keep := rapid.IntRange(1, max(1, q-1)).Draw(rt, "keep")
		if keep < len(s.Entries) {
			pad := s.Entries[keep:]
			s.Entries = s.Entries[:keep]
			for _, e := range pad {
				e.Empty = true
				s.Entries = append(s.Entries, e)
			}
			if s.Kind == "aggqc" && keep <= len(s.Map) && rapid.IntRange(0, 3).Draw(rt, "keepmap") > 0 {
				s.Map = s.Map[:keep]
			}
		}
	case "huge-view-entry":
		// an aggregate certificate in which one or two (Byzantine) signers attest a certificate that STATES an enormous view
		// (it is not valid); the reported high QC must still be the highest valid one, on every evaluation
		if s.Kind == "aggqc" && len(s.Entries) > 0 {
			for i, m := 0, rapid.IntRange(1, 2).Draw(rt, "nhuge"); i < m; i++ {
				k := pick("hi")
				s.Entries[k].SQC = cs.PoolRelabelHuge
				for j := range s.Map {
					if s.Map[j].ID == s.Entries[k].SID {
						s.Map[j].QC = cs.PoolRelabelHuge
					}
				}
			}
		}
	case "unsigned-map-entry":
		// a quorum of honest signers, plus map entries (attested QCs) for replicas that contributed no signature
		if s.Kind == "aggqc" {
			signed := map[int]bool{}
			for _, e := range s.Entries {
				signed[e.Claimed] = true
			}
			for cand := 1; cand <= n+1; cand++ {
				if !signed[cand] && rapid.Bool().Draw(rt, "addunsigned") {
					s.Map = append(s.Map, cs.MapEnt{ID: cand, QC: rapid.SampledFrom([]int{cs.PoolB3, cs.PoolB3, cs.PoolB1, cs.PoolSubQuorum}).Draw(rt, "uq")})
				}
			}
		} else {
			s.Entries = s.Entries[:q-1]
		}
	case "valid-plus-invalid":
		e := mk(rapid.IntRange(1, n+1).Draw(rt, "xid"))
		e.Key = rapid.IntRange(0, n).Draw(rt, "xkey")
		s.Entries = append(s.Entries, e)
	case "free-form":
		m := rapid.IntRange(0, n+2).Draw(rt, "m")
		s.Entries = nil
		for i := 0; i < m; i++ {
			e := cs.Entry{
				Claimed: rapid.IntRange(1, n+1).Draw(rt, "c"),
				Key:     rapid.IntRange(0, n).Draw(rt, "k"),
				Empty:   rapid.IntRange(0, 9).Draw(rt, "e") == 0,
				Blk:     rapid.IntRange(-1, 3).Draw(rt, "b"),
				View:    rapid.SampledFrom([]uint64{s.ClaimView, s.ClaimView + 1, 0, 1 << 63}).Draw(rt, "v"),
				SID:     rapid.IntRange(1, n+1).Draw(rt, "sid"),
				SQC:     rapid.IntRange(0, cs.PoolSize-1).Draw(rt, "sqc"),
			}
			if rapid.Bool().Draw(rt, "selfkey") {
				e.Key, e.SID = e.Claimed, e.Claimed
				if e.Key > n {
					e.Key = 0
				}
			}
			s.Entries = append(s.Entries, e)
		}
		if s.Kind == "qc" {
			s.ClaimBlk = rapid.IntRange(0, 5).Draw(rt, "cb")
		}
	}
	if !s.ViaAPI && rapid.Bool().Draw(rt, "shuffle") && len(s.Entries) > 1 {
		perm := rapid.Permutation(seq(len(s.Entries))).Draw(rt, "perm")
		out := make([]cs.Entry, len(s.Entries))
		for i, p := range perm {
			out[i] = s.Entries[p-1]
		}
		s.Entries = out
	}
	if rapid.IntRange(0, 3).Draw(rt, "oneverifier") != 0 || s.Scheme == "bls12" && common.Tier() == "quick" {
		s.Verifier = rapid.IntRange(1, n).Draw(rt, "verifier")
	}
	return s
}

// ---------------------------------------------------------------------------------------------------------------
// property

type verdict struct {
	accepted bool
	panicked bool
	err      string
	highQC   hotstuff.QuorumCert
}

func verifyOnce(w *cs.World, s cs.Spec, b cs.Built, verifier int) (vs []verdict) {
	auth := w.Auth(verifier, s.Cache, false)
	rounds := 2
	if s.Kind == "aggqc" {
		rounds = 8 // the verdict and the reported high QC of an aggregate certificate must not depend on map iteration order
	}
	vs = make([]verdict, rounds)
	for round := 0; round < rounds; round++ {
		func() {
			defer func() {
				if r := recover(); r != nil {
					vs[round] = verdict{panicked: true, err: fmt.Sprint(r)}
				}
			}()
			var err error
			switch s.Kind {
			case "qc":
				err = auth.VerifyQuorumCert(b.QC)
			case "tc":
				err = auth.VerifyTimeoutCert(b.TC)
			case "aggqc":
				vs[round].highQC, err = auth.VerifyAggregateQC(b.AggQC)
			}
			vs[round].accepted = err == nil
			if err != nil {
				vs[round].err = err.Error()
			}
		}()
	}
	return
}

func prop(s cs.Spec) common.Result {
	w := cs.GetWorld(s.Scheme, s.N)
	b, err := w.Build(s)
	if err != nil {
		if s.ViaAPI {
			return common.Fail("honest-assembly-fails", "%s n=%d %s: assembling a certificate from %d honest parts failed: %v", s.Scheme, s.N, s.Kind, len(s.Entries), err)
		}
		return common.Fail("harness", "build: %v", err)
	}
	verifiers := []int{s.Verifier}
	if s.Verifier == 0 {
		verifiers = seq(s.N)
	}
	anyAccept, anyPanic := false, false
	for _, v := range verifiers {
		for round, vd := range verifyOnce(w, s, b, v) {
			if vd.panicked {
				anyPanic = true // counted as "not accepted"; crash-freedom is property C10
				continue
			}
			desc := fmt.Sprintf("%s n=%d q=%d cache=%d %s at replica %d (verification #%d): entries=%v claimBlk=%d claimView=%d certLevelOK=%v validDistinctSigners=%d",
				s.Scheme, s.N, w.Q, s.Cache, s.Kind, v, round+1, b.EntryClasses, s.ClaimBlk, s.ClaimView, b.CertLevelOK, b.ValidSigners)
			if vd.accepted {
				anyAccept = true
				// soundness
				// the genesis certificate is valid by definition - the one nobody signed. A "genesis certificate" that carries a
				// signature object claims signers that are never verified (and that the leader rotation later reads): it is
				// judged like any other certificate
				axiom := s.Kind == "qc" && s.ClaimBlk == 5 && s.ClaimView == 0 && b.QC.Signature() == nil
				if s.Kind == "tc" && s.ClaimView == 0 && b.TC.Signature() == nil {
					axiom = true // the view-0 timeout certificate every replica starts with (nobody signed it) is valid by definition; one that carries a signature is judged like any other
				}
				if !axiom && b.ValidSigners < w.Q {
					fp := "accepts-without-quorum:" + s.Kind + ":" + whyClass(s, b)
					return common.Fail(fp, "ACCEPTED although only %d distinct configured replicas produced a valid signature over the claimed content (quorum %d)\n%s", b.ValidSigners, w.Q, desc)
				}
				if s.Kind == "aggqc" {
					if b.BestValidView < 0 {
						return common.Fail("aggqc-no-valid-qc", "aggregate certificate accepted although none of the attested QCs is valid\n%s", desc)
					}
					hv, ok := highQCBlockView(w, vd.highQC)
					if !ok {
						return common.Fail("aggqc-highqc-invalid", "the high QC reported for the aggregate certificate (view %d, hash %s) is not a valid QC\n%s", vd.highQC.View(), vd.highQC.BlockHash().SmallString(), desc)
					}
					if int64(hv) != b.BestValidView {
						return common.Fail("aggqc-highqc-not-highest", "reported high QC certifies a block of view %d, but a valid attested QC certifies a block of view %d\nmap=%v\n%s", hv, b.BestValidView, s.Map, desc)
					}
				}
			} else if b.AllHonest || s.ViaAPI {
				if s.Scheme == "bls12" && blsQuirk(w, s, b, v, fmt.Errorf("%s", vd.err)) {
					return common.Fail(kit.KnownBLS, "REJECTED an honestly assembled certificate (%s) whose signature satisfies the verification equation in other arrangements: the pairing library's false negative\n%s", vd.err, desc)
				}
				return common.Fail("rejects-honest:"+s.Kind, "REJECTED an honestly assembled certificate: %s\n%s", vd.err, desc)
			}
		}
	}
	verd := "reject"
	if anyAccept {
		verd = "accept"
	}
	cl := []string{s.Kind, s.Scheme, verd}
	if anyPanic {
		cl = append(cl, "panic-counted-as-reject")
	}
	if s.Cache > 0 {
		cl = append(cl, "cache")
	}
	nontrivial := !(b.AllHonest || s.ViaAPI)
	return common.OK(nontrivial, cs.ClassKey(s, b, verd), cl...)
}

// whyClass names the structural reason a non-quorum certificate has (for fingerprints).
func whyClass(s cs.Spec, b cs.Built) string {
	has := map[string]bool{}
	for _, c := range b.EntryClasses {
		has[c] = true
	}
	switch {
	case !b.CertLevelOK && s.Kind == "qc" && s.ClaimBlk == 5:
		return "genesis-relabelled-view"
	case !b.CertLevelOK:
		return "relabelled-view-or-hash"
	case has["repeat"]:
		return "repeated-signer"
	case has["foreignmsg"]:
		return "foreign-message"
	case has["wrongkey"]:
		return "wrong-key"
	case has["unknownid"]:
		return "unknown-signer"
	case has["empty"] || has["garbage"]:
		return "bad-signature-bytes"
	}
	return "sub-quorum"
}

// highQCBlockView identifies the reported high QC with one of the prepared QCs (ground truth by identity).
func highQCBlockView(w *cs.World, qc hotstuff.QuorumCert) (uint64, bool) {
	for i := 0; i < cs.PoolSize; i++ {
		if qc.Equals(w.Pool[i]) {
			return cs.PoolBlockView[i], w.PoolValid(i)
		}
	}
	return 0, false
}

func TestC02Certificates(t *testing.T) {
	maxN := 13
	common.Check(t, id, "TestC02Certificates", 10000, 300000, func(rt *rapid.T) cs.Spec {
		schemes := []string{"ecdsa", "eddsa", "ecdsa", "eddsa", "ecdsa", "eddsa", "ecdsa", "eddsa", "ecdsa", "bls12"}
		if common.Tier() == "thorough" {
			schemes = kit.Schemes
		}
		return genSpec(rt, maxN, schemes)
	}, prop)
}


// blsQuirk decides whether the rejection of an honest BLS certificate is the known false negative of the pairing library:
// the repository's scheme rejects the signature although it satisfies the verification equation in other arrangements.
func blsQuirk(w *cs.World, s cs.Spec, b cs.Built, verifier int, observed error) bool {
	m := w.Members[verifier-1]
	switch s.Kind {
	case "qc":
		return kit.QuirkQC(m, b.QC, observed)
	case "tc":
		return kit.QuirkTC(m, b.TC, observed)
	case "aggqc":
		return kit.QuirkAgg(m, b.AggQC, observed)
	}
	return false
}
