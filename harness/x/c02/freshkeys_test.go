package c02

// C02, key dimension: "valid certificates verify at every honest replica" must not depend on WHICH keys the replicas
// happen to hold. The other units reuse one cached key set per process (key generation dominates their cost); here every
// case brings its own key material, drawn by the generator, so that a failing key set is a replayable case.

import (
	"encoding/hex"
	"fmt"
	"testing"

	"github.com/relab/hotstuff"
	"github.com/relab/hotstuff/internal/proto/clientpb"
	"github.com/relab/hotstuff/internal/proto/hotstuffpb"
	"github.com/relab/hotstuff/security/crypto"
	"github.com/relab/hotstuff/verifx/common"
	"github.com/relab/hotstuff/verifx/kit"
	"pgregory.net/rapid"
)

type keyCase struct {
	Scheme string
	Seeds  [][]byte // one per replica
	Edge   int      // 0 random bytes, 1 tiny scalar, 2 leading zero bytes, 3 all 0xff
}

func keyProp(c keyCase) common.Result {
	n := len(c.Seeds)
	var ks []hotstuff.PrivateKey
	for _, s := range c.Seeds {
		ks = append(ks, kit.KeyFromBytes(c.Scheme, s))
	}
	ms := kit.NewClusterWithKeys(c.Scheme, ks)
	b := kit.NewBlock(hotstuff.GetGenesis().Hash(), kit.GenesisQC(), &clientpb.Batch{Commands: []*clientpb.Command{{ClientID: 1, SequenceNumber: 1, Data: c.Seeds[0]}}}, 1, 1)
	kit.StoreAll(ms, b)
	desc := fmt.Sprintf("%s n=%d key material %x", c.Scheme, n, c.Seeds)
	q := hotstuff.QuorumSize(n)
	// every replica's vote verifies at every replica
	var pcs []hotstuff.PartialCert
	for _, m := range ms {
		pc, err := m.Auth.CreatePartialCert(b)
		if err != nil {
			return common.Fail("keys:cannot-sign", "replica %d cannot sign: %v\n%s", m.ID, err, desc)
		}
		pcs = append(pcs, pc)
		for _, v := range ms {
			if err := v.Auth.VerifyPartialCert(pc); err != nil {
				if kit.BLSFalseNegative(v.Cfg, pc.Signature(), func(hotstuff.ID) []byte { return b.ToBytes() }, err) {
					return common.Fail(kit.KnownBLS, "the vote of replica %d is rejected by replica %d (%v) although it satisfies the verification equation in other arrangements\n%s", m.ID, v.ID, err, desc)
				}
				return common.Fail("keys:valid-vote-rejected", "the vote of replica %d is rejected by replica %d: %v\n%s", m.ID, v.ID, err, desc)
			}
		}
		// and not for another message
		if err := ms[0].Base.Verify(pc.Signature(), []byte("another message")); err == nil {
			return common.Fail("keys:vote-verifies-for-other-message", "the vote of replica %d verifies for another message\n%s", m.ID, desc)
		}
	}
	// a quorum certificate from the first q votes, before and after the wire, at every replica; a timeout certificate too
	qc, err := ms[0].Auth.CreateQuorumCert(b, pcs[:q])
	if err != nil {
		return common.Fail("keys:cannot-combine", "CreateQuorumCert: %v\n%s", err, desc)
	}
	wire := hotstuffpb.QuorumCertFromProto(hotstuffpb.QuorumCertToProto(qc))
	var tms []hotstuff.TimeoutMsg
	for _, m := range ms[:q] {
		sig, err := m.Base.Sign(hotstuff.View(3).ToBytes())
		if err != nil {
			return common.Fail("keys:cannot-sign", "replica %d cannot sign: %v\n%s", m.ID, err, desc)
		}
		tms = append(tms, hotstuff.TimeoutMsg{ID: m.ID, View: 3, ViewSignature: sig, SyncInfo: hotstuff.NewSyncInfoWith(qc)})
	}
	tc, err := ms[0].Auth.CreateTimeoutCert(3, tms)
	if err != nil {
		return common.Fail("keys:cannot-combine", "CreateTimeoutCert: %v\n%s", err, desc)
	}
	for _, v := range ms {
		if err := v.Auth.VerifyQuorumCert(qc); err != nil {
			if kit.BLSFalseNegative(v.Cfg, qc.Signature(), func(hotstuff.ID) []byte { return b.ToBytes() }, err) {
				return common.Fail(kit.KnownBLS, "an honest quorum certificate is rejected by replica %d (%v) although it satisfies the verification equation in other arrangements\n%s", v.ID, err, desc)
			}
			return common.Fail("keys:valid-qc-rejected", "an honest quorum certificate is rejected by replica %d: %v\n%s", v.ID, err, desc)
		}
		if err := v.Auth.VerifyQuorumCert(wire); err != nil {
			return common.Fail("keys:valid-qc-rejected-after-wire", "an honest quorum certificate is rejected by replica %d after the protobuf round trip: %v\n%s", v.ID, err, desc)
		}
		if err := v.Auth.VerifyTimeoutCert(tc); err != nil {
			if kit.BLSFalseNegative(v.Cfg, tc.Signature(), func(hotstuff.ID) []byte { return hotstuff.View(3).ToBytes() }, err) {
				return common.Fail(kit.KnownBLS, "an honest timeout certificate is rejected by replica %d (%v) although it satisfies the verification equation in other arrangements\n%s", v.ID, err, desc)
			}
			return common.Fail("keys:valid-tc-rejected", "an honest timeout certificate is rejected by replica %d: %v\n%s", v.ID, err, desc)
		}
	}
	return common.OK(true, "", c.Scheme, fmt.Sprintf("edge=%d", c.Edge))
}

func TestC02FreshKeys(t *testing.T) {
	common.Check(t, id, "TestC02FreshKeys", 1200, 40000, func(rt *rapid.T) keyCase {
		c := keyCase{Scheme: rapid.SampledFrom([]string{"bls12", "bls12", "ecdsa", "eddsa"}).Draw(rt, "scheme")}
		n := rapid.SampledFrom([]int{2, 4, 4}).Draw(rt, "n") // a single-replica cluster cannot combine (Combine needs two signatures): outside the domain
		c.Edge = rapid.SampledFrom([]int{0, 0, 0, 0, 1, 2, 3}).Draw(rt, "edge")
		for i := 0; i < n; i++ {
			s := rapid.SliceOfN(rapid.Byte(), 32, 32).Draw(rt, "seed")
			switch c.Edge {
			case 1:
				for j := 0; j < 31; j++ {
					s[j] = 0
				}
				s[31] = byte(i + 1) // tiny distinct scalars
			case 2:
				for j := 0; j < 1+int(s[31])%8; j++ {
					s[j] = 0
				}
			case 3:
				for j := range s {
					s[j] = 0xff
				}
				s[31] = 0xff - byte(i)
			}
			c.Seeds = append(c.Seeds, s)
		}
		return c
	}, keyProp)
}


// TestC02BLSKnownInputs: the concrete inputs of the known finding (found by a sweep over random keys and messages): a valid
// signature that the pinned pairing library rejects. While the finding is open every run reports these as excluded known hits;
// should the dependency be repaired, they simply pass.
func TestC02BLSKnownInputs(t *testing.T) {
	type known struct {
		SK  string
		Msg string
	}
	inputs := []known{
		{"64c55e55023bebc8c411a85db3641b9385ba2826bfde161ad7d46279e934b0f4", "message 2269"},
		{"20962188f8f5ae6033a5c8a3c418e276720108fa48818e5cc944223962114efd", "message 63214"},
		{"47ab9b84642ecc02a39b022b0b3921713288af7ecacd90e326e4a3adfa69fc5d", "message 50519"},
	}
	common.Exhaustive(t, id, "TestC02BLSKnownInputs", func(yield func(known) bool) {
		for _, k := range inputs {
			if !yield(k) {
				return
			}
		}
	}, func(k known) common.Result {
		raw, _ := hex.DecodeString(k.SK)
		sk := &crypto.BLS12PrivateKey{}
		sk.FromBytes(raw)
		other := kit.KeyFromBytes("bls12", []byte{7})
		ms := kit.NewClusterWithKeys("bls12", []hotstuff.PrivateKey{sk, other})
		sig, err := ms[0].Base.Sign([]byte(k.Msg))
		if err != nil {
			return common.Fail("harness", "sign: %v", err)
		}
		verr := ms[1].Base.Verify(sig, []byte(k.Msg))
		if verr == nil {
			return common.OK(true, k.SK+k.Msg, "known-input-now-accepted")
		}
		if kit.BLSFalseNegative(ms[1].Cfg, sig, func(hotstuff.ID) []byte { return []byte(k.Msg) }, verr) {
			return common.Fail(kit.KnownBLS, "key %s signs %q; the signature is valid (other arrangements of the pairing equation accept it) but Verify says: %v", k.SK, k.Msg, verr)
		}
		return common.Fail("keys:valid-vote-rejected", "key %s signs %q and Verify rejects it (%v); the other arrangements reject it too", k.SK, k.Msg, verr)
	})
}
