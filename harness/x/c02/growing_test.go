package c02

// C02, membership dimension: "a quorum of distinct CONFIGURED replicas" refers to the membership the verifier is
// configured with at the moment it verifies. Replicas are added to a RuntimeConfig one by one while connections are set
// up, and certificates may already be verified in between (the other units configure everything first and only then
// verify). A history here interleaves AddReplica with verifications of honest-signed certificates over chosen signer
// sets; the oracle after every verification is the ground truth for the membership at that moment: accepted <=> every
// signer is configured and there are at least QuorumSize(configured) of them.

import (
	"fmt"
	"testing"

	"github.com/relab/hotstuff"
	"github.com/relab/hotstuff/core"
	"github.com/relab/hotstuff/core/eventloop"
	"github.com/relab/hotstuff/internal/proto/clientpb"
	"github.com/relab/hotstuff/internal/testutil"
	"github.com/relab/hotstuff/security/blockchain"
	"github.com/relab/hotstuff/security/cert"
	"github.com/relab/hotstuff/security/crypto"
	"github.com/relab/hotstuff/verifx/common"
	"github.com/relab/hotstuff/verifx/kit"
	"pgregory.net/rapid"
)

type growOp struct {
	Add     int    // > 0: configure that many more replicas (in id order)
	Kind    string // otherwise: "qc" | "tc" verified now
	Signers []int  // distinct ids 1..N that signed (honestly, the right bytes)
}

type growCase struct {
	Scheme string
	N      int // final membership
	Cache  int
	Ops    []growOp
}

func growProp(c growCase) common.Result {
	ks := kit.Keys(c.Scheme, c.N)
	ms := kit.NewClusterWithKeys(c.Scheme, ks) // the signers: fully configured replicas
	b := kit.NewBlock(hotstuff.GetGenesis().Hash(), kit.GenesisQC(), &clientpb.Batch{Commands: []*clientpb.Command{{ClientID: 1, SequenceNumber: 1}}}, 1, 1)
	opts := []core.RuntimeOption{core.WithSyncVerification()}
	if c.Cache > 0 {
		opts = append(opts, core.WithCache(uint(c.Cache)))
	}
	// the verifier: replica 1 of the same cluster, configured step by step
	cfg := core.NewRuntimeConfig(1, ks[0], opts...)
	log := kit.Logger("grow")
	el := eventloop.New(log, 64)
	snd := testutil.NewMockSender(1)
	base, err := crypto.New(cfg, c.Scheme)
	if err != nil {
		return common.Fail("harness", "crypto.New: %v", err)
	}
	bc := blockchain.New(el, log, snd)
	snd.AddBlockchain(bc)
	auth := cert.NewAuthority(cfg, bc, base)
	bc.Store(b)
	configured := 0
	grown, boundary := 0, false
	lastQ := 0
	for step, op := range c.Ops {
		if op.Add > 0 {
			for k := 0; k < op.Add && configured < c.N; k++ {
				m := ms[configured]
				cfg.AddReplica(&hotstuff.ReplicaInfo{ID: m.ID, PubKey: ks[configured].Public(), Metadata: m.Cfg.ConnectionMetadata()})
				configured++
			}
			grown++
			continue
		}
		if configured == 0 || len(op.Signers) == 0 {
			continue
		}
		q := hotstuff.QuorumSize(configured)
		msg := b.ToBytes()
		if op.Kind == "tc" {
			msg = hotstuff.View(5).ToBytes()
		}
		var sigs []hotstuff.QuorumSignature
		allKnown := true
		for _, s := range op.Signers {
			sig, err := ms[s-1].Base.Sign(msg)
			if err != nil {
				return common.Fail("harness", "sign: %v", err)
			}
			sigs = append(sigs, sig)
			if s > configured {
				allKnown = false
			}
		}
		sig, err := kit.CombineAny(c.Scheme, ms[0].Base, sigs)
		if err != nil {
			return common.Fail("harness", "combine: %v", err)
		}
		want := allKnown && len(op.Signers) >= q
		desc := fmt.Sprintf("%s cache=%d final n=%d, step %d: %d replicas configured (quorum %d), %s signed by %v\nhistory %+v", c.Scheme, c.Cache, c.N, step, configured, q, op.Kind, op.Signers, c.Ops[:step+1])
		for round := 0; round < 2; round++ { // the second verdict may come from the cache
			var verr error
			func() {
				defer func() {
					if r := recover(); r != nil {
						verr = fmt.Errorf("panic: %v", r)
					}
				}()
				if op.Kind == "tc" {
					verr = auth.VerifyTimeoutCert(hotstuff.NewTimeoutCert(sig, 5))
				} else {
					verr = auth.VerifyQuorumCert(hotstuff.NewQuorumCert(sig, b.View(), b.Hash()))
				}
			}()
			if verr == nil && !want {
				return common.Fail("growing:accepted-below-quorum", "accepted (presentation %d) although the signers are not a quorum of the configured replicas\n%s", round+1, desc)
			}
			if verr != nil && want && len(op.Signers) >= 2 {
				if kit.BLSFalseNegative(cfg, sig, func(hotstuff.ID) []byte { return msg }, verr) {
					return common.Fail(kit.KnownBLS, "an honest certificate is rejected (%v) although it satisfies the verification equation in other arrangements\n%s", verr, desc)
				}
				return common.Fail("growing:honest-rejected", "rejected (presentation %d): %v\n%s", round+1, verr, desc)
			}
		}
		if lastQ != 0 && q > lastQ && allKnown && len(op.Signers) >= lastQ && len(op.Signers) < q {
			boundary = true // enough for the membership of the previous verification, not for this one
		}
		lastQ = q
	}
	cls := []string{"growing " + c.Scheme}
	if boundary {
		cls = append(cls, "growing old-quorum-no-longer-enough")
	}
	return common.OK(boundary, "", cls...)
}

func genGrow(rt *rapid.T) growCase {
	c := growCase{Scheme: rapid.SampledFrom([]string{"ecdsa", "eddsa", "eddsa", "bls12"}).Draw(rt, "scheme")}
	c.N = rapid.IntRange(2, 13).Draw(rt, "n")
	c.Cache = rapid.SampledFrom([]int{0, 0, 3, 100}).Draw(rt, "cache")
	configured := 0
	lastQ := 0
	nops := rapid.IntRange(2, 8).Draw(rt, "nops")
	for i := 0; i < nops; i++ {
		if configured == 0 || (configured < c.N && rapid.IntRange(0, 2).Draw(rt, "grow") == 0) {
			a := rapid.IntRange(1, c.N-configured).Draw(rt, "add")
			configured += a
			c.Ops = append(c.Ops, growOp{Add: a})
			continue
		}
		q := hotstuff.QuorumSize(configured)
		// signer count: around the current and the previous quorum, or anything
		var k int
		switch rapid.IntRange(0, 3).Draw(rt, "count") {
		case 0:
			k = q
		case 1:
			k = q - 1
		case 2:
			k = lastQ
		default:
			k = rapid.IntRange(1, c.N).Draw(rt, "k")
		}
		if k < 1 {
			k = 1
		}
		pool := configured
		if rapid.IntRange(0, 5).Draw(rt, "beyond") == 0 {
			pool = c.N // may name replicas that are not configured yet
		}
		if k > pool {
			k = pool
		}
		perm := rapid.Permutation(seq(pool)).Draw(rt, "signers")
		c.Ops = append(c.Ops, growOp{Kind: rapid.SampledFrom([]string{"qc", "qc", "tc"}).Draw(rt, "kind"), Signers: perm[:k]})
		lastQ = q
	}
	return c
}

func TestC02GrowingMembership(t *testing.T) {
	common.Check(t, id, "TestC02GrowingMembership", 1500, 40000, genGrow, growProp)
}
