package c02

// C02, rogue public keys (BLS): aggregate verification adds public keys, so a replica that registers the key
// pk = x*G1 - (sum of some honest keys) could alone "sign" for itself AND those honest replicas. The proof of possession in
// the replica's metadata is the defence: a key whose proof does not verify must never count, no matter how often the
// certificate is shown (the verdict of the proof check is cached).

import (
	"fmt"
	"math/big"
	"testing"

	bls12 "github.com/kilic/bls12-381"
	"github.com/relab/hotstuff"
	"github.com/relab/hotstuff/core"
	"github.com/relab/hotstuff/core/eventloop"
	"github.com/relab/hotstuff/internal/testutil"
	"github.com/relab/hotstuff/security/blockchain"
	"github.com/relab/hotstuff/security/cert"
	"github.com/relab/hotstuff/security/crypto"
	"github.com/relab/hotstuff/verifx/common"
	"github.com/relab/hotstuff/verifx/kit"
	"pgregory.net/rapid"
)

type rogueCase struct {
	N        int
	Victims  []int  // honest replicas the rogue key is built against (ids among 2..N-1)
	X        []byte // the rogue scalar
	PopKind  int    // 0 the proof of another replica, 1 a signature of x over something else, 2 the generator
	Rounds   int    // how often each forged certificate is shown
	Cache    int
	Kind     string // qc | tc
}

var blsDomainSig = []byte("BLS_SIG_BLS12381G2_XMD:SHA-256_SSWU_RO_POP_")

func rogueProp(c rogueCase) common.Result {
	ks := kit.Keys("bls12", c.N)
	g1, g2 := bls12.NewG1(), bls12.NewG2()
	r, _ := new(big.Int).SetString("73eda753299d7d483339d80809a1d80553bda402fffe5bfeffffffff00000001", 16)
	x := new(big.Int).SetBytes(c.X)
	x.Mod(x, new(big.Int).Sub(r, big.NewInt(1)))
	x.Add(x, big.NewInt(1))
	// honest members 1..N-1 with their own configs (for keys and proofs); the verifier is replica 1
	honest := kit.NewClusterWithKeys("bls12", ks[:c.N-1])
	rogueID := hotstuff.ID(c.N)
	pk := g1.MulScalarBig(&bls12.PointG1{}, &bls12.G1One, x)
	for _, v := range c.Victims {
		vp, err := g1.FromCompressed(ks[v-1].Public().(*crypto.BLS12PublicKey).ToBytes())
		if err != nil {
			return common.Fail("harness", "victim key: %v", err)
		}
		g1.Sub(pk, pk, vp)
	}
	rogue := &crypto.BLS12PublicKey{}
	if err := rogue.FromBytes(g1.ToCompressed(pk)); err != nil {
		return common.Fail("harness", "rogue key: %v", err)
	}
	// a well-formed point as the rogue replica's "proof"
	var pop string
	switch c.PopKind {
	case 0:
		pop = honest[1].Cfg.ConnectionMetadata()["bls12-pop-bin"]
	case 1:
		h, _ := g2.HashToCurve([]byte("not the key"), blsDomainSig)
		g2.MulScalarBig(h, h, x)
		pop = string(g2.ToCompressed(h))
	default:
		pop = string(g2.ToCompressed(g2.One()))
	}
	opts := []core.RuntimeOption{core.WithSyncVerification()}
	if c.Cache > 0 {
		opts = append(opts, core.WithCache(uint(c.Cache)))
	}
	cfg := core.NewRuntimeConfig(1, ks[0], opts...)
	base, err := crypto.New(cfg, "bls12")
	if err != nil {
		return common.Fail("harness", "base: %v", err)
	}
	for i := 1; i < c.N; i++ {
		info, _ := honest[0].Cfg.ReplicaInfo(hotstuff.ID(i))
		if i == 1 {
			info = &hotstuff.ReplicaInfo{ID: 1, PubKey: ks[0].Public(), Metadata: cfg.ConnectionMetadata()}
		}
		cfg.AddReplica(info)
	}
	cfg.AddReplica(&hotstuff.ReplicaInfo{ID: rogueID, PubKey: rogue, Metadata: map[string]string{"bls12-pop-bin": pop}})
	lg := kit.Logger("rogue")
	el := eventloop.New(lg, 16)
	snd := testutil.NewMockSender(1)
	bc := blockchain.New(el, lg, snd)
	snd.AddBlockchain(bc)
	auth := cert.NewAuthority(cfg, bc, base)
	blk := kit.NewBlock(hotstuff.GetGenesis().Hash(), kit.GenesisQC(), nil, 1, 2)
	bc.Store(blk)
	var bf crypto.Bitfield
	for _, v := range c.Victims {
		bf.Add(hotstuff.ID(v))
	}
	bf.Add(rogueID)
	forge := func(msg []byte) hotstuff.QuorumSignature {
		h, _ := g2.HashToCurve(msg, blsDomainSig)
		g2.MulScalarBig(h, h, x)
		s, err := crypto.RestoreBLS12AggregateSignature(g2.ToCompressed(h), bf)
		if err != nil {
			panic(err)
		}
		return s
	}
	q := hotstuff.QuorumSize(c.N)
	desc := fmt.Sprintf("n=%d q=%d cache=%d: replica %d registered the key x*G - sum(keys of %v) with a proof that is not a proof of possession; the certificate is signed with x alone and names %v + %d", c.N, q, c.Cache, rogueID, c.Victims, c.Victims, rogueID)
	for round := 1; round <= c.Rounds; round++ {
		var err error
		what := ""
		switch c.Kind {
		case "qc":
			what = "quorum certificate"
			err = auth.VerifyQuorumCert(hotstuff.NewQuorumCert(forge(blk.ToBytes()), blk.View(), blk.Hash()))
		default:
			what = "timeout certificate"
			err = auth.VerifyTimeoutCert(hotstuff.NewTimeoutCert(forge(hotstuff.View(9).ToBytes()), 9))
		}
		if err == nil {
			return common.Fail("rogue-key-certificate-accepted:"+c.Kind, "the forged %s was ACCEPTED at presentation #%d although none of the honest replicas %v signed\n%s", what, round, c.Victims, desc)
		}
	}
	cls := []string{"rogue-key", c.Kind, fmt.Sprintf("enough-labels=%v", len(c.Victims)+1 >= q)}
	return common.OK(len(c.Victims)+1 >= q && c.Rounds >= 2, "", cls...)
}

func TestC02RogueKey(t *testing.T) {
	common.Check(t, id, "TestC02RogueKey", 400, 8000, func(rt *rapid.T) rogueCase {
		c := rogueCase{N: rapid.SampledFrom([]int{4, 4, 5, 7}).Draw(rt, "n")}
		q := hotstuff.QuorumSize(c.N)
		k := rapid.IntRange(max(1, q-2), q-1).Draw(rt, "victims")
		c.Victims = rapid.Permutation(seqFrom(2, c.N-1)).Draw(rt, "which")[:min(k, c.N-2)]
		c.X = rapid.SliceOfN(rapid.Byte(), 32, 32).Draw(rt, "x")
		c.PopKind = rapid.IntRange(0, 2).Draw(rt, "pop")
		c.Rounds = rapid.IntRange(1, 4).Draw(rt, "rounds")
		c.Cache = rapid.SampledFrom([]int{0, 0, 10}).Draw(rt, "cache")
		c.Kind = rapid.SampledFrom([]string{"qc", "tc"}).Draw(rt, "kind")
		return c
	}, rogueProp)
}

func seqFrom(a, b int) []int {
	var l []int
	for i := a; i <= b; i++ {
		l = append(l, i)
	}
	return l
}
