// Package c13 checks property C13: the block store is content-addressed and its ancestry answers are exact.
//
// Overlay-only package (virtual path /repo/verifx/c13). A case is a block forest plus a pre-drawn list of operations.
// The property function builds the real blockchain.Blockchain on top of a sender stub that composes generated peer
// replies the way network.GorumsSender.RequestBlock does (protobuf round trip, first reply with the requested hash
// wins; the unexported quorum function itself is checked in package network, see harness/pkg/network/c13_test.go),
// commits through the real consensus.Committer.TryCommit with a stub CommitRuler, and observes hotstuff.CommitEvent
// and clientpb.AbortEvent on the event loop by Tick-ing it. Every answer is compared with a reference forest that
// knows the true parent links.
package c13

import (
	"context"
	"crypto/sha256"
	"fmt"
	"sort"
	"strings"
	"testing"
	"time"

	"github.com/relab/hotstuff"
	"github.com/relab/hotstuff/core"
	"github.com/relab/hotstuff/core/eventloop"
	"github.com/relab/hotstuff/internal/proto/clientpb"
	"github.com/relab/hotstuff/internal/proto/hotstuffpb"
	"github.com/relab/hotstuff/protocol"
	"github.com/relab/hotstuff/protocol/consensus"
	"github.com/relab/hotstuff/security/blockchain"
	"github.com/relab/hotstuff/security/cert"
	"github.com/relab/hotstuff/security/crypto"
	"github.com/relab/hotstuff/verifx/common"
	"github.com/relab/hotstuff/verifx/kit"
	"google.golang.org/protobuf/types/known/timestamppb"
	"pgregory.net/rapid"
)

const id = "C13"

// ---------------------------------------------------------------------------------------------------------------
// case

// Rep is one peer's reply to a block request.
type Rep struct {
	K int // 0 no reply, 1 the requested block, 2 another block of the forest (X), 3 the requested block with one field changed (X), 4 no reply, but the block arrives by another path (a proposal) while the request is in flight: the store gets it, which cancels the request
	X int
}

// Blk is one block of the forest. Views grow strictly along parent links by construction.
type Blk struct {
	P  int   // parent: 0 = genesis, k >= 1 = block k-1 (must be an earlier block), -1 = an ancestor nobody has
	DV int   // view = view(parent) + DV, DV >= 1 (for P == -1: view = DV)
	R  []Rep // what the peers reply when this block is requested (in arrival order)
}

// Op kinds.
const (
	opStore = iota
	opLocalGet
	opGet
	opExtends
	opCommit
	opRemote
	opGetMissing
	opCommitFwd // like opCommit, but the proposal is picked among the blocks that extend the committed head
	nOps
)

// Op is one operation; A and B name blocks as "value mod pool size".
type Op struct {
	K int
	A int
	B int
	R []Rep // opRemote: the new replies for block A
}

// History is a case.
type History struct {
	Blocks []Blk
	MissR  []Rep // replies to a request for a hash that is no block of the forest (only kinds 0 and 2 are meaningful)
	Ops    []Op
}

// ---------------------------------------------------------------------------------------------------------------
// forest construction (ground truth)

const (
	genesis = -1
	missing = -2
)

type forest struct {
	n      int
	parent []int // index, genesis or missing
	view   []int
	blocks []*hotstuff.Block
	byHash map[hotstuff.Hash]int
	remote [][]Rep
	missR  []Rep
}

var baseTime = time.Date(2025, 6, 1, 0, 0, 0, 0, time.UTC)

func missingHash(i int) hotstuff.Hash {
	return sha256.Sum256([]byte(fmt.Sprintf("c13-missing-ancestor-of-%d", i)))
}

func (f *forest) hashOf(i int) hotstuff.Hash {
	if i == genesis {
		return hotstuff.GetGenesis().Hash()
	}
	return f.blocks[i].Hash()
}

func (f *forest) viewOf(i int) int {
	if i == genesis {
		return 0
	}
	return f.view[i]
}

func (f *forest) block(i int) *hotstuff.Block {
	if i == genesis {
		return hotstuff.GetGenesis()
	}
	return f.blocks[i]
}

// newObject builds block i from scratch (a fresh object with the same content, hence the same hash).
func (f *forest) newObject(i int) *hotstuff.Block {
	var ph hotstuff.Hash
	pv := 0
	switch p := f.parent[i]; p {
	case missing:
		ph = missingHash(i)
	default:
		ph = f.hashOf(p)
		pv = f.viewOf(p)
	}
	batch := &clientpb.Batch{Commands: []*clientpb.Command{{ClientID: uint32(i + 1), SequenceNumber: 1, Data: []byte(fmt.Sprintf("b%d", i))}}}
	b := kit.NewBlock(ph, hotstuff.NewQuorumCert(nil, hotstuff.View(pv), ph), batch, hotstuff.View(f.view[i]), hotstuff.ID(1+i%4))
	b.SetTimestamp(baseTime.Add(time.Duration(i) * time.Second)) // NewBlock stamps the wall clock; the hash must not depend on it
	return b
}

func buildForest(c History) *forest {
	f := &forest{n: len(c.Blocks), byHash: map[hotstuff.Hash]int{}, missR: c.MissR}
	for i, b := range c.Blocks {
		p := genesis
		switch {
		case b.P == -1:
			p = missing
		case b.P >= 1 && b.P <= i:
			p = b.P - 1
		}
		dv := b.DV
		if dv < 1 {
			dv = 1
		}
		v := dv
		if p >= 0 {
			v += f.view[p]
		}
		f.parent = append(f.parent, p)
		f.view = append(f.view, v)
		f.blocks = append(f.blocks, nil)
		f.blocks[i] = f.newObject(i)
		f.byHash[f.blocks[i].Hash()] = i
		f.remote = append(f.remote, b.R)
	}
	return f
}

// chain returns i and its true ancestors inside the forest, youngest first, and how the chain ends (genesis/missing).
func (f *forest) chain(i int) (idx []int, end int) {
	for i >= 0 {
		idx = append(idx, i)
		i = f.parent[i]
	}
	return idx, i
}

// isAncestorOrSelf: b lies on a's true parent chain (or is a). Genesis is the end of every chain that is not cut.
func (f *forest) isAncestorOrSelf(b, a int) bool {
	if a == b {
		return true
	}
	if a == genesis {
		return false
	}
	idx, end := f.chain(a)
	if b == genesis {
		return end == genesis
	}
	for _, x := range idx {
		if x == b {
			return true
		}
	}
	return false
}

func hasHonest(rs []Rep) bool {
	for _, r := range rs {
		if r.K == 1 || r.K == 4 {
			return true
		}
	}
	return false
}

// ---------------------------------------------------------------------------------------------------------------
// sender stub: the peers and the network layer

type delivery struct {
	hash    hotstuff.Hash
	ok      bool
	lied    bool // at least one reply carried a block with another hash
	arrived bool // the block was stored by another path while the request was in flight (the request itself failed)
}

type stubSender struct {
	f   *forest
	log []delivery
	bc  *blockchain.Blockchain
}

func tamper(pb *hotstuffpb.Block, x int) {
	if x < 0 {
		x = -x
	}
	switch x % 5 {
	case 0:
		pb.View++
	case 1:
		pb.Proposer++
	case 2:
		pb.Timestamp = timestamppb.New(pb.Timestamp.AsTime().Add(time.Nanosecond))
	case 3:
		pb.Parent = append([]byte(nil), pb.Parent...)
		pb.Parent[0] ^= 1
	case 4:
		pb.Commands = &clientpb.Batch{Commands: []*clientpb.Command{{ClientID: 999, SequenceNumber: 7}}}
	}
}

// replies composes what arrives from the peers for a request, in arrival order.
func (s *stubSender) replies(hash hotstuff.Hash) []*hotstuffpb.Block {
	f := s.f
	want, known := f.byHash[hash]
	rs := f.missR
	if known {
		rs = f.remote[want]
	}
	var out []*hotstuffpb.Block
	for _, r := range rs {
		switch r.K {
		case 1:
			if known { // nobody has a block for an unknown hash
				out = append(out, hotstuffpb.BlockToProto(f.blocks[want]))
			}
		case 2:
			if f.n > 0 {
				x := ((r.X % f.n) + f.n) % f.n
				if !known || x != want {
					out = append(out, hotstuffpb.BlockToProto(f.blocks[x]))
				}
			}
		case 3:
			if known {
				pb := hotstuffpb.BlockToProto(f.blocks[want])
				tamper(pb, r.X)
				out = append(out, pb)
			} else {
				out = append(out, &hotstuffpb.Block{})
			}
		}
	}
	return out
}

// RequestBlock does with the replies what GorumsSender.RequestBlock does: the quorum call hands the growing reply set
// to the quorum function, which accepts the first reply that decodes to a block with the requested hash; the accepted
// message is decoded with BlockFromProto; no acceptable reply = failure.
func (s *stubSender) RequestBlock(_ context.Context, hash hotstuff.Hash) (*hotstuff.Block, bool) {
	if want, known := s.f.byHash[hash]; known && s.bc != nil {
		for _, r := range s.f.remote[want] {
			if r.K == 4 {
				s.bc.Store(s.f.blocks[want]) // cancels the pending request, as the real store does
				s.log = append(s.log, delivery{hash: hash, arrived: true})
				return nil, false
			}
		}
	}
	d := delivery{hash: hash}
	var got *hotstuff.Block
	for _, pb := range s.replies(hash) {
		b := hotstuffpb.BlockFromProto(pb)
		if b.Hash() != hash {
			d.lied = true
			continue
		}
		if got == nil {
			got = hotstuffpb.BlockFromProto(pb)
		}
	}
	d.ok = got != nil
	s.log = append(s.log, d)
	return got, got != nil
}

func (s *stubSender) NewView(hotstuff.ID, hotstuff.SyncInfo) error { return nil }
func (s *stubSender) Vote(hotstuff.ID, hotstuff.PartialCert) error { return nil }
func (s *stubSender) Timeout(hotstuff.TimeoutMsg)                  {}
func (s *stubSender) Propose(*hotstuff.ProposeMsg)                 {}
func (s *stubSender) Sub([]hotstuff.ID) (core.Sender, error)       { return s, nil }

var _ core.Sender = (*stubSender)(nil)

// stubRuler returns the block the history chose; like the real rules it obtains it from the block store.
type stubRuler struct {
	bc     *blockchain.Blockchain
	target *hotstuff.Hash
}

func (r *stubRuler) CommitRule(*hotstuff.Block) *hotstuff.Block {
	if r.target == nil {
		return nil
	}
	b, ok := r.bc.Get(*r.target)
	if !ok {
		return nil
	}
	return b
}

// ---------------------------------------------------------------------------------------------------------------
// the property

type run struct {
	f       *forest
	bc      *blockchain.Blockchain
	el      *eventloop.EventLoop
	snd     *stubSender
	ruler   *stubRuler
	cm      *consensus.Committer
	commits []int
	aborts  []int
	seen    int // deliveries already merged into the model

	// reference model
	local   map[int]bool
	head    int // committed head (genesis at the start)
	aborted map[int]int
	classes map[string]bool
	nt      bool
}

func newRun(c History) (*run, error) {
	r := &run{f: buildForest(c), local: map[int]bool{}, head: genesis, aborted: map[int]int{}, classes: map[string]bool{}}
	key := kit.Keys(crypto.NameECDSA, 1)[0]
	cfg := core.NewRuntimeConfig(1, key)
	log := kit.Logger("c13")
	r.el = eventloop.New(log, 1<<12)
	r.snd = &stubSender{f: r.f}
	r.bc = blockchain.New(r.el, log, r.snd)
	r.snd.bc = r.bc
	base, err := crypto.New(cfg, crypto.NameECDSA)
	if err != nil {
		return nil, err
	}
	vs, err := protocol.NewViewStates(r.bc, cert.NewAuthority(cfg, r.bc, base))
	if err != nil {
		return nil, err
	}
	r.ruler = &stubRuler{bc: r.bc}
	r.cm = consensus.NewCommitter(r.el, log, r.bc, vs, r.ruler)
	eventloop.Register(r.el, func(e hotstuff.CommitEvent) {
		i, ok := r.f.byHash[e.Block.Hash()]
		if !ok {
			i = -100
			if e.Block.Hash() == hotstuff.GetGenesis().Hash() {
				i = genesis
			}
		}
		r.commits = append(r.commits, i)
	})
	eventloop.Register(r.el, func(e clientpb.AbortEvent) {
		i := genesis // the only block without commands
		if cmds := e.Batch.GetCommands(); len(cmds) > 0 {
			i = int(cmds[0].GetClientID()) - 1
		}
		r.aborts = append(r.aborts, i)
	})
	return r, nil
}

func (r *run) drain() {
	for r.el.Tick(context.Background()) {
	}
}

func (r *run) isLocal(i int) bool { return i == genesis || r.local[i] }

func (r *run) obtainable(i int) bool { return r.isLocal(i) || hasHonest(r.f.remote[i]) }

// learn merges what the peers delivered into the model: a fetched block is kept by the store.
func (r *run) learn() {
	for ; r.seen < len(r.snd.log); r.seen++ {
		d := r.snd.log[r.seen]
		switch {
		case d.arrived:
			r.classes["fetch-cancelled-by-arrival"] = true
			if i, ok := r.f.byHash[d.hash]; ok {
				r.local[i] = true
			}
		case d.ok && d.lied:
			r.classes["fetch-honest-among-liars"] = true
		case d.ok:
			r.classes["fetch-honest"] = true
		case d.lied:
			r.classes["fetch-only-liars"] = true
		default:
			r.classes["fetch-no-reply"] = true
		}
		if d.ok {
			if i, ok := r.f.byHash[d.hash]; ok {
				r.local[i] = true
			}
		}
	}
}

// extendsRef: does b lie on a's parent chain, as far as the chain can be followed over blocks that the store has or
// can fetch? determined == false: b is a's next ancestor on the chain but the store cannot obtain b itself (the
// property statement says true, an implementation that must look b up says false; real callers always pass a stored target).
func (r *run) extendsRef(a, b int) (want, determined bool) {
	if a == b {
		return true, true
	}
	cur := a
	for cur >= 0 {
		p := r.f.parent[cur]
		if p == b {
			if r.obtainable(b) {
				return true, true
			}
			return false, false
		}
		if p < 0 || !r.obtainable(p) {
			return false, true
		}
		cur = p
	}
	return false, true
}

func (r *run) name(i int) string {
	switch {
	case i == genesis:
		return "genesis"
	case i < 0 || i >= r.f.n:
		return fmt.Sprintf("unknown(%d)", i)
	}
	p := "genesis"
	if r.f.parent[i] == missing {
		p = "missing"
	} else if r.f.parent[i] >= 0 {
		p = fmt.Sprintf("b%d", r.f.parent[i])
	}
	return fmt.Sprintf("b%d(view %d, parent %s)", i, r.f.view[i], p)
}

func (r *run) names(is []int) string {
	var s []string
	for _, i := range is {
		s = append(s, r.name(i))
	}
	return "[" + strings.Join(s, " ") + "]"
}

func (r *run) checkGot(what string, want int, b *hotstuff.Block, ok, wantOK bool) *common.Result {
	if ok != wantOK {
		res := common.Fail(what+"-presence", "%s(%s) returned ok=%v, the reference forest says %v (local=%v, honest peer reply=%v)",
			what, r.name(want), ok, wantOK, r.isLocal(want), want >= 0 && hasHonest(r.f.remote[want]))
		return &res
	}
	if ok {
		if b == nil {
			res := common.Fail(what+"-nil", "%s(%s) returned (nil, true)", what, r.name(want))
			return &res
		}
		if b.Hash() != r.f.hashOf(want) {
			res := common.Fail(what+"-wrong-hash", "%s(%s) returned a block with another hash: %v", what, r.name(want), b)
			return &res
		}
		if hotstuff.Hash(sha256.Sum256(b.ToBytes())) != b.Hash() {
			res := common.Fail(what+"-hash-not-content", "%s(%s): the returned block's cached hash is not the hash of its content", what, r.name(want))
			return &res
		}
	} else if b != nil {
		res := common.Fail(what+"-block-without-ok", "%s(%s) returned a block together with ok=false", what, r.name(want))
		return &res
	}
	return nil
}

// afterCommitOp checks the events of one TryCommit against the model (head already updated).
func (r *run) afterCommitOp(step int, wantCommits []int) *common.Result {
	r.drain()
	commits, aborts := r.commits, r.aborts
	r.commits, r.aborts = nil, nil
	if fmt.Sprint(commits) != fmt.Sprint(wantCommits) {
		res := common.Fail("commit-sequence", "step %d: committed %s, the reference chain says %s", step, r.names(commits), r.names(wantCommits))
		return &res
	}
	for _, a := range aborts {
		if a != genesis && (a < 0 || a >= r.f.n) {
			res := common.Fail("abort-unknown-block", "step %d: an abort was reported for commands of no known block (%d)", step, a)
			return &res
		}
		r.classes["abort-reported"] = true
		if r.f.isAncestorOrSelf(a, r.head) {
			res := common.Fail("prune-reports-committed:"+r.siblingClass(), "step %d: after committing up to %s the store reported %s as abandoned (AbortEvent), but it is on the committed chain %s",
				step, r.name(r.head), r.name(a), r.chainNames(r.head))
			return &res
		}
		r.aborted[a]++
		if r.aborted[a] > 1 {
			res := common.Fail("abort-reported-twice", "step %d: %s was reported as abandoned a second time", step, r.name(a))
			return &res
		}
	}
	return nil
}

func (r *run) chainNames(i int) string {
	idx, _ := r.f.chain(i)
	return r.names(idx)
}

// siblingClass names the circumstance for the fingerprint: is there a known block, off the committed chain, whose view
// equals the view of a block on the committed chain?
func (r *run) siblingClass() string {
	idx, _ := r.f.chain(r.head)
	onChain := map[int]bool{}
	views := map[int]bool{}
	for _, x := range idx {
		onChain[x] = true
		views[r.f.view[x]] = true
	}
	for i := 0; i < r.f.n; i++ {
		if r.local[i] && !onChain[i] && views[r.f.view[i]] {
			return "equal-view-sibling"
		}
	}
	return "no-equal-view-sibling"
}

// equalViewKnown: two known blocks share a view that is at most the head's view.
func (r *run) equalViewKnown() bool {
	seen := map[int]bool{}
	for i := 0; i < r.f.n; i++ {
		if !r.local[i] || r.f.view[i] > r.f.viewOf(r.head) {
			continue
		}
		if seen[r.f.view[i]] {
			return true
		}
		seen[r.f.view[i]] = true
	}
	return false
}

func mod(v, n int) int { return ((v % n) + n) % n }

func prop(c History) common.Result {
	r, err := newRun(c)
	if err != nil {
		return common.Fail("harness", "setup: %v", err)
	}
	f := r.f
	pool := f.n + 1 // genesis + blocks
	pick := func(v int) int { return mod(v, pool) - 1 }
	for i := range f.blocks {
		if f.parent[i] == missing {
			r.classes["missing-ancestor"] = true
		}
		if f.parent[i] >= 0 && f.view[i] > f.view[f.parent[i]]+1 || f.parent[i] == genesis && f.view[i] > 1 {
			r.classes["gap"] = true
		}
		for j := 0; j < i; j++ {
			if f.view[i] == f.view[j] {
				r.classes["forest-equal-views"] = true
			}
			if f.parent[i] == f.parent[j] && f.parent[i] != missing {
				r.classes["fork"] = true
			}
		}
	}
	for step, op := range c.Ops {
		switch mod(op.K, nOps) {
		case opStore:
			a := pick(op.A)
			if a == genesis {
				r.bc.Store(hotstuff.GetGenesis()) // already there
				break
			}
			if r.local[a] {
				r.classes["store-again"] = true
				r.bc.Store(f.newObject(a)) // an equal block in a fresh object
			} else {
				r.bc.Store(f.blocks[a])
			}
			r.local[a] = true
		case opLocalGet:
			a := pick(op.A)
			b, ok := r.bc.LocalGet(f.hashOf(a))
			if res := r.checkGot("LocalGet", a, b, ok, r.isLocal(a)); res != nil {
				return *res
			}
		case opGet:
			a := pick(op.A)
			want := r.obtainable(a)
			if !r.isLocal(a) {
				r.classes["get-remote"] = true
			}
			b, ok := r.bc.Get(f.hashOf(a))
			if res := r.checkGot("Get", a, b, ok, want); res != nil {
				return *res
			}
			r.learn()
			if ok {
				lb, lok := r.bc.LocalGet(f.hashOf(a))
				if res := r.checkGot("LocalGet-after-Get", a, lb, lok, true); res != nil {
					return *res
				}
			}
		case opGetMissing:
			// a hash that is no block of the forest: whatever the peers send, nothing may come back
			h := missingHash(mod(op.A, 8))
			if b, ok := r.bc.Get(h); ok || b != nil {
				return common.Fail("Get-unknown-hash", "Get of a hash nobody has a block for returned (%v, %v)", b, ok)
			}
			if b, ok := r.bc.LocalGet(h); ok || b != nil {
				return common.Fail("LocalGet-unknown-hash", "LocalGet of a hash nobody has a block for returned (%v, %v)", b, ok)
			}
			r.learn()
		case opExtends:
			a, b := pick(op.A), pick(op.B)
			want, det := r.extendsRef(a, b)
			got := r.bc.Extends(f.block(a), f.block(b))
			r.learn()
			if !det {
				r.classes["extends-target-unobtainable"] = true
				break
			}
			if got != want {
				return common.Fail("extends", "step %d: Extends(%s, %s) = %v, the reference forest says %v (chain of the block: %s)", step, r.name(a), r.name(b), got, want, r.chainNames(a))
			}
			if want {
				r.classes["extends-true"] = true
			} else {
				r.classes["extends-false"] = true
			}
		case opRemote:
			a := pick(op.A)
			if a >= 0 {
				f.remote[a] = op.R
			}
		case opCommit, opCommitFwd:
			if f.n == 0 {
				break
			}
			a := mod(op.A, f.n) // the proposal handed to TryCommit
			if mod(op.K, nOps) == opCommitFwd {
				var fwd []int
				for i := 0; i < f.n; i++ {
					if i != r.head && f.isAncestorOrSelf(r.head, i) {
						fwd = append(fwd, i)
					}
				}
				if len(fwd) == 0 {
					break
				}
				a = fwd[mod(op.A, len(fwd))]
			}
			var target = missing // the block the commit rule returns (an ancestor of the proposal or the proposal), or none
			if op.B >= 0 {
				idx, _ := f.chain(a)
				up := op.B % 4
				if up >= len(idx) {
					up = len(idx) - 1
				}
				target = idx[up]
			}
			var wantCommits []int
			wantErr := false
			r.local[a] = true // TryCommit stores the proposal
			switch {
			case target == missing:
				r.ruler.target = nil
				r.classes["commit-rule-none"] = true
			case f.isAncestorOrSelf(target, r.head):
				// already committed: nothing new is committed
				h := f.hashOf(target)
				r.ruler.target = &h
				r.classes["commit-stale"] = true
			case f.isAncestorOrSelf(r.head, target):
				h := f.hashOf(target)
				r.ruler.target = &h
				if !r.obtainable(target) {
					r.classes["commit-target-unobtainable"] = true
					break // the rule cannot produce the block
				}
				path, _ := f.chain(target)
				for k, x := range path {
					if x == r.head {
						path = path[:k]
						break
					}
				}
				for _, x := range path[1:] {
					if !r.obtainable(x) {
						wantErr = true
					}
				}
				if wantErr {
					r.classes["commit-ancestor-unobtainable"] = true
					break
				}
				for k := len(path) - 1; k >= 0; k-- {
					wantCommits = append(wantCommits, path[k])
				}
				r.head = target
				r.classes["commit-advance"] = true
			default:
				// a block that conflicts with the committed chain is never handed to the committer by a safe protocol:
				// the proposal is only stored
				r.ruler.target = nil
				r.classes["commit-conflicting-skipped"] = true
			}
			err := r.cm.TryCommit(f.blocks[a])
			r.learn()
			if (err != nil) != wantErr {
				return common.Fail("commit-error", "step %d: TryCommit(%s) with rule result %s returned error %v, the reference says error=%v", step, r.name(a), r.name(target), err, wantErr)
			}
			if res := r.afterCommitOp(step, wantCommits); res != nil {
				return *res
			}
			if len(wantCommits) > 0 && r.equalViewKnown() {
				r.nt = true
				r.classes["commit-with-equal-views-known"] = true
			}
		}
	}
	// the whole history: nothing that was reported as abandoned is on the final committed chain
	var ab []int
	for a := range r.aborted {
		ab = append(ab, a)
	}
	sort.Ints(ab)
	for _, a := range ab {
		if f.isAncestorOrSelf(a, r.head) {
			return common.Fail("abort-then-committed", "%s was reported as abandoned and later committed (final chain %s)", r.name(a), r.chainNames(r.head))
		}
	}
	// final sweep with silent peers: every local answer and every ancestry answer against the reference
	for i := range f.remote {
		f.remote[i] = nil
	}
	f.missR = nil
	for a := genesis; a < f.n; a++ {
		b, ok := r.bc.LocalGet(f.hashOf(a))
		if res := r.checkGot("LocalGet", a, b, ok, r.isLocal(a)); res != nil {
			return *res
		}
		gb, gok := r.bc.Get(f.hashOf(a))
		if res := r.checkGot("Get", a, gb, gok, r.isLocal(a)); res != nil {
			return *res
		}
	}
	for a := genesis; a < f.n; a++ {
		for b := genesis; b < f.n; b++ {
			want, det := r.extendsRef(a, b)
			got := r.bc.Extends(f.block(a), f.block(b))
			if det && got != want {
				return common.Fail("extends", "final sweep: Extends(%s, %s) = %v, the reference forest says %v (chain of the block: %s; stored: %s)", r.name(a), r.name(b), got, want, r.chainNames(a), r.localNames())
			}
		}
	}
	var cl []string
	for k := range r.classes {
		cl = append(cl, k)
	}
	sort.Strings(cl)
	return common.OK(r.nt, "", cl...)
}

func (r *run) localNames() string {
	var is []int
	for i := 0; i < r.f.n; i++ {
		if r.local[i] {
			is = append(is, i)
		}
	}
	return r.names(is)
}

// ---------------------------------------------------------------------------------------------------------------
// generators

var genRep = rapid.Custom(func(rt *rapid.T) Rep {
	return Rep{K: rapid.SampledFrom([]int{1, 1, 1, 0, 2, 2, 3, 4}).Draw(rt, "kind"), X: rapid.IntRange(0, 7).Draw(rt, "x")}
})

var genReps = rapid.SliceOfN(genRep, 0, 3)

// raw block: P is canonicalised below (a value beyond the earlier blocks means "the previous block")
var genBlk = rapid.Custom(func(rt *rapid.T) Blk {
	p := rapid.SampledFrom([]int{0, 9, 9, 9, 9, 9, 9, 9, 9, 1, 2, 3, 4, 5, 6, 7, 1, 2, 3, -1}).Draw(rt, "parent")
	return Blk{P: p, DV: rapid.SampledFrom([]int{1, 1, 1, 1, 1, 1, 2, 2, 2, 3}).Draw(rt, "dv"), R: genReps.Draw(rt, "replies")}
})

var opKinds = []int{opStore, opStore, opStore, opStore, opStore, opStore, opStore, opCommitFwd, opCommitFwd, opCommitFwd, opCommit, opCommit,
	opExtends, opExtends, opExtends, opGet, opGet, opLocalGet, opRemote, opGetMissing}

var genOp = rapid.Custom(func(rt *rapid.T) Op {
	o := Op{K: rapid.SampledFrom(opKinds).Draw(rt, "op"), A: rapid.IntRange(0, 8).Draw(rt, "a")}
	switch o.K {
	case opExtends:
		o.B = rapid.IntRange(0, 8).Draw(rt, "b")
	case opCommit, opCommitFwd:
		o.B = rapid.SampledFrom([]int{0, 0, 0, 1, 1, 2, 3, -1}).Draw(rt, "up")
	case opRemote:
		o.R = genReps.Draw(rt, "newreplies")
	}
	return o
})

func genHistory(rt *rapid.T) History {
	c := History{
		Blocks: rapid.SliceOfN(genBlk, 1, 8).Draw(rt, "blocks"),
		MissR:  genReps.Draw(rt, "missreplies"),
		Ops:    rapid.SliceOfN(genOp, 1, 40).Draw(rt, "ops"),
	}
	// a prefix of plain stores, so that forks are known before the commits start
	var pre []Op
	for _, a := range rapid.SliceOfN(rapid.IntRange(1, 8), 0, 10).Draw(rt, "stored-first") {
		pre = append(pre, Op{K: opStore, A: a})
	}
	c.Ops = append(pre, c.Ops...)
	for i := range c.Blocks {
		if c.Blocks[i].P > i {
			c.Blocks[i].P = i // the previous block (genesis for the first)
		}
	}
	return c
}

// TestC13Random: random forests and histories.
func TestC13Random(t *testing.T) {
	common.Check(t, id, "TestC13Random", 60000, 3000000, genHistory, prop)
}

// TestC13SmallForests enumerates every forest of at most maxN blocks (each block: parent = genesis or any earlier block,
// view step 1 or 2), every choice of one block that is stored last (or none), and every pair of commit targets; all
// blocks are stored, the peers are silent. The final sweep of prop compares the whole ancestry relation.
func TestC13SmallForests(t *testing.T) {
	maxN := 4
	if common.Tier() == "thorough" {
		maxN = 5
	}
	common.Get(id).Note("TestC13SmallForests", map[string]any{"max_blocks": maxN, "view_steps": "1..2", "late_block": "none or any", "commit_targets": "every ordered pair of blocks (second may equal first)"})
	common.Exhaustive(t, id, "TestC13SmallForests", func(yield func(History) bool) {
		for n := 1; n <= maxN; n++ {
			par := make([]int, n) // 0..i
			dv := make([]int, n)  // 0..1
			for {
				var blocks []Blk
				for i := 0; i < n; i++ {
					blocks = append(blocks, Blk{P: par[i], DV: dv[i] + 1})
				}
				for late := -1; late < n; late++ {
					var stores []Op
					for i := 0; i < n; i++ {
						if i != late {
							stores = append(stores, Op{K: opStore, A: i + 1})
						}
					}
					if late >= 0 {
						stores = append(stores, Op{K: opStore, A: late + 1})
					}
					for t1 := 0; t1 < n; t1++ {
						for t2 := 0; t2 < n; t2++ {
							ops := append(append([]Op(nil), stores...), Op{K: opCommit, A: t1}, Op{K: opCommit, A: t2})
							if !yield(History{Blocks: blocks, Ops: ops}) {
								return
							}
						}
					}
				}
				// next forest (odometer over parent choices and view steps)
				i := n - 1
				for i >= 0 {
					if dv[i] < 1 {
						dv[i]++
						break
					}
					dv[i] = 0
					if par[i] < i {
						par[i]++
						break
					}
					par[i] = 0
					i--
				}
				if i < 0 {
					break
				}
			}
		}
	}, prop)
}
