// Package c16 checks property C16: all replicas agree on a valid leader for every view.
//
// Stateless schemes (round-robin, fixed, tree root) are enumerated exhaustively for n in 1..64 over view windows
// (0.., around 2^32, around 2^63, the top of the uint64 range) with one scheme object per replica.
// History-based schemes (carousel, reputation) are driven with generated committed chains; three independent replicas
// (one holding the proposer's original block objects, two holding wire-decoded copies, one of which repeats every query)
// must answer identically, and the answers must satisfy the candidate-set predicates derived from the property statement.
package c16

import (
	"strings"
	"fmt"
	"math/big"
	"slices"
	"testing"
	"time"

	"google.golang.org/protobuf/proto"
	"pgregory.net/rapid"

	"github.com/relab/hotstuff"
	"github.com/relab/hotstuff/core"
	"github.com/relab/hotstuff/core/eventloop"
	"github.com/relab/hotstuff/internal/latency"
	"github.com/relab/hotstuff/internal/proto/clientpb"
	"github.com/relab/hotstuff/internal/proto/hotstuffpb"
	"github.com/relab/hotstuff/internal/testutil"
	"github.com/relab/hotstuff/internal/tree"
	"github.com/relab/hotstuff/protocol"
	"github.com/relab/hotstuff/protocol/leaderrotation"
	"github.com/relab/hotstuff/security/blockchain"
	"github.com/relab/hotstuff/security/cert"
	"github.com/relab/hotstuff/security/crypto"
	"github.com/relab/hotstuff/verifx/common"
	"github.com/relab/hotstuff/verifx/kit"
)

const id = "C16"

const maxN = 64

// ---------------------------------------------------------------------------------------------------------------
// reference arithmetic (written from the definitions, not from the code under test)

// refF is the largest f with 3f < n.
func refF(n int) int {
	f := 0
	for 3*(f+1) < n {
		f++
	}
	return f
}

// refQuorum is the smallest q such that two sets of q out of n replicas share at least f+1 members.
func refQuorum(n int) int {
	f := refF(n)
	q := 1
	for 2*q-n < f+1 {
		q++
	}
	return q
}

// refRR is the round-robin leader of the property statement: view mod n, plus one (ids start at 1).
func refRR(v uint64, n int) hotstuff.ID {
	return hotstuff.ID(v%uint64(n)) + 1
}

func plainConfig(self hotstuff.ID, n int, opts ...core.RuntimeOption) *core.RuntimeConfig {
	cfg := core.NewRuntimeConfig(self, nil, opts...)
	for i := 1; i <= n; i++ {
		cfg.AddReplica(&hotstuff.ReplicaInfo{ID: hotstuff.ID(i)})
	}
	return cfg
}

// ---------------------------------------------------------------------------------------------------------------
// stateless schemes

type window struct {
	Name  string
	Start uint64 // first view
	Len   int    // number of consecutive views (never wraps past 2^64-1)
}

func windows() []window {
	span := 4096
	return []window{
		{"low", 0, span + 1},
		{"2^32", 1<<32 - uint64(span)/2, span + 1},
		{"2^63", 1<<63 - uint64(span)/2, span + 1},
		{"top", ^uint64(0) - uint64(span), span + 1}, // ends exactly at 2^64-1
	}
}

type rrCase struct {
	N      int
	Window string
}

// TestC16RoundRobin: for every n in 1..64, every replica's round-robin object (built by the factory the real replica
// uses) answers v mod n + 1 for every view of the window, the answer is a configured replica, successive views hand the
// turn to the next replica, and every n consecutive views name n distinct replicas.
func TestC16RoundRobin(t *testing.T) {
	ws := windows()
	e := common.Get(id)
	common.Exhaustive(t, id, "TestC16RoundRobin", func(yield func(rrCase) bool) {
		for n := 1; n <= maxN; n++ {
			for _, w := range ws {
				if !yield(rrCase{n, w.Name}) {
					return
				}
			}
		}
	}, func(c rrCase) common.Result {
		var w window
		for _, x := range ws {
			if x.Name == c.Window {
				w = x
			}
		}
		if w.Len == 0 || c.N < 1 {
			return common.Fail("harness", "bad case %+v", c)
		}
		n := c.N
		// one scheme object per replica, each with its own configuration object
		lrs := make([]leaderrotation.LeaderRotation, 0, n+1)
		for r := 1; r <= n; r++ {
			name := leaderrotation.NameRoundRobin
			if r%2 == 0 {
				name = "" // documented default of the factory
			}
			lr, err := leaderrotation.New(kit.Logger("rr"), plainConfig(hotstuff.ID(r), n), nil, nil, name, 3)
			if err != nil || lr == nil {
				return common.Fail("factory", "factory refused %q: %v", name, err)
			}
			lrs = append(lrs, lr)
		}
		lrs = append(lrs, leaderrotation.NewRoundRobin(plainConfig(1, n)))

		// closed form at the start of the window by arbitrary-precision arithmetic, then the cyclic successor
		start := new(big.Int).SetUint64(w.Start)
		exp := hotstuff.ID(new(big.Int).Mod(start, big.NewInt(int64(n))).Int64() + 1)
		last := make([]int, n+1) // index of the last view that named the replica, -1 = never
		for i := range last {
			last[i] = -1
		}
		for i := 0; i < w.Len; i++ {
			v := hotstuff.View(w.Start + uint64(i))
			got := lrs[0].GetLeader(v)
			if got != exp {
				return common.Fail("rr-closed-form", "n=%d view=%d: round-robin leader %d, want view mod n + 1 = %d", n, v, got, exp)
			}
			if exp != refRR(uint64(v), n) {
				return common.Fail("harness", "reference disagreement at n=%d view=%d", n, v)
			}
			if got < 1 || int(got) > n {
				return common.Fail("rr-member", "n=%d view=%d: leader %d is not a configured replica", n, v, got)
			}
			for r, lr := range lrs[1:] {
				if o := lr.GetLeader(v); o != got {
					return common.Fail("rr-agree", "n=%d view=%d: replica 1 says %d, replica %d says %d", n, v, got, r+2, o)
				}
			}
			if o := leaderrotation.ChooseRoundRobin(v, n); o != got {
				return common.Fail("rr-agree", "n=%d view=%d: ChooseRoundRobin says %d, RoundRobin says %d", n, v, o, got)
			}
			// every n consecutive views are a permutation: the same replica may not return within n views
			if last[got] >= 0 && i-last[got] < n {
				return common.Fail("rr-permutation", "n=%d: replica %d leads views %d and %d (fewer than n apart)", n, got, w.Start+uint64(last[got]), v)
			}
			if i >= n && (last[got] < 0 || i-last[got] != n) {
				return common.Fail("rr-permutation", "n=%d view=%d: replica %d had no turn in the previous n views", n, v, got)
			}
			last[got] = i
			exp = exp%hotstuff.ID(n) + 1
		}
		e.Bulk("TestC16RoundRobin", int64(w.Len)-1, "view:"+w.Name)
		return common.OK(true, fmt.Sprintf("%d/%s", n, w.Name), "window:"+w.Name)
	})
}

func sampleViews(n int) []hotstuff.View {
	vs := []hotstuff.View{}
	for v := 0; v <= 2*maxN+2; v++ {
		vs = append(vs, hotstuff.View(v))
	}
	for _, b := range []uint64{1 << 32, 1 << 63, uint64(n) << 32} {
		for d := -2; d <= 2; d++ {
			vs = append(vs, hotstuff.View(b+uint64(d)))
		}
	}
	vs = append(vs, hotstuff.View(^uint64(0)), hotstuff.View(^uint64(0)-1))
	return vs
}

// positions builds a permutation of 1..n of the given kind.
func positions(n, kind int) []hotstuff.ID {
	p := make([]hotstuff.ID, n)
	for i := range p {
		p[i] = hotstuff.ID(i + 1)
	}
	switch kind {
	case 0: // identity (the default tree)
	case 1:
		slices.Reverse(p)
	case 2: // rotate by one third
		k := n / 3
		p = append(p[k:], p[:k]...)
	case 3: // rotate by n-1: the last replica is the root... of a left rotation by one
		if n > 1 {
			p = append(p[1:], p[0])
		}
	case 4: // stride permutation with a stride coprime to n, starting in the middle
		s := 1
		for c := n/2 + 1; c < 2*n+2; c++ {
			if gcd(c, n) == 1 {
				s = c
				break
			}
		}
		for i := range p {
			p[i] = hotstuff.ID((n/2+i*s)%n + 1)
		}
	case 5: // swap first and last
		p[0], p[n-1] = p[n-1], p[0]
	}
	return p
}

func gcd(a, b int) int {
	for b != 0 {
		a, b = b, a%b
	}
	return a
}

type treeCase struct {
	N, BF     int
	Delayed   bool
	Positions []uint32
}

func treeProp(c treeCase) common.Result {
	n := c.N
	if n < 1 || len(c.Positions) != n || c.BF < 2 {
		return common.Fail("harness", "bad case")
	}
	pos := make([]hotstuff.ID, n)
	seen := map[hotstuff.ID]bool{}
	for i, p := range c.Positions {
		pos[i] = hotstuff.ID(p)
		if p < 1 || int(p) > n || seen[pos[i]] {
			return common.Fail("harness", "positions are not a permutation of 1..n")
		}
		seen[pos[i]] = true
	}
	want := pos[0]
	views := sampleViews(n)
	for r := 1; r <= n; r++ {
		self := hotstuff.ID(r)
		var tr *tree.Tree
		if c.Delayed {
			tr = tree.NewDelayed(self, tree.DelayTypeNone, c.BF, latency.Matrix{}, slices.Clone(pos), time.Millisecond)
		} else {
			tr = tree.NewSimple(self, c.BF, slices.Clone(pos))
		}
		cfg := plainConfig(self, n, core.WithKauriTree(tr))
		lr, err := leaderrotation.New(kit.Logger("tree"), cfg, nil, nil, leaderrotation.NameTree, 3)
		if err != nil || lr == nil {
			return common.Fail("factory", "factory refused tree-leader: %v", err)
		}
		if root := tr.Root(); root != want {
			return common.Fail("tree-root", "n=%d bf=%d positions=%v: replica %d's tree has root %d, position 0 holds %d", n, c.BF, pos, r, root, want)
		}
		if !tr.IsRoot(want) {
			return common.Fail("tree-root", "n=%d positions=%v: replica %d's tree denies that %d is the root", n, pos, r, want)
		}
		for _, v := range views {
			if got := lr.GetLeader(v); got != want {
				return common.Fail("tree-leader", "n=%d bf=%d positions=%v: replica %d names leader %d in view %d, tree root is %d", n, c.BF, pos, r, got, v, want)
			}
		}
	}
	classes := []string{"tree"}
	if want != 1 {
		classes = append(classes, "root-not-1")
	}
	if c.Delayed {
		classes = append(classes, "delayed-tree")
	}
	return common.OK(want != 1, "", classes...)
}

type fixedCase struct{ N int }

// TestC16Fixed: the fixed scheme and the tree scheme without a tree name one constant, configured replica on every replica.
func TestC16Fixed(t *testing.T) {
	common.Exhaustive(t, id, "TestC16Fixed", func(yield func(fixedCase) bool) {
		for n := 1; n <= maxN; n++ {
			if !yield(fixedCase{n}) {
				return
			}
		}
	}, func(c fixedCase) common.Result {
		n := c.N
		views := sampleViews(n)
		for r := 1; r <= n; r++ {
			cfg := plainConfig(hotstuff.ID(r), n)
			byName, err := leaderrotation.New(kit.Logger("fx"), cfg, nil, nil, leaderrotation.NameFixed, 3)
			if err != nil || byName == nil {
				return common.Fail("factory", "factory refused fixed: %v", err)
			}
			noTree, err := leaderrotation.New(kit.Logger("fx"), cfg, nil, nil, leaderrotation.NameTree, 3)
			if err != nil || noTree == nil {
				return common.Fail("factory", "factory refused tree-leader: %v", err)
			}
			direct := leaderrotation.NewFixed(hotstuff.ID(r)) // any configured replica can be the fixed leader
			f0, t0 := byName.GetLeader(0), noTree.GetLeader(0)
			if f0 < 1 || int(f0) > n || t0 < 1 || int(t0) > n {
				return common.Fail("fixed-member", "n=%d: fixed leader %d / tree-less leader %d is not configured", n, f0, t0)
			}
			if f0 != 1 || t0 != 1 {
				return common.Fail("fixed-agree", "n=%d replica %d: fixed leader %d, tree-less leader %d; every replica must name replica 1", n, r, f0, t0)
			}
			for _, v := range views {
				if g := byName.GetLeader(v); g != f0 {
					return common.Fail("fixed-constant", "n=%d view=%d: fixed leader changed from %d to %d", n, v, f0, g)
				}
				if g := noTree.GetLeader(v); g != t0 {
					return common.Fail("fixed-constant", "n=%d view=%d: tree-less leader changed from %d to %d", n, v, t0, g)
				}
				if g := direct.GetLeader(v); g != hotstuff.ID(r) {
					return common.Fail("fixed-constant", "n=%d view=%d: NewFixed(%d) names %d", n, v, r, g)
				}
			}
		}
		if lr, err := leaderrotation.New(kit.Logger("fx"), plainConfig(1, n), nil, nil, "no-such-scheme", 3); err == nil || lr != nil {
			return common.Fail("factory", "factory accepted an unknown scheme name")
		}
		return common.OK(true, fmt.Sprint(n), "fixed")
	})
}

// TestC16TreeKinds: tree-based leader = position 0 of the shared position list, for every replica's own tree object
// (n in 1..64, branch factors 2..5, six permutation shapes).
func TestC16TreeKinds(t *testing.T) {
	common.Exhaustive(t, id, "TestC16TreeKinds", func(yield func(treeCase) bool) {
		for n := 1; n <= maxN; n++ {
			for bf := 2; bf <= 5; bf++ {
				for kind := 0; kind <= 5; kind++ {
					p := positions(n, kind)
					u := make([]uint32, n)
					for i := range p {
						u[i] = uint32(p[i])
					}
					if !yield(treeCase{N: n, BF: bf, Delayed: kind%2 == 1, Positions: u}) {
						return
					}
				}
			}
		}
	}, treeProp)
}

// TestC16TreeRandom: the same for random permutations.
func TestC16TreeRandom(t *testing.T) {
	common.Check(t, id, "TestC16TreeRandom", 1000, 100000, func(rt *rapid.T) treeCase {
		n := rapid.IntRange(1, maxN).Draw(rt, "n")
		base := make([]uint32, n)
		for i := range base {
			base[i] = uint32(i + 1)
		}
		return treeCase{
			N:         n,
			BF:        rapid.IntRange(2, 8).Draw(rt, "bf"),
			Delayed:   rapid.Bool().Draw(rt, "delayed"),
			Positions: rapid.Permutation(base).Draw(rt, "positions"),
		}
	}, treeProp)
}

// ---------------------------------------------------------------------------------------------------------------
// history-based schemes

// blockSpec describes one block of the committed chain. Block i+1 extends block i; the first block extends genesis
// and carries the unsigned genesis certificate, every later block carries a certificate for its parent signed by Signers.
type blockSpec struct {
	Gap      int   // view distance to the parent (>1: views that timed out)
	Proposer int   // 1..n
	Signers  []int // distinct ids in vote-arrival order, at least a quorum; ignored for the first block
	// GenSig (first block only): what the genesis certificate of the first block carries besides view 0 and the genesis hash.
	// The genesis certificate verifies whatever its signature field holds, so a Byzantine proposer of the first block chooses:
	// 0 nothing (what honest proposers send), 1 a signature object without participants, 2 a signature "by" the replicas in
	// JunkSigners, 3 the same plus a replica id outside the configuration.
	GenSig      int
	JunkSigners []int
}

const (
	opCommit   = 0 // the committed head advances by K blocks (one UpdateCommittedBlock per block, as the committer does)
	opQueryRel = 1 // GetLeader(head view + chain length + Rel); Rel 0 is the view in which the carousel is active
	opQueryAbs = 2 // GetLeader(Abs)
)

type op struct {
	Kind int
	K    int
	Rel  int
	Abs  uint64
}

type histCase struct {
	Sig      string // signature scheme of the certificates (decides how Participants() iterates)
	Real     bool   // certificates are made by real authorities from real votes and verified; otherwise restored signature objects
	N        int
	ChainLen int // the consensus rule's chain length (2 fast-hotstuff, 3 chained/simple)
	Seed     int64
	Base     uint64 // view of genesis' child = Base + Gap
	Blocks   []blockSpec
	Ops      []op
}

var infinityG2 = func() []byte { b := make([]byte, 96); b[0] = 0xc0; return b }()

// restoredSig builds a signature object of the scheme whose participants are the signers (in that order where the
// scheme keeps an order). No leader-rotation scheme looks at signature bytes.
func restoredSig(scheme string, signers []int) (hotstuff.QuorumSignature, error) {
	switch scheme {
	case crypto.NameECDSA:
		sigs := make([]*crypto.ECDSASignature, len(signers))
		for i, s := range signers {
			sigs[i] = crypto.RestoreECDSASignature([]byte{byte(s), 1, 2, 3}, hotstuff.ID(s))
		}
		return crypto.NewMulti(sigs...), nil
	case crypto.NameEDDSA:
		sigs := make([]*crypto.EDDSASignature, len(signers))
		for i, s := range signers {
			sigs[i] = crypto.RestoreEDDSASignature([]byte{byte(s), 4, 5, 6}, hotstuff.ID(s))
		}
		return crypto.NewMulti(sigs...), nil
	case crypto.NameBLS12:
		var bf crypto.Bitfield
		for _, s := range signers {
			bf.Add(hotstuff.ID(s))
		}
		return crypto.RestoreBLS12AggregateSignature(infinityG2, bf)
	}
	return nil, fmt.Errorf("unknown scheme %q", scheme)
}

var domainAuthority *cert.Authority

// domainAuth is an authority used only to decide whether a generated certificate belongs to the domain (verifies).
func domainAuth() *cert.Authority {
	if domainAuthority == nil {
		domainAuthority = kit.NewCluster(crypto.NameECDSA, 4)[0].Auth
	}
	return domainAuthority
}

// replica is one independent replica: own configuration, block store, view states, own copies of the blocks.
type replica struct {
	cfg    *core.RuntimeConfig
	bc     *blockchain.Blockchain
	vs     *protocol.ViewStates
	blocks []*hotstuff.Block // blocks[0] = genesis, blocks[i] = Blocks[i-1]
}

func (r *replica) scheme(name string, chainLen int) (leaderrotation.LeaderRotation, error) {
	return leaderrotation.New(kit.Logger("lr"), r.cfg, r.bc, r.vs, name, chainLen)
}

// commit makes block i the committed head the way consensus.Committer does: the view states learn the block, then the store
// is pruned up to it (the history-based schemes read the committed chain back from that store).
func (r *replica) commit(i int) {
	r.vs.UpdateCommittedBlock(r.blocks[i])
	// PruneToHeight visits every view between the old and the new prune height: only chains that start at a small view are
	// pruned (a chain that starts near 2^32 or 2^63 exercises the schemes' arithmetic, not the store)
	if r.blocks[i].View() < 1<<16 {
		r.bc.PruneToHeight(r.blocks[i], r.blocks[i].View())
	}
}

func newPlainReplica(self hotstuff.ID, n int, seed int64) (*replica, error) {
	cfg := plainConfig(self, n, core.WithSharedRandomSeed(seed))
	log := kit.Logger("r")
	snd := testutil.NewMockSender(self)
	bc := blockchain.New(eventloop.New(log, 16), log, snd)
	snd.AddBlockchain(bc) // a fetch of a block the replica does not hold asks stores that do not hold it either: it fails, it does not panic
	vs, err := protocol.NewViewStates(bc, cert.NewAuthority(cfg, bc, crypto.NewECDSA(cfg)))
	if err != nil {
		return nil, err
	}
	return &replica{cfg: cfg, bc: bc, vs: vs}, nil
}

func validCase(c histCase) error {
	if c.N < 1 || c.N > maxN || c.ChainLen < 1 || c.ChainLen > 8 || c.Base > 1<<63+1<<20 {
		return fmt.Errorf("parameters out of range")
	}
	q := refQuorum(c.N)
	for i, b := range c.Blocks {
		if b.Gap < 1 || b.Gap > 1000 || b.Proposer < 1 || b.Proposer > c.N {
			return fmt.Errorf("block %d: bad gap or proposer", i)
		}
		if i == 0 {
			continue
		}
		if len(b.Signers) < q {
			return fmt.Errorf("block %d: %d signers are no quorum of %d", i, len(b.Signers), c.N)
		}
		seen := map[int]bool{}
		for _, s := range b.Signers {
			if s < 1 || s > c.N || seen[s] {
				return fmt.Errorf("block %d: bad signer list", i)
			}
			seen[s] = true
		}
	}
	return nil
}

// world builds the three replicas and their block objects from the case.
// Replica 0 holds the blocks as the proposers built them; replicas 1 and 2 hold copies decoded from the wire format.
func world(c histCase) ([]*replica, error) {
	if err := validCase(c); err != nil {
		return nil, err
	}
	n := c.N
	ids := []hotstuff.ID{1, hotstuff.ID(n), hotstuff.ID((n + 1) / 2)}
	reps := make([]*replica, 3)
	var members []*kit.Member
	if c.Real {
		members = kit.NewCluster(c.Sig, n, core.WithSharedRandomSeed(c.Seed))
		for i, rid := range ids {
			m := members[rid-1]
			if i > 0 && (m.ID == ids[0] || (i == 2 && m.ID == ids[1])) {
				// fewer than three distinct replicas: build another replica object with the same identity
				m = kit.NewCluster(c.Sig, n, core.WithSharedRandomSeed(c.Seed))[rid-1]
			}
			vs, err := protocol.NewViewStates(m.BC, m.Auth)
			if err != nil {
				return nil, err
			}
			reps[i] = &replica{cfg: m.Cfg, bc: m.BC, vs: vs}
		}
	} else {
		for i, rid := range ids {
			r, err := newPlainReplica(rid, n, c.Seed)
			if err != nil {
				return nil, err
			}
			reps[i] = r
		}
	}
	for _, r := range reps {
		r.blocks = []*hotstuff.Block{hotstuff.GetGenesis()}
	}
	view := c.Base
	parent := hotstuff.GetGenesis()
	for i, spec := range c.Blocks {
		view += uint64(spec.Gap)
		var qc hotstuff.QuorumCert
		switch {
		case i == 0:
			var gs hotstuff.QuorumSignature
			if spec.GenSig != 0 {
				junk := append([]int(nil), spec.JunkSigners...)
				if spec.GenSig == 1 {
					junk = nil
				}
				if spec.GenSig == 3 {
					junk = append(junk, n+5)
				}
				var err error
				if gs, err = restoredSig(c.Sig, junk); err != nil {
					return nil, err
				}
			}
			qc = hotstuff.NewQuorumCert(gs, 0, hotstuff.GetGenesis().Hash())
			// committed chains consist of blocks that honest replicas voted for, and they only vote for a block whose
			// certificate verifies: a first block whose genesis certificate is refused is outside the domain
			if err := domainAuth().VerifyQuorumCert(qc); err != nil {
				return nil, fmt.Errorf("the first block's genesis certificate does not verify (case outside the domain): %w", err)
			}
		case c.Real:
			// the leader combines the votes in arrival order
			votes := make([]hotstuff.PartialCert, len(spec.Signers))
			for j, s := range spec.Signers {
				pc, err := members[s-1].Auth.CreatePartialCert(parent)
				if err != nil {
					return nil, fmt.Errorf("vote: %w", err)
				}
				votes[j] = pc
			}
			leader := members[spec.Proposer-1]
			if len(votes) == 1 {
				qc = hotstuff.NewQuorumCert(votes[0].Signature(), parent.View(), parent.Hash())
			} else {
				var err error
				if qc, err = leader.Auth.CreateQuorumCert(parent, votes); err != nil {
					return nil, fmt.Errorf("create QC: %w", err)
				}
			}
			if err := members[(spec.Proposer)%n].Auth.VerifyQuorumCert(qc); err != nil {
				return nil, fmt.Errorf("the generated certificate does not verify (case outside the domain): %w", err)
			}
		default:
			sig, err := restoredSig(c.Sig, spec.Signers)
			if err != nil {
				return nil, err
			}
			qc = hotstuff.NewQuorumCert(sig, parent.View(), parent.Hash())
		}
		b := kit.NewBlock(parent.Hash(), qc, &clientpb.Batch{}, hotstuff.View(view), hotstuff.ID(spec.Proposer))
		b.SetTimestamp(time.Unix(1_700_000_000, int64(i)))
		wire, err := proto.Marshal(hotstuffpb.BlockToProto(b))
		if err != nil {
			return nil, err
		}
		for k, r := range reps {
			mine := b
			if k > 0 {
				var pb hotstuffpb.Block
				if err := proto.Unmarshal(wire, &pb); err != nil {
					return nil, err
				}
				mine = hotstuffpb.BlockFromProto(&pb)
				if mine.Hash() != b.Hash() {
					return nil, fmt.Errorf("decoded block has another hash")
				}
			}
			r.bc.Store(mine)
			r.blocks = append(r.blocks, mine)
		}
		if c.Real {
			kit.StoreAll(members, b) // the other members (vote signers, verifier); no-op where already stored
		}
		parent = b
	}
	return reps, nil
}

// chainModel answers questions about the case's chain without touching repository code.
type chainModel struct {
	c     histCase
	views []uint64 // views[i] of blocks[i]; views[0] = 0 (genesis)
}

func newModel(c histCase) chainModel {
	m := chainModel{c: c, views: []uint64{0}}
	v := c.Base
	for _, b := range c.Blocks {
		v += uint64(b.Gap)
		m.views = append(m.views, v)
	}
	return m
}

// signed: the committed head carries a signed certificate.
func (m chainModel) signed(head int) bool { return head >= 2 }

func (m chainModel) signers(head int) []int { return m.c.Blocks[head-1].Signers }

// excluded returns the proposers of the last f committed blocks (the head and its ancestors, genesis excluded).
func (m chainModel) excluded(head int) (authors []int, blocks int) {
	f := refF(m.c.N)
	for i := head; i >= 1 && blocks < f; i-- {
		authors = append(authors, m.c.Blocks[i-1].Proposer)
		blocks++
	}
	return
}

// candidates = signers of the head's certificate that proposed none of the last f committed blocks.
func (m chainModel) candidates(head int) (cands []int, exclBlocks int, hit bool) {
	ex, nb := m.excluded(head)
	for _, s := range m.signers(head) {
		if slices.Contains(ex, s) {
			hit = true
			continue
		}
		cands = append(cands, s)
	}
	return cands, nb, hit
}

func (m chainModel) queryView(o op, head int) uint64 {
	if o.Kind == opQueryAbs {
		return o.Abs
	}
	base := m.views[head] + uint64(m.c.ChainLen)
	if o.Rel < 0 && uint64(-o.Rel) > base {
		return 0
	}
	return base + uint64(int64(o.Rel))
}

type classSet map[string]bool

func (s classSet) list() []string {
	out := make([]string, 0, len(s))
	for k := range s {
		out = append(out, k)
	}
	slices.Sort(out)
	return out
}

// runHistory interprets the op list on the three replicas for one scheme and applies the oracle to every query.
func runHistory(c histCase, name string, reps []*replica, cl classSet) (nontrivial bool, fail *common.Result) {
	m := newModel(c)
	n := c.N
	lrs := make([]leaderrotation.LeaderRotation, len(reps))
	for i, r := range reps {
		lr, err := r.scheme(name, c.ChainLen)
		if err != nil || lr == nil {
			f := common.Fail("factory", "factory refused %q: %v", name, err)
			return false, &f
		}
		lrs[i] = lr
	}
	bad := func(fp, format string, args ...any) (bool, *common.Result) {
		f := common.Fail(fp, format, args...)
		return true, &f
	}
	head := 0
	headsSeen := 0 // distinct signed heads at which the reputation scheme was queried (not an old view)
	lastSeen := -1
	for step, o := range c.Ops {
		if o.Kind == opCommit {
			for k := 0; k < o.K && head < len(c.Blocks); k++ {
				head++
				for _, r := range reps {
					r.commit(head)
				}
			}
			continue
		}
		v := m.queryView(o, head)
		a := lrs[0].GetLeader(hotstuff.View(v))
		b := lrs[1].GetLeader(hotstuff.View(v))
		s1 := lrs[2].GetLeader(hotstuff.View(v))
		s2 := lrs[2].GetLeader(hotstuff.View(v)) // this replica asks every question twice
		where := fmt.Sprintf("%s n=%d chainLength=%d step %d: head=block %d (view %d) query view %d", name, n, c.ChainLen, step, head, m.views[head], v)
		if a != b {
			return bad(name+"-disagree", "%s: the proposer-side replica answers %d, a replica with wire-decoded blocks answers %d", where, a, b)
		}
		if s1 != s2 {
			return bad(name+"-repeat", "%s: the same question asked twice in a row is answered %d then %d", where, s1, s2)
		}
		if s1 != a {
			return bad(name+"-repeat", "%s: a replica that asked every earlier question twice answers %d, the others %d", where, s1, a)
		}
		member := a >= 1 && int(a) <= n
		active := m.signed(head) && v == m.views[head]+uint64(c.ChainLen)
		// the head is the first block and its genesis certificate carries a signature object of the proposer's choosing:
		// nothing about "signers" can be demanded; the answers must still agree (checked above) and name a configured replica
		if head == 1 && c.Blocks[0].GenSig != 0 {
			cl["junk-genesis-signature"] = true
			switch name {
			case leaderrotation.NameCarousel:
				if !member {
					return bad("carousel-member", "%s: the committed head carries a genesis certificate with a junk signature (kind %d, signers %v); leader %d is not a configured replica", where, c.Blocks[0].GenSig, c.Blocks[0].JunkSigners, a)
				}
			case leaderrotation.NameReputation:
				if a != 0 && !member {
					return bad("reputation-member", "%s: the committed head carries a genesis certificate with a junk signature; leader %d is neither a configured replica nor 0", where, a)
				}
			}
			continue
		}
		if v >= 1<<32 {
			cl["view>=2^32"] = true
		}
		if v >= 1<<63 {
			cl["view>=2^63"] = true
		}
		switch name {
		case leaderrotation.NameCarousel:
			if !member {
				return bad("carousel-member", "%s: leader %d is not a configured replica", where, a)
			}
			if !active {
				if a != refRR(v, n) {
					return bad("carousel-fallback", "%s: carousel is not active (signed head certificate: %v) but the answer %d is not round-robin %d", where, m.signed(head), a, refRR(v, n))
				}
				switch {
				case head == 0:
					cl["rr-genesis-head"] = true
				case !m.signed(head):
					cl["rr-startup"] = true
				default:
					cl["rr-inactive"] = true
				}
				continue
			}
			cands, exclBlocks, hit := m.candidates(head)
			if !slices.Contains(cands, int(a)) {
				ex, _ := m.excluded(head)
				return bad("carousel-candidate", "%s: active carousel chose %d; signers of the head certificate %v, proposers of the last f=%d committed blocks %v, so the candidates are %v",
					where, a, m.signers(head), refF(n), ex, cands)
			}
			cl["active"] = true
			if exclBlocks > 0 {
				nontrivial = true
				cl["active-excl"] = true
				if hit {
					cl["active-excl-removes-signer"] = true
				}
				if exclBlocks == refF(n) {
					cl["active-excl-full-f"] = true
				}
				if exclBlocks >= 2 {
					cl["active-excl>=2"] = true
				}
			}
			if len(m.signers(head)) == refQuorum(n) {
				cl["active-min-quorum"] = true
			}
		case leaderrotation.NameReputation:
			if a != 0 && !member {
				return bad("reputation-member", "%s: leader %d is neither a configured replica nor the no-answer value 0", where, a)
			}
			// Views below the chain length only occur at start-up (the head is genesis or its child); the scheme's
			// "old view" test is not meaningful there and the property only asks for agreement and no unknown replica.
			tiny := v < uint64(c.ChainLen)
			old := !tiny && v < m.views[head]+uint64(c.ChainLen)
			switch {
			case tiny:
				cl["rep-tiny-view"] = true
			case old:
				// documented as unsupported; any answer (in practice 0) is accepted
				cl["rep-old-view"] = true
			case !m.signed(head):
				if a != refRR(v, n) {
					return bad("reputation-startup", "%s: no signed certificate yet, but the answer %d is not round-robin %d", where, a, refRR(v, n))
				}
				cl["rep-startup-rr"] = true
			default:
				if a != 0 && !slices.Contains(m.signers(head), int(a)) {
					return bad("reputation-candidate", "%s: reputation chose %d which did not sign the head certificate (signers %v)", where, a, m.signers(head))
				}
				if head != lastSeen {
					lastSeen = head
					headsSeen++
				}
				if a == 0 {
					cl["rep-no-leader-zero-weights"] = true
				} else {
					cl["rep-weighted"] = true
					if headsSeen >= 2 {
						nontrivial = true
						cl["rep-weighted-accumulated"] = true
					}
				}
			}
		}
	}
	return nontrivial, nil
}

func histProp(names ...string) func(histCase) common.Result {
	return func(c histCase) common.Result {
		cl := classSet{}
		nt := false
		for _, name := range names {
			reps, err := world(c) // fresh replicas per scheme
			if err != nil && strings.Contains(err.Error(), "outside the domain") {
				return common.OK(false, "", "outside the domain: a generated certificate is refused by verification")
			}
			if err != nil {
				return common.Fail("harness", "cannot build the case: %v", err)
			}
			x, fail := runHistory(c, name, reps, cl)
			if fail != nil {
				return *fail
			}
			nt = nt || x
		}
		cl["sig:"+c.Sig] = true
		switch {
		case c.N <= 3:
			cl["n<=3(f=0)"] = true
		case c.N <= 7:
			cl["n4-7"] = true
		case c.N <= 21:
			cl["n8-21"] = true
		default:
			cl["n22-64"] = true
		}
		return common.OK(nt, "", cl.list()...)
	}
}

func genSigners(rt *rapid.T, n int, label string) []int {
	q := refQuorum(n)
	all := make([]int, n)
	for i := range all {
		all[i] = i + 1
	}
	k := q
	switch rapid.IntRange(0, 3).Draw(rt, label+"-size") {
	case 0, 1: // exactly a quorum: the smallest candidate set
	case 2:
		k = rapid.IntRange(q, n).Draw(rt, label+"-k")
	case 3:
		k = n
	}
	return rapid.Permutation(all).Draw(rt, label)[:k]
}

func genChain(rt *rapid.T, n, minLen, maxLen int) []blockSpec {
	l := rapid.IntRange(minLen, maxLen).Draw(rt, "blocks")
	bs := make([]blockSpec, l)
	// a small pool of proposers makes repeated proposers (and proposers that also signed) frequent
	for i := range bs {
		gap := 1
		if rapid.IntRange(0, 3).Draw(rt, "gapkind") == 0 {
			gap = rapid.IntRange(1, 4).Draw(rt, "gap")
		}
		bs[i] = blockSpec{Gap: gap, Proposer: rapid.IntRange(1, n).Draw(rt, "proposer")}
		if i > 0 {
			bs[i].Signers = genSigners(rt, n, "signers")
		} else {
			bs[i].GenSig = rapid.SampledFrom([]int{0, 0, 0, 0, 0, 1, 2, 3}).Draw(rt, "gensig")
			if bs[i].GenSig >= 2 {
				bs[i].JunkSigners = rapid.SliceOfNDistinct(rapid.IntRange(1, n), 0, n, func(x int) int { return x }).Draw(rt, "junksigners")
			}
		}
	}
	return bs
}

func genN(rt *rapid.T, hi int) int {
	switch rapid.IntRange(0, 3).Draw(rt, "nkind") {
	case 0:
		return rapid.IntRange(1, min(7, hi)).Draw(rt, "n")
	case 1: // 3f+1 and its neighbours
		f := rapid.IntRange(1, (hi-1)/3).Draw(rt, "f")
		return min(hi, 3*f+rapid.IntRange(0, 2).Draw(rt, "d"))
	default:
		return rapid.IntRange(1, hi).Draw(rt, "n")
	}
}

func genBase(rt *rapid.T) uint64 {
	switch rapid.IntRange(0, 5).Draw(rt, "basekind") {
	case 0:
		return 1<<32 - uint64(rapid.IntRange(0, 40).Draw(rt, "below"))
	case 1:
		return 1<<63 - uint64(rapid.IntRange(0, 40).Draw(rt, "below"))
	case 2:
		return rapid.Uint64Range(0, 1<<63).Draw(rt, "base")
	default:
		return 0
	}
}

func genOps(rt *rapid.T, maxOps int) []op {
	k := rapid.IntRange(1, maxOps).Draw(rt, "ops")
	ops := make([]op, k)
	for i := range ops {
		switch rapid.IntRange(0, 9).Draw(rt, "opkind") {
		case 0, 1, 2:
			ops[i] = op{Kind: opCommit, K: rapid.IntRange(1, 3).Draw(rt, "k")}
		case 3, 4, 5, 6:
			ops[i] = op{Kind: opQueryRel, Rel: 0}
		case 7, 8:
			ops[i] = op{Kind: opQueryRel, Rel: rapid.IntRange(-6, 6).Draw(rt, "rel")}
		default:
			ops[i] = op{Kind: opQueryAbs, Abs: rapid.Uint64().Draw(rt, "abs")}
		}
	}
	return ops
}

func genHist(rt *rapid.T) histCase {
	n := genN(rt, maxN)
	maxBlocks := 12
	if rapid.IntRange(0, 4).Draw(rt, "long") == 0 {
		maxBlocks = 30
	}
	return histCase{
		Sig:      rapid.SampledFrom(kit.Schemes).Draw(rt, "sig"),
		N:        n,
		ChainLen: rapid.SampledFrom([]int{3, 3, 2, 2, 1, 4}).Draw(rt, "chainlen"),
		Seed:     rapid.OneOf(rapid.Just(int64(0)), rapid.Int64()).Draw(rt, "seed"),
		Base:     genBase(rt),
		Blocks:   genChain(rt, n, 0, maxBlocks),
		Ops:      genOps(rt, 40),
	}
}

// TestC16Carousel: carousel on generated committed chains and query sequences.
func TestC16Carousel(t *testing.T) {
	common.Check(t, id, "TestC16Carousel", 8000, 500000, genHist, histProp(leaderrotation.NameCarousel))
}

// TestC16Reputation: reputation on generated committed chains and query sequences.
func TestC16Reputation(t *testing.T) {
	common.Check(t, id, "TestC16Reputation", 8000, 500000, genHist, histProp(leaderrotation.NameReputation))
}

// TestC16RealChain: both schemes on chains whose certificates are created by real authorities from real votes
// (the leader combines the votes in arrival order), verified by another replica, and shipped through the wire format.
func TestC16RealChain(t *testing.T) {
	common.Check(t, id, "TestC16RealChain", 320, 12000, func(rt *rapid.T) histCase {
		n := genN(rt, 7)
		return histCase{
			Sig:      rapid.SampledFrom([]string{crypto.NameECDSA, crypto.NameEDDSA, crypto.NameECDSA, crypto.NameEDDSA, crypto.NameBLS12}).Draw(rt, "sig"),
			Real:     true,
			N:        n,
			ChainLen: rapid.SampledFrom([]int{3, 2}).Draw(rt, "chainlen"),
			Seed:     rapid.Int64().Draw(rt, "seed"),
			Base:     genBase(rt),
			Blocks:   genChain(rt, n, 2, 6),
			Ops:      genOps(rt, 16),
		}
	}, histProp(leaderrotation.NameCarousel, leaderrotation.NameReputation))
}

// supportCase: one committed chain whose head is the last block; the active-carousel query is repeated under many seeds.
type supportCase struct {
	Sig      string
	N        int
	ChainLen int
	Seed0    int64
	Base     uint64
	Blocks   []blockSpec
}

// TestC16CarouselSupport: over many shared seeds the active carousel chooses exactly the candidate set of the
// property statement: never somebody outside it, and every member of it for some seed (so the exclusion list is
// neither longer nor shorter than the last f committed blocks).
func TestC16CarouselSupport(t *testing.T) {
	common.Check(t, id, "TestC16CarouselSupport", 1500, 80000, func(rt *rapid.T) supportCase {
		n := genN(rt, maxN)
		f := refF(n)
		return supportCase{
			Sig:      rapid.SampledFrom(kit.Schemes).Draw(rt, "sig"),
			N:        n,
			ChainLen: rapid.SampledFrom([]int{3, 2}).Draw(rt, "chainlen"),
			Seed0:    rapid.Int64().Draw(rt, "seed0"),
			Base:     genBase(rt),
			Blocks:   genChain(rt, n, 2, max(4, min(f+3, 26))),
		}
	}, func(c supportCase) common.Result {
		hc := histCase{Sig: c.Sig, N: c.N, ChainLen: c.ChainLen, Seed: c.Seed0, Base: c.Base, Blocks: c.Blocks}
		if len(c.Blocks) < 2 {
			return common.Fail("harness", "chain too short")
		}
		reps, err := world(hc)
		if err != nil && strings.Contains(err.Error(), "outside the domain") {
			return common.OK(false, "", "outside the domain: a generated certificate is refused by verification")
		}
		if err != nil {
			return common.Fail("harness", "cannot build the case: %v", err)
		}
		r := reps[1]
		lr, err := r.scheme(leaderrotation.NameCarousel, c.ChainLen)
		if err != nil {
			return common.Fail("factory", "%v", err)
		}
		m := newModel(hc)
		head := len(c.Blocks)
		for i := 1; i <= head; i++ {
			r.commit(i)
		}
		cands, exclBlocks, hit := m.candidates(head)
		if len(cands) == 0 {
			return common.Fail("harness", "empty candidate set inside the domain")
		}
		v := hotstuff.View(m.views[head] + uint64(c.ChainLen))
		seen := map[int]int{}
		tries := 40*len(cands) + 60
		for s := 0; s < tries; s++ {
			core.WithSharedRandomSeed(c.Seed0 + int64(s))(r.cfg) // wraps around like any int64 seed
			got := int(lr.GetLeader(v))
			if !slices.Contains(cands, got) {
				ex, _ := m.excluded(head)
				return common.Fail("carousel-candidate", "n=%d seed=%d view=%d: active carousel chose %d; signers %v, proposers of the last f=%d committed blocks %v, candidates %v",
					c.N, c.Seed0+int64(s), v, got, m.signers(head), refF(c.N), ex, cands)
			}
			seen[got]++
		}
		for _, x := range cands {
			if seen[x] == 0 {
				ex, _ := m.excluded(head)
				return common.Fail("carousel-support", "n=%d view=%d: candidate %d (a signer of the head certificate that proposed none of the last f=%d committed blocks, proposers %v) was chosen under none of %d seeds; chosen: %v",
					c.N, v, x, refF(c.N), ex, tries, seen)
			}
		}
		classes := []string{"sig:" + c.Sig}
		if exclBlocks > 0 {
			classes = append(classes, "excl")
		}
		if hit {
			classes = append(classes, "excl-removes-signer")
		}
		if exclBlocks > 0 && exclBlocks == refF(c.N) {
			classes = append(classes, "excl-full-f")
		}
		if head > exclBlocks && exclBlocks > 0 {
			classes = append(classes, "chain-longer-than-f")
		}
		return common.OK(exclBlocks > 0, "", classes...)
	})
}
