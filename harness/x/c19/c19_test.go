// Package c19 checks property C19: the replica-ID sets attached to signatures behave as mathematical sets.
//
// Oracle: a reference set (Go map) plus the definition of the bit-field wire form ("bit id-1 of the byte string is
// set", bytes in order, least significant bit first). Nothing here is derived from security/crypto/bitfield.go.
// Domain: replica ids 1..300 (id 0 is not a replica id and is never generated).
package c19

import (
	"bytes"
	"errors"
	"fmt"
	"math/bits"
	"sort"
	"sync"
	"testing"

	"github.com/relab/hotstuff"
	"github.com/relab/hotstuff/security/crypto"
	"github.com/relab/hotstuff/verifx/common"
	"github.com/relab/hotstuff/verifx/kit"
	"pgregory.net/rapid"
)

const (
	id    = "C19"
	maxID = 300
)

// ---------------------------------------------------------------------------------------------------------------
// reference set and the generic IDSet comparison

type refSet map[hotstuff.ID]bool

func (r refSet) sorted() []hotstuff.ID {
	out := make([]hotstuff.ID, 0, len(r))
	for k := range r {
		out = append(out, k)
	}
	sort.Slice(out, func(i, j int) bool { return out[i] < out[j] })
	return out
}

func (r refSet) clone() refSet {
	c := make(refSet, len(r))
	for k := range r {
		c[k] = true
	}
	return c
}

func (r refSet) max() int {
	m := 0
	for k := range r {
		if int(k) > m {
			m = int(k)
		}
	}
	return m
}

type mismatch struct{ fp, msg string }

func bad(fp, format string, args ...any) *mismatch { return &mismatch{fp, fmt.Sprintf(format, args...)} }

// stopAfter runs RangeWhile with a callback that returns false on its k-th call (k >= 1) and reports the ids seen
// and the number of calls made.
func stopAfter(s hotstuff.IDSet, k int) (seen []hotstuff.ID, calls int) {
	s.RangeWhile(func(i hotstuff.ID) bool {
		calls++
		seen = append(seen, i)
		return calls < k
	})
	return
}

// compare checks one IDSet against the reference set: size, iteration (each member once; ascending if ordered),
// membership of every id in 1..probe, and early stop of RangeWhile after k calls for the given ks.
func compare(what string, s hotstuff.IDSet, ref refSet, ordered bool, probe int, ks ...int) *mismatch {
	want := ref.sorted()
	if got := s.Len(); got != len(want) {
		return bad("len", "%s: Len() = %d, the set holds %d distinct ids %v", what, got, len(want), want)
	}
	var it []hotstuff.ID
	s.ForEach(func(i hotstuff.ID) { it = append(it, i) })
	seen := refSet{}
	for idx, i := range it {
		if seen[i] {
			return bad("iter-duplicate", "%s: ForEach reports id %d more than once: %v (members %v)", what, i, it, want)
		}
		seen[i] = true
		if !ref[i] {
			return bad("iter-foreign", "%s: ForEach reports id %d which was never inserted: %v (members %v)", what, i, it, want)
		}
		if ordered && idx > 0 && it[idx-1] >= i {
			return bad("iter-order", "%s: ForEach is not ascending: %v", what, it)
		}
	}
	if len(it) != len(want) {
		return bad("iter-missing", "%s: ForEach reports %v, members are %v", what, it, want)
	}
	for i := 1; i <= probe; i++ {
		if got := s.Contains(hotstuff.ID(i)); got != ref[hotstuff.ID(i)] {
			return bad("contains", "%s: Contains(%d) = %v, members are %v", what, i, got, want)
		}
	}
	// the full RangeWhile (never stopping) must agree with ForEach
	all, _ := stopAfter(s, len(want)+5)
	if !sameIDs(all, it) {
		return bad("range-full", "%s: RangeWhile without stop reports %v, ForEach %v", what, all, it)
	}
	for _, k := range ks {
		if k < 1 {
			continue
		}
		got, calls := stopAfter(s, k)
		exp := k
		if exp > len(it) {
			exp = len(it)
		}
		if calls != exp {
			return bad("range-stop", "%s: RangeWhile stopped by its callback at call %d made %d calls (set size %d)", what, k, calls, len(it))
		}
		if !sameIDs(got, it[:exp]) {
			return bad("range-prefix", "%s: RangeWhile stopped after %d calls saw %v, want the first %d of %v", what, k, got, exp, it)
		}
	}
	return nil
}

func sameIDs(a, b []hotstuff.ID) bool {
	if len(a) != len(b) {
		return false
	}
	for i := range a {
		if a[i] != b[i] {
			return false
		}
	}
	return true
}

// probeFor covers every id the byte form can express plus two bytes beyond it (the first byte past the data is the
// interesting one for membership queries), and never less than the whole domain.
func probeFor(nbytes int, ref refSet) int {
	p := 8 * (nbytes + 2)
	if m := ref.max() + 17; m > p {
		p = m
	}
	if p < maxID+20 {
		p = maxID + 20
	}
	return p
}

// bitsOf decodes a byte string by the definition of the format: id i is a member iff bit (i-1) is set.
func bitsOf(b []byte) refSet {
	r := refSet{}
	for i := 0; i < 8*len(b); i++ {
		if b[i/8]>>(uint(i)%8)&1 == 1 {
			r[hotstuff.ID(i+1)] = true
		}
	}
	return r
}

func popcount(b []byte) int {
	n := 0
	for _, x := range b {
		n += bits.OnesCount8(x)
	}
	return n
}

func trimZeros(b []byte) []byte {
	for len(b) > 0 && b[len(b)-1] == 0 {
		b = b[:len(b)-1]
	}
	return b
}

func fail(m *mismatch) common.Result { return common.Fail(m.fp, "%s", m.msg) }

// ---------------------------------------------------------------------------------------------------------------
// TestC19Ops: insertion / query histories on a bit-field

type op struct {
	Kind string // add | contains | len | foreach | range | rebuild
	ID   int    // add, contains
	K    int    // range: the callback returns false on its K-th call
}

type opsCase struct {
	Init []byte // the history starts from BitfieldFromBytes(Init) (empty: from the zero value)
	Spare []byte `json:",omitempty"` // bytes that follow Init in the same backing array: Init is a window of a larger buffer (spare capacity that is not zero)
	Ops  []op
}

func genID(rt *rapid.T, prev []int) int {
	switch rapid.IntRange(0, 11).Draw(rt, "idclass") {
	case 0, 1, 2, 3:
		return 8*rapid.IntRange(1, 37).Draw(rt, "k8") + rapid.SampledFrom([]int{-1, 0, 1}).Draw(rt, "d8")
	case 4, 5:
		return rapid.IntRange(1, maxID).Draw(rt, "id")
	case 6:
		return rapid.IntRange(1, 10).Draw(rt, "smallid")
	case 7:
		return rapid.SampledFrom([]int{1, 2, 255, 256, 257, 299, 300}).Draw(rt, "edgeid")
	default:
		if len(prev) == 0 {
			return rapid.IntRange(1, maxID).Draw(rt, "id")
		}
		p := rapid.SampledFrom(prev).Draw(rt, "previd")
		p += rapid.SampledFrom([]int{0, 0, 0, -1, 1, 8, -8}).Draw(rt, "dprev")
		if p < 1 {
			p = 1
		}
		if p > maxID {
			p = maxID
		}
		return p
	}
}

func genBytes(rt *rapid.T, maxLen int) []byte {
	n := rapid.IntRange(0, maxLen).Draw(rt, "nbytes")
	if rapid.IntRange(0, 3).Draw(rt, "short") == 0 {
		n = n % 5
	}
	density := rapid.IntRange(0, 3).Draw(rt, "density")
	b := make([]byte, n)
	for i := range b {
		switch rapid.IntRange(0, 5+density).Draw(rt, "byteclass") {
		case 0:
			b[i] = 0xff
		case 1:
			b[i] = rapid.SampledFrom([]byte{0x01, 0x80, 0x81, 0x7f, 0xfe, 0x02, 0x40}).Draw(rt, "edgebyte")
		case 2, 3:
			b[i] = rapid.Byte().Draw(rt, "byte")
		default:
			b[i] = 0
		}
	}
	return b
}

func genOpsCase(rt *rapid.T) opsCase {
	var c opsCase
	if rapid.IntRange(0, 2).Draw(rt, "withinit") == 0 {
		c.Init = genBytes(rt, 38)
		if len(c.Init) > 37 {
			c.Init[37] &= 0x0f // byte 37 holds ids 297..304: keep the decoded ids <= 300
		}
		if rapid.IntRange(0, 2).Draw(rt, "window") == 0 {
			c.Spare = rapid.SliceOfN(rapid.SampledFrom([]byte{0xff, 0xff, 0x01, 0x80, 0x00, 0x5a}), 1, 40).Draw(rt, "spare")
		}
	}
	var prev []int
	n := rapid.IntRange(1, 40).Draw(rt, "nops")
	for i := 0; i < n; i++ {
		var o op
		o.Kind = rapid.SampledFrom([]string{"add", "add", "add", "add", "contains", "contains", "len", "foreach", "range", "range", "rebuild"}).Draw(rt, "kind")
		switch o.Kind {
		case "add":
			o.ID = genID(rt, prev)
			prev = append(prev, o.ID)
		case "contains":
			o.ID = genID(rt, prev)
		case "range":
			o.K = rapid.IntRange(1, 12).Draw(rt, "k")
		}
		c.Ops = append(c.Ops, o)
	}
	return c
}

func opsProp(c opsCase) common.Result {
	for _, o := range c.Ops {
		if (o.Kind == "add" || o.Kind == "contains") && (o.ID < 1 || o.ID > maxID) {
			return common.OK(false, "", "outside-domain") // replayed/hand-written case outside the quantifier
		}
	}
	var bf crypto.Bitfield
	ref := refSet{}
	cls := map[string]bool{}
	if len(c.Init) > 0 || len(c.Spare) > 0 {
		buf := append(append([]byte(nil), c.Init...), c.Spare...)
		init := buf[:len(c.Init):len(buf)]
		bf = crypto.BitfieldFromBytes(init)
		if len(c.Spare) > 0 {
			cls["init-window-of-larger-buffer"] = true
		}
		ref = bitsOf(c.Init)
		cls["init-bytes"] = true
	}
	var set hotstuff.IDSet = &bf
	if m := compare("initial set", set, ref, true, probeFor(len(bf.Bytes()), ref), 1); m != nil {
		return fail(m)
	}
	dups, queries, stops := 0, 0, 0
	for i, o := range c.Ops {
		what := fmt.Sprintf("after op %d %+v", i, o)
		switch o.Kind {
		case "add":
			before := len(bf.Bytes())
			if ref[hotstuff.ID(o.ID)] {
				dups++
				cls["dup-add"] = true
			}
			if r := o.ID % 8; r == 0 || r == 1 || r == 7 {
				cls["boundary-id"] = true
			}
			if o.ID > 256 {
				cls["id>256"] = true
			}
			set.Add(hotstuff.ID(o.ID))
			ref[hotstuff.ID(o.ID)] = true
			if len(bf.Bytes()) > before {
				cls["grow"] = true
			} else if o.ID > 8*(before-1) && before > 0 {
				cls["add-in-last-byte"] = true
			}
			if got := set.Len(); got != len(ref) {
				return common.Fail("len", "%s: Len() = %d, the set holds %d distinct ids %v", what, got, len(ref), ref.sorted())
			}
		case "contains":
			queries++
			if got := set.Contains(hotstuff.ID(o.ID)); got != ref[hotstuff.ID(o.ID)] {
				return common.Fail("contains", "%s: Contains(%d) = %v, members are %v", what, o.ID, got, ref.sorted())
			}
			if o.ID > 8*len(bf.Bytes()) {
				cls["query-beyond-data"] = true
				if o.ID <= 8*(len(bf.Bytes())+1) {
					cls["query-first-byte-beyond"] = true
				}
			}
		case "len":
			queries++
			if got := set.Len(); got != len(ref) {
				return common.Fail("len", "%s: Len() = %d, the set holds %d distinct ids %v", what, got, len(ref), ref.sorted())
			}
		case "foreach":
			queries++
		case "range":
			queries++
			if o.K < len(ref) {
				stops++
				cls["early-stop"] = true
			}
			if m := compare(what, set, ref, true, 0, o.K); m != nil {
				return fail(m)
			}
		case "rebuild":
			old := bf.Bytes()
			keep := append([]byte(nil), old...)
			nb := crypto.BitfieldFromBytes(old)
			if !bytes.Equal(nb.Bytes(), keep) {
				return common.Fail("bytes-roundtrip", "%s: BitfieldFromBytes(x).Bytes() = %x, x = %x", what, nb.Bytes(), keep)
			}
			if m := compare(what+" (rebuilt from Bytes())", &nb, ref, true, probeFor(len(keep), ref), 1, 2); m != nil {
				return fail(m)
			}
			// the history continues on the rebuilt set (the old one is dropped, as on the wire)
			bf = nb
			cls["rebuild"] = true
		default:
			continue
		}
		if m := compare(what, set, ref, true, probeFor(len(bf.Bytes()), ref), 1, len(ref)); m != nil {
			return fail(m)
		}
	}
	if len(bf.Bytes()) >= 2 {
		cls["multi-byte"] = true
	}
	if len(ref) >= 8 {
		cls["size>=8"] = true
	}
	// non-trivial: a repeated insertion happened, the set spans at least two bytes and was queried
	nt := dups > 0 && len(bf.Bytes()) >= 2 && queries > 0
	_ = stops
	if nt {
		cls["NT"] = true
	}
	return common.OK(nt, "", keys(cls)...)
}

func keys(m map[string]bool) []string {
	out := make([]string, 0, len(m))
	for k := range m {
		out = append(out, k)
	}
	sort.Strings(out)
	return out
}

func TestC19Ops(t *testing.T) {
	common.Check(t, id, "TestC19Ops", 80000, 2000000, genOpsCase, opsProp)
}

// ---------------------------------------------------------------------------------------------------------------
// TestC19Decode / FuzzC19Bitfield: reconstruction from arbitrary bytes

type decodeCase struct {
	B     []byte
	Extra []int // ids added after decoding (1..300)
	Desc  bool  // rebuild through Add in descending instead of ascending order
}

func decodeProp(c decodeCase) common.Result {
	for _, x := range c.Extra {
		if x < 1 || x > maxID {
			return common.OK(false, "", "outside-domain")
		}
	}
	orig := append([]byte(nil), c.B...)
	in := append([]byte(nil), c.B...)
	ref := bitsOf(orig)
	pc := popcount(orig)
	if len(ref) != pc {
		return common.Fail("harness", "reference decoder and popcount disagree: %d vs %d", len(ref), pc)
	}
	bf := crypto.BitfieldFromBytes(in)
	if got := bf.Len(); got != pc {
		return common.Fail("decode-len", "BitfieldFromBytes(%x).Len() = %d, popcount = %d", orig, got, pc)
	}
	probe := 8 * (len(orig) + 2)
	if m := compare(fmt.Sprintf("BitfieldFromBytes(%x)", orig), &bf, ref, true, probe, 1, 2, pc); m != nil {
		return fail(m)
	}
	if !bytes.Equal(bf.Bytes(), orig) {
		return common.Fail("bytes-roundtrip", "BitfieldFromBytes(x).Bytes() = %x, x = %x", bf.Bytes(), orig)
	}
	if !bytes.Equal(in, orig) {
		return common.Fail("decode-mutates-input", "BitfieldFromBytes changed its argument: %x -> %x", orig, in)
	}
	// the same set built by insertion has the same byte form (up to trailing zero bytes) and decodes to the same set
	var fresh crypto.Bitfield
	ids := ref.sorted()
	if c.Desc {
		for i, j := 0, len(ids)-1; i < j; i, j = i+1, j-1 {
			ids[i], ids[j] = ids[j], ids[i]
		}
	}
	for _, i := range ids {
		fresh.Add(i)
	}
	if m := compare(fmt.Sprintf("set built by Add of the bits of %x", orig), &fresh, ref, true, probe, 1, pc); m != nil {
		return fail(m)
	}
	if !bytes.Equal(trimZeros(fresh.Bytes()), trimZeros(orig)) {
		return common.Fail("bytes-form", "inserting the ids %v gives bytes %x, decoding %x gives the same ids", ref.sorted(), fresh.Bytes(), orig)
	}
	again := crypto.BitfieldFromBytes(append([]byte(nil), fresh.Bytes()...))
	if m := compare(fmt.Sprintf("Bytes() round trip of the set built by Add (%x)", fresh.Bytes()), &again, ref, true, probe, 1); m != nil {
		return fail(m)
	}
	// insertions after decoding keep the size right
	cls := map[string]bool{}
	for _, x := range c.Extra {
		if ref[hotstuff.ID(x)] {
			cls["extra-dup"] = true
		} else {
			cls["extra-new"] = true
		}
		bf.Add(hotstuff.ID(x))
		ref[hotstuff.ID(x)] = true
		if m := compare(fmt.Sprintf("BitfieldFromBytes(%x) then Add %v (last %d)", orig, c.Extra, x), &bf, ref, true, probeFor(len(bf.Bytes()), ref), 1, len(ref)); m != nil {
			return fail(m)
		}
	}
	switch {
	case len(orig) == 0:
		cls["empty"] = true
	case pc == 0:
		cls["all-zero"] = true
	case pc == 8*len(orig):
		cls["all-ones"] = true
	}
	if len(orig) > 0 && orig[len(orig)-1] == 0 {
		cls["trailing-zero-byte"] = true
	}
	if len(orig) > 0 && orig[0] == 0 && pc > 0 {
		cls["leading-zero-byte"] = true
	}
	if len(orig) >= 33 {
		cls["len>=33"] = true
	}
	if pc > 0 && len(orig) >= 2 {
		cls["NT"] = true
	}
	return common.OK(cls["NT"], "", keys(cls)...)
}

func genDecodeCase(rt *rapid.T) decodeCase {
	c := decodeCase{B: genBytes(rt, 64), Desc: rapid.Bool().Draw(rt, "desc")}
	n := rapid.IntRange(0, 3).Draw(rt, "nextra")
	for i := 0; i < n; i++ {
		if len(c.B) > 0 && 8*len(c.B)+9 <= maxID && rapid.Bool().Draw(rt, "near") {
			x := 8*len(c.B) + rapid.IntRange(-9, 9).Draw(rt, "dx") // around the end of the data
			if x < 1 {
				x = 1
			}
			c.Extra = append(c.Extra, x)
		} else {
			c.Extra = append(c.Extra, genID(rt, nil))
		}
	}
	return c
}

func TestC19Decode(t *testing.T) {
	common.Check(t, id, "TestC19Decode", 80000, 2000000, genDecodeCase, decodeProp)
}

// fuzzCase derives the whole case from the fuzzed bytes (the extra insertions too, so the target is a pure function).
func fuzzCase(b []byte) decodeCase {
	c := decodeCase{B: b}
	if len(b) > 0 {
		c.Desc = b[0]&1 == 1
		c.Extra = []int{1 + int(b[0])}
		if 8*len(b)+1 <= maxID {
			c.Extra = append(c.Extra, 8*len(b), 8*len(b)+1)
		}
	}
	return c
}

// FuzzC19Bitfield: native fuzzing of BitfieldFromBytes with the oracle inside the target (thorough tier only).
func FuzzC19Bitfield(f *testing.F) {
	f.Add([]byte{})
	f.Add([]byte{0x00})
	f.Add([]byte{0xff})
	f.Add([]byte{0x80, 0x01})
	f.Add([]byte{0x00, 0x00, 0x00})
	f.Add([]byte{0x01, 0x00, 0x80, 0x00})
	f.Add(bytes.Repeat([]byte{0xaa}, 38))
	f.Add(bytes.Repeat([]byte{0xff}, 64))
	f.Fuzz(func(t *testing.T, b []byte) {
		if len(b) > 1<<12 {
			b = b[:1<<12]
		}
		res := common.Safe(decodeProp, fuzzCase(b))
		if res.Err != "" {
			t.Fatalf("VIOLATION-CASE property=%s test=FuzzC19Bitfield fingerprint=%s\n%s", id, res.Fingerprint, res.Err)
		}
	})
}

// TestC19FuzzSeeds evaluates the fuzz target's seed corpus in the ordinary (quick) unit as well.
func TestC19FuzzSeeds(t *testing.T) {
	seeds := [][]byte{{}, {0x00}, {0xff}, {0x80, 0x01}, {0, 0, 0}, {0x01, 0x00, 0x80, 0x00}, bytes.Repeat([]byte{0xaa}, 38), bytes.Repeat([]byte{0xff}, 64)}
	common.Exhaustive(t, id, "TestC19FuzzSeeds", func(yield func(decodeCase) bool) {
		for _, s := range seeds {
			if !yield(fuzzCase(s)) {
				return
			}
		}
	}, decodeProp)
}

// ---------------------------------------------------------------------------------------------------------------
// exhaustive small domains

type pairCase struct{ A int }

// TestC19AddPairs: every ordered pair (a, b) of ids in 1..300 inserted into an empty set, then a once more.
func TestC19AddPairs(t *testing.T) {
	e := common.Get(id)
	common.Exhaustive(t, id, "TestC19AddPairs", func(yield func(pairCase) bool) {
		for a := 1; a <= maxID; a++ {
			if !yield(pairCase{a}) {
				return
			}
		}
	}, func(c pairCase) common.Result {
		if c.A < 1 || c.A > maxID {
			return common.OK(false, "", "outside-domain")
		}
		for b := 1; b <= maxID; b++ {
			var bf crypto.Bitfield
			var set hotstuff.IDSet = &bf
			ref := refSet{}
			for step, x := range []int{c.A, b, c.A} {
				set.Add(hotstuff.ID(x))
				ref[hotstuff.ID(x)] = true
				if got := set.Len(); got != len(ref) {
					return common.Fail("len", "Add %d, %d, %d: after insertion %d Len() = %d, the set holds %d distinct ids", c.A, b, c.A, step+1, got, len(ref))
				}
			}
			if m := compare(fmt.Sprintf("Add %d, %d, %d", c.A, b, c.A), set, ref, true, probeFor(len(bf.Bytes()), ref), 1, 2); m != nil {
				return fail(m)
			}
			rb := crypto.BitfieldFromBytes(append([]byte(nil), bf.Bytes()...))
			if m := compare(fmt.Sprintf("Bytes() round trip after Add %d, %d", c.A, b), &rb, ref, true, probeFor(len(bf.Bytes()), ref), 1); m != nil {
				return fail(m)
			}
		}
		e.Bulk("TestC19AddPairs", int64(maxID-1), "pair")
		return common.OK(true, fmt.Sprint(c.A), "pair")
	})
}

type twoByteCase struct {
	Pad   int // zero bytes in front
	First int // value of the first non-padding byte; the second one takes all 256 values
}

// TestC19DecodeTwoBytes: every two-byte string, at offsets 0, 1 and 36 (ids 289..304), through BitfieldFromBytes.
func TestC19DecodeTwoBytes(t *testing.T) {
	e := common.Get(id)
	common.Exhaustive(t, id, "TestC19DecodeTwoBytes", func(yield func(twoByteCase) bool) {
		for _, pad := range []int{0, 1, 36} {
			for x := 0; x < 256; x++ {
				if !yield(twoByteCase{pad, x}) {
					return
				}
			}
		}
	}, func(c twoByteCase) common.Result {
		if c.Pad < 0 || c.Pad > 62 {
			return common.OK(false, "", "outside-domain")
		}
		for y := 0; y < 256; y++ {
			b := make([]byte, c.Pad+2)
			b[c.Pad], b[c.Pad+1] = byte(c.First), byte(y)
			if r := decodeProp(decodeCase{B: b, Desc: y&1 == 1}); r.Err != "" {
				return r
			}
		}
		e.Bulk("TestC19DecodeTwoBytes", 255, "two-bytes")
		return common.OK(true, fmt.Sprintf("%d/%d", c.Pad, c.First), "two-bytes")
	})
}

// ---------------------------------------------------------------------------------------------------------------
// TestC19Combine: signer lists produced by Sign / Combine (ecdsa, eddsa, bls12; real keys)

const maxSigners = 20 // ids 1..20 span three bytes of the BLS bit-field

type combineOp struct {
	Who   int   // member that runs Combine (index mod cluster size)
	Picks []int // inputs: pool[p mod len(pool)], negative p counts from the newest entry; the pool starts with the single signatures, successful results are appended
}

type combineCase struct {
	Scheme string
	Leaves []int // signer of each single signature (1..20); every leaf is a fresh Sign by that replica
	Ops    []combineOp
}

var (
	clMu     sync.Mutex
	clusters = map[string][]*kit.Member{}
)

func cluster(scheme string) []*kit.Member {
	clMu.Lock()
	defer clMu.Unlock()
	if c, ok := clusters[scheme]; ok {
		return c
	}
	c := kit.NewCluster(scheme, maxSigners)
	clusters[scheme] = c
	return c
}

func genCombineCase(rt *rapid.T) combineCase {
	c := combineCase{Scheme: rapid.SampledFrom(kit.Schemes).Draw(rt, "scheme")}
	nl := rapid.IntRange(2, 12).Draw(rt, "nleaves")
	span := rapid.SampledFrom([]int{4, 7, 10, 13, maxSigners, maxSigners}).Draw(rt, "n") // cluster size the signers come from
	if rapid.IntRange(0, 2).Draw(rt, "distinct") > 0 { // distinct signers out of 1..span
		if span < nl {
			span = nl
		}
		c.Leaves = append(c.Leaves, rapid.Permutation(seq(1, span)).Draw(rt, "perm")[:nl]...)
	} else {
		for i := 0; i < nl; i++ {
			c.Leaves = append(c.Leaves, rapid.IntRange(1, span).Draw(rt, "signer"))
		}
	}
	// The generator keeps the reference model of the pool (signer sets) so that it can aim at disjoint and at
	// barely overlapping inputs; the property function recomputes everything from the case alone.
	model := make([]refSet, 0, len(c.Leaves)+8)
	for _, l := range c.Leaves {
		model = append(model, refSet{hotstuff.ID(l): true})
	}
	intersects := func(a, b refSet) bool {
		for k := range a {
			if b[k] {
				return true
			}
		}
		return false
	}
	no := rapid.IntRange(1, 8).Draw(rt, "nops")
	for i := 0; i < no; i++ {
		o := combineOp{Who: rapid.IntRange(0, maxSigners-1).Draw(rt, "who")}
		np := rapid.SampledFrom([]int{2, 2, 2, 3, 3, 4, 5, 8}).Draw(rt, "npicks")
		mode := rapid.IntRange(0, 5).Draw(rt, "pickmode")
		switch mode {
		case 0: // anything
			for j := 0; j < np; j++ {
				o.Picks = append(o.Picks, rapid.IntRange(-4, 31).Draw(rt, "pick"))
			}
		case 1: // one of the newest pool entries (an earlier result, if any), then distinct leaves
			o.Picks = append(o.Picks, -rapid.IntRange(1, 3).Draw(rt, "back"))
			perm := rapid.Permutation(seq(0, len(c.Leaves)-1)).Draw(rt, "pickperm")
			if np-1 > len(perm) {
				np = len(perm) + 1
			}
			o.Picks = append(o.Picks, perm[:np-1]...)
		default: // 2,3,4: greedily disjoint by the model, newest entries tried first half of the time; 5: the same plus one entry that overlaps
			order := rapid.Permutation(seq(0, len(model)-1)).Draw(rt, "order")
			if rapid.Bool().Draw(rt, "newestfirst") {
				order = append([]int{len(model) - 1}, order...)
			}
			acc := refSet{}
			for _, p := range order {
				if len(o.Picks) == np {
					break
				}
				if !intersects(acc, model[p]) {
					o.Picks = append(o.Picks, p)
					for k := range model[p] {
						acc[k] = true
					}
				}
			}
			if mode == 5 {
				for _, p := range rapid.Permutation(seq(0, len(model)-1)).Draw(rt, "order2") {
					if intersects(acc, model[p]) {
						at := rapid.IntRange(0, len(o.Picks)).Draw(rt, "at")
						o.Picks = append(o.Picks[:at], append([]int{p}, o.Picks[at:]...)...)
						break
					}
				}
			}
		}
		c.Ops = append(c.Ops, o)
		// advance the model the way the oracle will: a result joins the pool iff the inputs are pairwise disjoint
		if len(o.Picks) >= 2 {
			union, total := refSet{}, 0
			for _, p := range o.Picks {
				if p < 0 {
					p = len(model) - 1 - (-p-1)%len(model)
				}
				p %= len(model)
				total += len(model[p])
				for k := range model[p] {
					union[k] = true
				}
			}
			if total == len(union) {
				model = append(model, union)
			}
		}
	}
	return c
}

func seq(from, to int) []int {
	out := make([]int, 0, to-from+1)
	for i := from; i <= to; i++ {
		out = append(out, i)
	}
	return out
}

var combineMsg = []byte("C19: participant sets")

// sigSet checks a signature's participant set against the reference; for BLS also the byte form of the bit-field.
func sigSet(what, scheme string, s hotstuff.QuorumSignature, ref refSet) *mismatch {
	ordered := scheme == crypto.NameBLS12
	if m := compare(what, s.Participants(), ref, ordered, maxSigners+20, 1, 2, len(ref)); m != nil {
		return m
	}
	if agg, ok := s.(*crypto.BLS12AggregateSignature); ok {
		raw := append([]byte(nil), agg.Bitfield().Bytes()...)
		if !bytes.Equal(trimZeros(raw), trimZeros(bytesOf(ref))) {
			return bad("bytes-form", "%s: bit-field bytes %x, participants %v", what, raw, ref.sorted())
		}
		rb := crypto.BitfieldFromBytes(raw)
		if m := compare(what+" (bit-field rebuilt from its bytes)", &rb, ref, true, maxSigners+20, 1); m != nil {
			return m
		}
	}
	return nil
}

// bytesOf encodes a reference set by the definition of the format.
func bytesOf(ref refSet) []byte {
	b := make([]byte, (ref.max()+7)/8)
	for i := range ref {
		b[(int(i)-1)/8] |= 1 << (uint(int(i)-1) % 8)
	}
	return b
}

func combineProp(c combineCase) common.Result {
	ok := false
	for _, s := range kit.Schemes {
		ok = ok || s == c.Scheme
	}
	if !ok || len(c.Leaves) == 0 {
		return common.OK(false, "", "outside-domain")
	}
	for _, l := range c.Leaves {
		if l < 1 || l > maxSigners {
			return common.OK(false, "", "outside-domain")
		}
	}
	ms := cluster(c.Scheme)
	var pool []hotstuff.QuorumSignature
	var refs []refSet
	for _, l := range c.Leaves {
		s, err := ms[l-1].Base.Sign(combineMsg)
		if err != nil {
			return common.Fail("harness", "Sign by replica %d: %v", l, err)
		}
		ref := refSet{hotstuff.ID(l): true}
		if m := sigSet(fmt.Sprintf("%s Sign by replica %d", c.Scheme, l), c.Scheme, s, ref); m != nil {
			return fail(m)
		}
		pool = append(pool, s)
		refs = append(refs, ref)
	}
	cls := map[string]bool{}
	okNested, overlaps := 0, 0
	for i, o := range c.Ops {
		if len(o.Picks) < 2 {
			continue // Combine is defined for two or more inputs
		}
		var in []hotstuff.QuorumSignature
		var idx []int
		for _, p := range o.Picks {
			if p < 0 { // -1 is the newest pool entry, -2 the one before, ...
				p = len(pool) - 1 - (-p-1)%len(pool)
			}
			p %= len(pool)
			idx = append(idx, p)
			in = append(in, pool[p])
		}
		union := refSet{}
		disjoint := true
		total := 0
		nested := false
		for _, p := range idx {
			total += len(refs[p])
			nested = nested || len(refs[p]) > 1
			for k := range refs[p] {
				union[k] = true
			}
		}
		disjoint = total == len(union) // pairwise disjoint <=> the sizes add up
		samePick := false
		for a := range idx {
			for b := a + 1; b < len(idx); b++ {
				samePick = samePick || idx[a] == idx[b]
			}
		}
		who := o.Who
		if who < 0 {
			who = -who
		}
		who %= len(ms)
		what := fmt.Sprintf("%s op %d: Combine of pool entries %v (signer sets %v)", c.Scheme, i, idx, describe(refs, idx))
		res, err := ms[who].Base.Combine(in...)
		switch {
		case disjoint && err != nil:
			return common.Fail("combine-refused-disjoint", "%s failed although the inputs are pairwise disjoint: %v", what, err)
		case !disjoint && err == nil:
			return common.Fail("combine-accepted-overlap", "%s succeeded although inputs overlap; result %v", what, res.Participants())
		case !disjoint:
			overlaps++
			if !errors.Is(err, crypto.ErrCombineOverlap) {
				return common.Fail("combine-wrong-error", "%s: overlapping inputs refused with %q instead of ErrCombineOverlap", what, err)
			}
			if samePick {
				cls["overlap-same-input-twice"] = true
			} else {
				cls["overlap-distinct-inputs"] = true
			}
			if len(union) > 1 && total > len(union) && !samePick && nested {
				cls["overlap-partial"] = true
			}
		default:
			if res == nil {
				return common.Fail("combine-nil", "%s returned nil without an error", what)
			}
			if m := sigSet(what+": result", c.Scheme, res, union); m != nil {
				return fail(m)
			}
			if got := res.Participants().Len(); got != len(union) {
				return common.Fail("len", "%s: Participants().Len() = %d, distinct signers = %d", what, got, len(union))
			}
			pool = append(pool, res)
			refs = append(refs, union)
			cls["ok"] = true
			if nested {
				okNested++
				cls["ok-nested"] = true
			}
			if len(union) >= 4 {
				cls["ok-size>=4"] = true
			}
			if union.max() > 8 {
				cls["ok-id>8"] = true
			}
			if union.max() > 16 {
				cls["ok-id>16"] = true
			}
		}
		// combining (successfully or not) leaves the inputs, and everything else in the pool, as they were
		for p := range pool {
			if m := sigSet(fmt.Sprintf("%s; pool entry %d afterwards", what, p), c.Scheme, pool[p], refs[p]); m != nil {
				m.fp = "aliasing:" + m.fp
				return fail(m)
			}
		}
	}
	cls[c.Scheme] = true
	// non-trivial: a combination of an already combined signature succeeded and an overlapping one was refused
	if okNested > 0 && overlaps > 0 {
		cls["NT"] = true
	}
	return common.OK(cls["NT"], "", keys(cls)...)
}

func describe(refs []refSet, idx []int) string {
	s := ""
	for _, p := range idx {
		s += fmt.Sprint(refs[p].sorted())
	}
	return s
}

func TestC19Combine(t *testing.T) {
	common.Check(t, id, "TestC19Combine", 24000, 400000, genCombineCase, combineProp)
}
