package c11

// C11 — the signature cache never changes a verification verdict.
// Differential: every verification request is issued to an authority with the cache (capacity k) and to one
// without it, on the same membership, keys and block store; "err == nil" must agree request by request.

import (
	"math"
	"strings"
	"encoding/hex"
	"fmt"
	"sort"
	"testing"

	"github.com/relab/hotstuff"
	"github.com/relab/hotstuff/security/crypto"
	cs "github.com/relab/hotstuff/verifx/certspec"
	"github.com/relab/hotstuff/verifx/common"
	"github.com/relab/hotstuff/verifx/kit"
	"pgregory.net/rapid"
)

const id = "C11"

type op struct {
	K string // sign | signbatch | combine | verify | batch | relabel | mkqc | mktc | mkagg | vcert
	A int
	B int
	C int
	L []int
}

type c11Case struct {
	Scheme   string
	N        int
	Cap      int
	Verifier int
	Ops      []op
}

const nMsgs = 6

func msgOf(i int) []byte { return []byte(fmt.Sprintf("message-%d", ((i%nMsgs)+nMsgs)%nMsgs)) }

// batchShaped returns a message that looks like the serialisation of a one-entry batch {id: msgOf(i)} (id, length, bytes):
// plain verification and batch verification must not share remembered verdicts even for such look-alike inputs.
func batchShaped(id hotstuff.ID, i int) []byte {
	m := msgOf(i)
	out := append([]byte(nil), id.ToBytes()...)
	out = append(out, hotstuff.View(len(m)).ToBytes()...)
	return append(out, m...)
}

type poolSig struct {
	sig     hotstuff.QuorumSignature
	signers []int       // labels
	msgs    map[int]int // per signer: index of the message really signed (same for all in a plain multi-signature)
}

type poolCert struct {
	kind string
	spec cs.Spec
	b    cs.Built
}

func labelsOf(s hotstuff.QuorumSignature) (out []int) {
	s.Participants().ForEach(func(i hotstuff.ID) { out = append(out, int(i)) })
	return
}

// relabel keeps the signature bytes and replaces the signer labels.
func relabel(scheme string, s hotstuff.QuorumSignature, labels []int) hotstuff.QuorumSignature {
	switch m := s.(type) {
	case crypto.Multi[*crypto.ECDSASignature]:
		out := make([]*crypto.ECDSASignature, len(m))
		for i, p := range m {
			out[i] = crypto.RestoreECDSASignature(p.ToBytes(), hotstuff.ID(labels[i%len(labels)]))
		}
		return crypto.NewMulti(out...)
	case crypto.Multi[*crypto.EDDSASignature]:
		out := make([]*crypto.EDDSASignature, len(m))
		for i, p := range m {
			out[i] = crypto.RestoreEDDSASignature(p.ToBytes(), hotstuff.ID(labels[i%len(labels)]))
		}
		return crypto.NewMulti(out...)
	case *crypto.BLS12AggregateSignature:
		var bf crypto.Bitfield
		for _, l := range labels {
			bf.Add(hotstuff.ID(l))
		}
		r, err := crypto.RestoreBLS12AggregateSignature(m.ToBytes(), bf)
		if err != nil {
			panic(err)
		}
		return r
	}
	panic("unknown signature type")
}

// retype keeps the signature bytes and the signer labels and changes the signature's scheme (the wire format names the
// scheme of a signature, so a peer can send the bytes of an ECDSA multi-signature as an EdDSA one and vice versa).
func retype(s hotstuff.QuorumSignature) (hotstuff.QuorumSignature, bool) {
	switch m := s.(type) {
	case crypto.Multi[*crypto.ECDSASignature]:
		out := make([]*crypto.EDDSASignature, len(m))
		for i, p := range m {
			out[i] = crypto.RestoreEDDSASignature(p.ToBytes(), p.Signer())
		}
		return crypto.Multi[*crypto.EDDSASignature](out), len(out) > 0
	case crypto.Multi[*crypto.EDDSASignature]:
		out := make([]*crypto.ECDSASignature, len(m))
		for i, p := range m {
			out[i] = crypto.RestoreECDSASignature(p.ToBytes(), p.Signer())
		}
		return crypto.Multi[*crypto.ECDSASignature](out), len(out) > 0
	}
	return nil, false
}

// resplit keeps the concatenated serialisation of a multi-signature (Multi.ToBytes of the genuine one, framing included)
// and the signer labels, and cuts those bytes into len(labels) other pieces: equal chunks when cuts is empty, otherwise at
// the given positions. What the cache takes for the identity of a signature must tell the two apart.
func resplit(s hotstuff.QuorumSignature, cuts []int) (hotstuff.QuorumSignature, bool) {
	labels := labelsOf(s)
	k := len(labels)
	if k < 2 {
		return nil, false
	}
	raw := s.ToBytes()
	pos := make([]int, 0, k+1)
	pos = append(pos, 0)
	for i := 1; i < k; i++ {
		if len(cuts) == 0 {
			pos = append(pos, i*len(raw)/k)
		} else {
			pos = append(pos, ((cuts[(i-1)%len(cuts)]*37+i*11)%(len(raw)+1)+len(raw)+1)%(len(raw)+1))
		}
	}
	pos = append(pos, len(raw))
	sort.Ints(pos)
	switch s.(type) {
	case crypto.Multi[*crypto.ECDSASignature]:
		out := make([]*crypto.ECDSASignature, k)
		for i := 0; i < k; i++ {
			out[i] = crypto.RestoreECDSASignature(raw[pos[i]:pos[i+1]], hotstuff.ID(labels[i]))
		}
		return crypto.Multi[*crypto.ECDSASignature](out), true
	case crypto.Multi[*crypto.EDDSASignature]:
		out := make([]*crypto.EDDSASignature, k)
		for i := 0; i < k; i++ {
			out[i] = crypto.RestoreEDDSASignature(raw[pos[i]:pos[i+1]], hotstuff.ID(labels[i]))
		}
		return crypto.Multi[*crypto.EDDSASignature](out), true
	}
	return nil, false
}

func ctxKey(kind string, parts ...any) string { return kind + ":" + fmt.Sprint(parts...) }

func prop(c c11Case) common.Result {
	w := cs.GetWorld(c.Scheme, c.N)
	cached := w.Auth(c.Verifier, c.Cap, false)
	plain := w.Auth(c.Verifier, 0, false)
	var pool []poolSig
	var certs []poolCert
	// bookkeeping for the non-triviality rule
	acceptedCtx := map[string]map[string]bool{} // signature bytes -> contexts under which it was accepted
	distinctAccepted := map[string]bool{}
	replayAltered, afterEviction, queries := 0, 0, 0
	note := func(sig hotstuff.QuorumSignature, ctx string, accepted bool) {
		queries++
		if sig == nil {
			return
		}
		sb := hex.EncodeToString(sig.ToBytes())
		prev := acceptedCtx[sb]
		if len(prev) > 0 && !prev[ctx] {
			replayAltered++
		}
		if prev[ctx] && c.Cap > 0 && len(distinctAccepted) > c.Cap {
			afterEviction++
		}
		if accepted {
			if prev == nil {
				prev = map[string]bool{}
				acceptedCtx[sb] = prev
			}
			prev[ctx] = true
			distinctAccepted[sb+"|"+ctx] = true
		}
	}
	call1 := func(f func() error) (ok bool, panicked bool, msg string) {
		defer func() {
			if r := recover(); r != nil {
				panicked, msg = true, fmt.Sprint(r)
			}
		}()
		err := f()
		if err != nil {
			return false, false, err.Error()
		}
		return true, false, ""
	}
	// BLS: the pinned pairing library refuses some valid inputs depending on the order in which batch verification happens to add
	// its pairs (map order; open finding 30 of C02), so one call may refuse what the next accepts. A refusal by the pairing check
	// counts as the verdict only if it repeats; false acceptances do not occur. Both replicas are treated alike.
	call := func(f func() error) (ok bool, panicked bool, msg string) {
		ok, panicked, msg = call1(f)
		for try := 0; try < 4 && c.Scheme == "bls12" && !ok && !panicked && strings.Contains(msg, "bls12: failed to verify"); try++ {
			ok, panicked, msg = call1(f)
		}
		return
	}
	for i, o := range c.Ops {
		step := fmt.Sprintf("%s n=%d capacity=%d verifier=%d step %d %+v", c.Scheme, c.N, c.Cap, c.Verifier, i, o)
		pick := func(x int) *poolSig { return &pool[((x%len(pool))+len(pool))%len(pool)] }
		switch o.K {
		case "sign":
			who := 1 + ((o.A%c.N)+c.N)%c.N
			var s hotstuff.QuorumSignature
			var err error
			if who == c.Verifier {
				s, err = cached.Sign(msgOf(o.B)) // the replica's own signatures enter its cache
			} else {
				s, err = w.Members[who-1].Base.Sign(msgOf(o.B))
			}
			if err != nil {
				return common.Fail("harness", "sign: %v", err)
			}
			pool = append(pool, poolSig{s, []int{who}, map[int]int{who: o.B}})
		case "signbatch":
			// every replica of a subset signs its own message (the shape of an aggregate certificate)
			var sigs []hotstuff.QuorumSignature
			ps := poolSig{msgs: map[int]int{}}
			for j := 1; j <= c.N; j++ {
				if len(o.L) > 0 && o.L[(j-1)%len(o.L)]%2 == 0 {
					continue
				}
				m := o.B + j
				s, err := w.Members[j-1].Base.Sign(msgOf(m))
				if err != nil {
					return common.Fail("harness", "sign: %v", err)
				}
				sigs = append(sigs, s)
				ps.signers = append(ps.signers, j)
				ps.msgs[j] = m
			}
			if len(sigs) == 0 {
				continue
			}
			s, err := kit.CombineAny(c.Scheme, w.Members[0].Base, sigs)
			if err != nil {
				return common.Fail("harness", "combine: %v", err)
			}
			ps.sig = s
			pool = append(pool, ps)
		case "combine":
			if len(pool) == 0 || len(o.L) < 2 {
				continue
			}
			var sigs []hotstuff.QuorumSignature
			ps := poolSig{msgs: map[int]int{}}
			for _, x := range o.L {
				p := pick(x)
				sigs = append(sigs, p.sig)
				for _, sg := range p.signers {
					ps.signers = append(ps.signers, sg)
					ps.msgs[sg] = p.msgs[sg]
				}
			}
			var s1, s2 hotstuff.QuorumSignature
			ok1, p1, m1 := call(func() (err error) { s1, err = cached.Combine(sigs...); return })
			ok2, p2, m2 := call(func() (err error) { s2, err = plain.Combine(sigs...); return })
			if ok1 != ok2 || p1 != p2 {
				return common.Fail("combine-differs", "Combine: cached ok=%v (%s) uncached ok=%v (%s)\n%s", ok1, m1, ok2, m2, step)
			}
			if ok1 {
				_ = s2
				ps.sig = s1
				pool = append(pool, ps)
			}
		case "relabel":
			if len(pool) == 0 || len(o.L) == 0 {
				continue
			}
			p := pick(o.A)
			labels := make([]int, len(o.L))
			for k, l := range o.L {
				labels[k] = 1 + ((l%(c.N+1))+c.N+1)%(c.N+1)
			}
			pool = append(pool, poolSig{relabel(c.Scheme, p.sig, labels), labels, p.msgs})
		case "permuted":
			// replay of a multi-signature with its signer labels assigned to the individual signatures in another way
			// (same bytes, same signer SET): first the genuine one, then the permuted one, for the same message(s)
			if len(pool) == 0 {
				continue
			}
			p := pick(o.A)
			labels := labelsOf(p.sig)
			if len(labels) < 2 {
				continue
			}
			rot := 1 + o.B%(len(labels)-1)
			perm := make([]int, len(labels))
			for k := range labels {
				perm[k] = labels[(k+rot)%len(labels)]
			}
			ps := relabel(c.Scheme, p.sig, perm)
			same, first := true, -1
			for _, m := range p.msgs {
				if first >= 0 && m != first {
					same = false
				}
				first = m
			}
			batch := map[hotstuff.ID][]byte{}
			for sg, m := range p.msgs {
				batch[hotstuff.ID(sg)] = msgOf(m)
			}
			for round, sg := range []hotstuff.QuorumSignature{p.sig, ps} {
				var ok1, p1, ok2, p2 bool
				var m1, m2 string
				if same && o.C%2 == 0 {
					ok1, p1, m1 = call(func() error { return cached.Verify(sg, msgOf(first)) })
					ok2, p2, m2 = call(func() error { return plain.Verify(sg, msgOf(first)) })
				} else {
					ok1, p1, m1 = call(func() error { return cached.BatchVerify(sg, batch) })
					ok2, p2, m2 = call(func() error { return plain.BatchVerify(sg, batch) })
				}
				note(sg, ctxKey("perm", round, p.msgs, labelsOf(sg)), ok2)
				if ok1 != ok2 || p1 != p2 {
					return common.Fail("permuted-labels-"+fpSide(ok1), "multi-signature really signed per signer %v, labels in the order %v (genuine order %v), round %d: cached accepted=%v (%s), uncached accepted=%v (%s)\n%s",
						p.msgs, labelsOf(sg), labels, round, ok1, m1, ok2, m2, step)
				}
			}
			pool = append(pool, poolSig{ps, perm, p.msgs})
		case "retyped", "resplit":
			// replay of a signature under another scheme's name (same bytes, same labels), or of its serialised bytes cut
			// into other pieces (same labels): first the genuine one, then the altered one, for the same message(s)
			if len(pool) == 0 {
				continue
			}
			p := pick(o.A)
			var rs hotstuff.QuorumSignature
			var ok bool
			if o.K == "retyped" {
				rs, ok = retype(p.sig)
			} else {
				rs, ok = resplit(p.sig, o.L)
			}
			if !ok {
				continue
			}
			same, first := true, -1
			for _, m := range p.msgs {
				if first >= 0 && m != first {
					same = false
				}
				first = m
			}
			batch := map[hotstuff.ID][]byte{}
			for sg, m := range p.msgs {
				batch[hotstuff.ID(sg)] = msgOf(m)
			}
			for round, sg := range []hotstuff.QuorumSignature{p.sig, rs} {
				var ok1, p1, ok2, p2 bool
				var m1, m2 string
				if same && o.C%2 == 0 {
					ok1, p1, m1 = call(func() error { return cached.Verify(sg, msgOf(first)) })
					ok2, p2, m2 = call(func() error { return plain.Verify(sg, msgOf(first)) })
				} else {
					ok1, p1, m1 = call(func() error { return cached.BatchVerify(sg, batch) })
					ok2, p2, m2 = call(func() error { return plain.BatchVerify(sg, batch) })
				}
				note(sg, ctxKey(o.K, round, p.msgs, labelsOf(sg)), ok2)
				if ok1 != ok2 || p1 != p2 {
					return common.Fail(o.K+"-"+fpSide(ok1), "signature really signed per signer %v, labels %v, presented as %T (round %d; the genuine one is %T; op %s): cached accepted=%v panicked=%v (%s), uncached accepted=%v panicked=%v (%s)\n%s",
						p.msgs, labelsOf(sg), sg, round, p.sig, o.K, ok1, p1, m1, ok2, p2, m2, step)
				}
			}
		case "signshaped":
			// a replica signs a message that is shaped like a one-entry batch of its own
			who := 1 + ((o.A%c.N)+c.N)%c.N
			s, err := w.Members[who-1].Base.Sign(batchShaped(hotstuff.ID(who), o.B))
			if err != nil {
				return common.Fail("harness", "sign: %v", err)
			}
			pool = append(pool, poolSig{s, []int{who}, map[int]int{who: o.B}})
		case "nilsig":
			// a decoded message without a signature field hands the authority a nil signature
			m := msgOf(o.B)
			var ok1, p1, ok2, p2 bool
			var m1, m2 string
			if o.A%2 == 0 {
				ok1, p1, m1 = call(func() error { return cached.Verify(nil, m) })
				ok2, p2, m2 = call(func() error { return plain.Verify(nil, m) })
			} else {
				b := map[hotstuff.ID][]byte{hotstuff.ID(1 + o.C%c.N): m}
				ok1, p1, m1 = call(func() error { return cached.BatchVerify(nil, b) })
				ok2, p2, m2 = call(func() error { return plain.BatchVerify(nil, b) })
			}
			if ok1 != ok2 || p1 != p2 {
				return common.Fail("nil-signature-differs", "verification of an absent (nil) signature, batch=%v: cached accepted=%v panicked=%v (%s), uncached accepted=%v panicked=%v (%s)\n%s",
					o.A%2 == 1, ok1, p1, m1, ok2, p2, m2, step)
			}
		case "verifyshaped":
			if len(pool) == 0 {
				continue
			}
			p := pick(o.A)
			who := 1
			if len(p.signers) > 0 {
				who = p.signers[0]
			}
			m := batchShaped(hotstuff.ID(who), o.B)
			ok1, p1, m1 := call(func() error { return cached.Verify(p.sig, m) })
			ok2, p2, m2 := call(func() error { return plain.Verify(p.sig, m) })
			note(p.sig, ctxKey("vs", who, o.B%nMsgs, labelsOf(p.sig)), ok2)
			if ok1 != ok2 || p1 != p2 {
				return common.Fail("verify-batchshaped-"+fpSide(ok1), "Verify(sig labelled %v really signed per signer %v, message = serialisation of the batch {%d: message-%d}): cached accepted=%v (%s), uncached accepted=%v (%s)\n%s",
					labelsOf(p.sig), p.msgs, who, o.B%nMsgs, ok1, m1, ok2, m2, step)
			}
		case "verify":
			if len(pool) == 0 {
				continue
			}
			p := pick(o.A)
			m := msgOf(o.B)
			ok1, p1, m1 := call(func() error { return cached.Verify(p.sig, m) })
			ok2, p2, m2 := call(func() error { return plain.Verify(p.sig, m) })
			note(p.sig, ctxKey("v", o.B%nMsgs, labelsOf(p.sig)), ok2)
			if ok1 != ok2 || p1 != p2 {
				return common.Fail(fpVerify(ok1), "Verify(sig labelled %v really signed by %v over %v, message %d): cached accepted=%v (%s), uncached accepted=%v (%s)\n%s",
					labelsOf(p.sig), p.signers, p.msgs, o.B%nMsgs, ok1, m1, ok2, m2, step)
			}
		case "batch":
			if len(pool) == 0 {
				continue
			}
			p := pick(o.A)
			batch := map[hotstuff.ID][]byte{}
			var desc []string
			// start from the batch that was really signed and alter it as the op says
			for sg, m := range p.msgs {
				batch[hotstuff.ID(sg)] = msgOf(m)
			}
			for k, l := range o.L {
				target := hotstuff.ID(1 + k%(c.N+1))
				switch ((l % 4) + 4) % 4 {
				case 1:
					batch[target] = msgOf(l / 4) // change / add an entry
				case 2:
					delete(batch, target)
				}
			}
			ids := make([]int, 0, len(batch))
			for bid := range batch {
				ids = append(ids, int(bid))
			}
			sort.Ints(ids)
			for _, bid := range ids {
				desc = append(desc, fmt.Sprintf("%d:%s", bid, batch[hotstuff.ID(bid)]))
			}
			ok1, p1, m1 := call(func() error { return cached.BatchVerify(p.sig, batch) })
			ok2, p2, m2 := call(func() error { return plain.BatchVerify(p.sig, batch) })
			note(p.sig, ctxKey("b", desc, labelsOf(p.sig)), ok2)
			if ok1 != ok2 || p1 != p2 {
				return common.Fail(fpBatch(ok1), "BatchVerify(sig labelled %v really signed per signer %v, batch %v): cached accepted=%v (%s), uncached accepted=%v (%s)\n%s",
					labelsOf(p.sig), p.msgs, desc, ok1, m1, ok2, m2, step)
			}
		case "mkqc", "mktc", "mkagg":
			k := w.Q + ((o.A%(c.N-w.Q+1))+(c.N-w.Q+1))%(c.N-w.Q+1)
			sp := cs.Spec{Scheme: c.Scheme, N: c.N, Kind: map[string]string{"mkqc": "qc", "mktc": "tc", "mkagg": "aggqc"}[o.K]}
			sp.ClaimBlk = ((o.B % 4) + 4) % 4
			sp.ClaimView = []uint64{1, 2, 2, 5}[sp.ClaimBlk]
			if sp.Kind != "qc" {
				sp.ClaimView = uint64(3 + ((o.B%3)+3)%3)
			}
			for j := 0; j < k; j++ {
				sid := 1 + (j+o.C%c.N+c.N)%c.N
				e := cs.Entry{Claimed: sid, Key: sid, Blk: -1, View: sp.ClaimView, SID: sid, SQC: []int{cs.PoolGenesis, cs.PoolB0, cs.PoolB1, cs.PoolB3}[(j+o.C%4+4)%4]}
				if sp.Kind == "qc" {
					e.Blk = sp.ClaimBlk
				}
				sp.Entries = append(sp.Entries, e)
				if sp.Kind == "aggqc" {
					sp.Map = append(sp.Map, cs.MapEnt{ID: sid, QC: e.SQC})
				}
			}
			b, err := w.Build(sp)
			if err != nil {
				return common.Fail("harness", "build: %v", err)
			}
			certs = append(certs, poolCert{sp.Kind, sp, b})
		case "vcert":
			if len(certs) == 0 {
				continue
			}
			pc := certs[((o.A%len(certs))+len(certs))%len(certs)]
			// alterations keep the signature object and change what the certificate claims
			var f1, f2 func() error
			var sig hotstuff.QuorumSignature
			var ctx string
			switch pc.kind {
			case "qc":
				view := pc.b.QC.View()
				hash := pc.b.QC.BlockHash()
				switch ((o.B % 4) + 4) % 4 {
				case 1:
					view += hotstuff.View(1 + ((o.C%3)+3)%3)
				case 2:
					hash = w.Blocks[((o.C%4)+4)%4].Hash()
				}
				qc := hotstuff.NewQuorumCert(pc.b.QC.Signature(), view, hash)
				sig, ctx = qc.Signature(), ctxKey("qc", view, hash.SmallString())
				f1 = func() error { return cached.VerifyQuorumCert(qc) }
				f2 = func() error { return plain.VerifyQuorumCert(qc) }
			case "tc":
				view := pc.b.TC.View()
				if o.B%2 != 0 {
					view += hotstuff.View(1 + ((o.C%3)+3)%3)
				}
				tc := hotstuff.NewTimeoutCert(pc.b.TC.Signature(), view)
				sig, ctx = tc.Signature(), ctxKey("tc", view)
				f1 = func() error { return cached.VerifyTimeoutCert(tc) }
				f2 = func() error { return plain.VerifyTimeoutCert(tc) }
			case "aggqc":
				view := pc.b.AggQC.View()
				qcs := map[hotstuff.ID]hotstuff.QuorumCert{}
				for k, v := range pc.b.AggQC.QCs() {
					qcs[k] = v
				}
				alt := ""
				switch ((o.B % 4) + 4) % 4 {
				case 1:
					view += hotstuff.View(1 + ((o.C%3)+3)%3)
				case 2:
					// another replica's attested QC is swapped for a different (valid) one
					ids := make([]int, 0, len(qcs))
					for k := range qcs {
						ids = append(ids, int(k))
					}
					sort.Ints(ids)
					victim := hotstuff.ID(ids[((o.C%len(ids))+len(ids))%len(ids)])
					nq := []int{cs.PoolGenesis, cs.PoolB0, cs.PoolB1, cs.PoolB3}[((o.C/7%4)+4)%4]
					qcs[victim] = w.Pool[nq]
					alt = fmt.Sprintf("map[%d]=pool%d", victim, nq)
				}
				agg := hotstuff.NewAggregateQC(qcs, pc.b.AggQC.Sig(), view)
				sig, ctx = agg.Sig(), ctxKey("agg", view, alt)
				f1 = func() error { _, err := cached.VerifyAggregateQC(agg); return err }
				f2 = func() error { _, err := plain.VerifyAggregateQC(agg); return err }
			}
			ok1, p1, m1 := call(f1)
			ok2, p2, m2 := call(f2)
			note(sig, ctx, ok2)
			if ok1 != ok2 || p1 != p2 {
				return common.Fail("cert-"+pc.kind+"-"+fpSide(ok1), "%s certificate (%s): cached accepted=%v (%s), uncached accepted=%v (%s)\n%s", pc.kind, ctx, ok1, m1, ok2, m2, step)
			}
		}
	}
	var cl []string
	if replayAltered > 0 {
		cl = append(cl, "replay-under-altered-context")
	}
	if afterEviction > 0 {
		cl = append(cl, "query-after-eviction")
	}
	return common.OK(replayAltered > 0 || afterEviction > 0, "", cl...)
}

func fpSide(cachedAccepted bool) string {
	if cachedAccepted {
		return "cache-accepts-what-plain-rejects"
	}
	return "cache-rejects-what-plain-accepts"
}
func fpVerify(c bool) string { return "verify-" + fpSide(c) }
func fpBatch(c bool) string  { return "batch-" + fpSide(c) }

func genCase(rt *rapid.T) c11Case {
	c := c11Case{}
	schemes := []string{"ecdsa", "eddsa", "ecdsa", "eddsa", "bls12"}
	c.Scheme = rapid.SampledFrom(schemes).Draw(rt, "scheme")
	c.N = rapid.SampledFrom([]int{2, 4, 4, 4, 7}).Draw(rt, "n")
	if c.Scheme == "bls12" {
		c.N = rapid.SampledFrom([]int{2, 4}).Draw(rt, "nbls")
	}
	c.Cap = rapid.SampledFrom([]int{1, 2, 3, 4, 5, 6, 7, 8, 100, 1, 2, 3, 4, 5, 6, 7, 8, 100, -1, math.MinInt}).Draw(rt, "cap") // -1, MinInt: WithCache(MaxUint), WithCache(MaxInt+1)
	c.Verifier = rapid.IntRange(1, c.N).Draw(rt, "verifier")
	kinds := []string{"sign", "sign", "signbatch", "combine", "relabel", "verify", "verify", "verify", "batch", "batch", "mkqc", "mktc", "mkagg", "vcert", "vcert", "vcert", "signshaped", "verifyshaped", "verifyshaped", "nilsig", "permuted", "permuted", "retyped", "resplit", "resplit"}
	maxOps := 60
	if c.Scheme == "bls12" {
		maxOps = 25
	}
	n := rapid.IntRange(2, maxOps).Draw(rt, "nops")
	for i := 0; i < n; i++ {
		o := op{K: rapid.SampledFrom(kinds).Draw(rt, "k")}
		o.A = rapid.IntRange(0, 11).Draw(rt, "a")
		o.B = rapid.IntRange(0, 7).Draw(rt, "b")
		o.C = rapid.IntRange(0, 27).Draw(rt, "c")
		if o.K == "combine" || o.K == "relabel" || o.K == "batch" || o.K == "signbatch" || (o.K == "resplit" && rapid.Bool().Draw(rt, "cuts")) {
			o.L = rapid.SliceOfN(rapid.IntRange(0, 23), 0, 5).Draw(rt, "l")
		}
		c.Ops = append(c.Ops, o)
	}
	return c
}

func TestC11CacheDifferential(t *testing.T) {
	common.Check(t, id, "TestC11CacheDifferential", 5000, 120000, genCase, prop)
}
