package c17

import (
	"testing"

	"github.com/relab/hotstuff/internal/config"
)

func TestProbeTreePosIDs(t *testing.T) {
	defer func() { t.Logf("recovered: %v", recover()) }()
	c := &config.ExperimentConfig{TreePositions: []uint32{2, 1, 3}}
	t.Logf("ids=%v", c.TreePosIDs())
}
