// Package c17 checks property C17: the Kauri tree is one consistent tree over all replicas.
//
// Every replica builds its own tree.Tree from the shared configuration (branch factor + tree positions) exactly as
// internal/orchestration/worker.go newTree does (a fresh []hotstuff.ID per replica, tree.NewDelayed / tree.NewSimple).
// The oracle asks every replica's Tree only about that replica (Parent, ReplicaChildren, SubTree, PeersOf,
// ReplicaHeight, TreeHeight, Root, WaitTime) plus the cross-queries other code relies on (ChildrenOf, IsRoot), puts the
// answers of all replicas side by side and decides whether they describe one rooted tree. Nothing in the oracle uses the
// position arithmetic of the implementation: parents/children/descendants/depths are reconstructed from the answers.
package c17

import (
	"fmt"
	"slices"
	"testing"
	"time"

	"github.com/relab/hotstuff"
	"github.com/relab/hotstuff/core"
	"github.com/relab/hotstuff/internal/latency"
	"github.com/relab/hotstuff/internal/tree"
	"github.com/relab/hotstuff/protocol/leaderrotation"
	"github.com/relab/hotstuff/verifx/common"
	"pgregory.net/rapid"
)

const id = "C17"

// locations known to internal/latency (validated at run time with latency.ValidLocation).
var cities = []string{
	"Melbourne", "Toronto", "Prague", "Paris", "Tokyo", "Amsterdam", "Auckland",
	"Oslo", "Sydney", "London", "Frankfurt", "Seoul", "Lima",
}

// constructors, as used by the real callers
const (
	ctorSimple      = 0 // tree.NewSimple (tests, twins)
	ctorDelayedNone = 1 // tree.NewDelayed(DelayTypeNone)       — worker.newTree without aggregation time
	ctorDelayedTH   = 2 // tree.NewDelayed(DelayTypeTreeHeight)
	ctorDelayedAgg  = 3 // tree.NewDelayed(DelayTypeAggregation) — worker.newTree with aggregation time
	numCtors        = 4
)

// treeCase is one configuration shared by all replicas of a cluster.
type treeCase struct {
	N       int      // cluster size; replica ids are 1..N
	BF      int      // branch factor (>= 2; smaller values panic by contract)
	Pos     []uint32 // ReplicaOpts.TreePositions: a permutation of 1..N, Pos[0] is documented to be the root
	Ctor    int      // which constructor every replica uses
	DeltaMs int      // tree delta
	Locs    []int    // location of replica i+1 = cities[Locs[i] mod len(cities)] (len N; used by the latency matrix)
	Views   []uint64 // views at which the tree-based leader rotation is asked
}

// answers is what one replica's own Tree says about that replica.
type answers struct {
	Parent     hotstuff.ID
	HasParent  bool
	Root       hotstuff.ID
	Children   []hotstuff.ID
	Sub        []hotstuff.ID
	Peers      []hotstuff.ID
	Height     int
	TreeHeight int
	Wait       time.Duration
}

// askShape asks the questions that do not walk the tree (safe on any structure).
func askShape(t *tree.Tree) answers {
	var a answers
	a.Parent, a.HasParent = t.Parent()
	a.Root = t.Root()
	a.Children = slices.Clone(t.ReplicaChildren())
	a.Height = t.ReplicaHeight()
	a.TreeHeight = t.TreeHeight()
	return a
}

// askRest adds the answers that are computed by walking children lists. Only called once the children lists of all
// replicas have been shown to form a tree (on a cyclic structure these walks need not terminate).
func askRest(t *tree.Tree, a answers) answers {
	a.Sub = slices.Clone(t.SubTree())
	a.Peers = slices.Clone(t.PeersOf())
	a.Wait = t.WaitTime()
	return a
}

func ask(t *tree.Tree) answers { return askRest(t, askShape(t)) }

func (a answers) equal(b answers) bool {
	return a.Parent == b.Parent && a.HasParent == b.HasParent && a.Root == b.Root &&
		slices.Equal(a.Children, b.Children) && slices.Equal(a.Sub, b.Sub) && slices.Equal(a.Peers, b.Peers) &&
		a.Height == b.Height && a.TreeHeight == b.TreeHeight && a.Wait == b.Wait
}

func toIDs(pos []uint32) []hotstuff.ID { // what orchestrationpb.ReplicaOpts.TreePositionIDs does
	ids := make([]hotstuff.ID, len(pos))
	for i, p := range pos {
		ids[i] = hotstuff.ID(p)
	}
	return ids
}

func (c treeCase) locations() []string {
	locs := make([]string, c.N)
	for i := range locs {
		locs[i] = cities[c.Locs[i]%len(cities)]
	}
	return locs
}

func (c treeCase) delta() time.Duration { return time.Duration(c.DeltaMs) * time.Millisecond }

func build(c treeCase, self hotstuff.ID, pos []hotstuff.ID) *tree.Tree {
	switch c.Ctor {
	case ctorDelayedNone:
		return tree.NewDelayed(self, tree.DelayTypeNone, c.BF, latency.MatrixFrom(c.locations()), pos, c.delta())
	case ctorDelayedTH:
		return tree.NewDelayed(self, tree.DelayTypeTreeHeight, c.BF, latency.MatrixFrom(c.locations()), pos, c.delta())
	case ctorDelayedAgg:
		return tree.NewDelayed(self, tree.DelayTypeAggregation, c.BF, latency.MatrixFrom(c.locations()), pos, c.delta())
	default:
		return tree.NewSimple(self, c.BF, pos)
	}
}

// set helpers over ids 1..n ------------------------------------------------------------------------------------------

func valid(x hotstuff.ID, n int) bool { return x >= 1 && int(x) <= n }

// asSet returns membership counts; ok=false if an id is outside 1..n.
func counts(ids []hotstuff.ID, n int) (cnt []int, ok bool) {
	cnt = make([]int, n+1)
	for _, x := range ids {
		if !valid(x, n) {
			return cnt, false
		}
		cnt[x]++
	}
	return cnt, true
}

// shapeOf puts the replicas' answers about root, parent and children side by side and decides whether they describe one
// rooted tree containing every replica once. It returns the answers, the agreed root and every replica's depth.
func shapeOf(c treeCase, desc string, trees []*tree.Tree) (ans []answers, root hotstuff.ID, depth []int, res *common.Result) {
	n := c.N
	fail := func(fp, format string, args ...any) ([]answers, hotstuff.ID, []int, *common.Result) {
		r := common.Fail(fp, format, args...)
		return nil, 0, nil, &r
	}
	ans = make([]answers, n+1)
	for x := 1; x <= n; x++ {
		ans[x] = askShape(trees[x])
	}

	// ---- exactly one root, agreed by all
	root = ans[1].Root
	for x := 1; x <= n; x++ {
		if ans[x].Root != root {
			return fail("root-disagree", "%s: replica 1 says the root is %d, replica %d says %d", desc, root, x, ans[x].Root)
		}
	}
	if !valid(root, n) {
		return fail("root-invalid", "%s: Root() = %d is not a replica", desc, root)
	}
	if root != hotstuff.ID(c.Pos[0]) {
		return fail("root-layout", "%s: Root() = %d, documented root is TreePositions[0] = %d", desc, root, c.Pos[0])
	}
	orphans := 0
	for x := 1; x <= n; x++ {
		if !ans[x].HasParent {
			orphans++
			if hotstuff.ID(x) != root {
				return fail("root-count", "%s: replica %d reports no parent but the agreed root is %d", desc, x, root)
			}
			if ans[x].Parent != root {
				return fail("root-parent-value", "%s: root's Parent() = (%d,false), documented (root id,false)", desc, ans[x].Parent)
			}
		}
	}
	if orphans != 1 {
		return fail("root-count", "%s: %d replicas report no parent, want exactly 1 (root %d has parent %d)", desc, orphans, root, ans[root].Parent)
	}
	for y := 1; y <= n; y++ {
		for x := 1; x <= n; x++ {
			if got := trees[y].IsRoot(hotstuff.ID(x)); got != (hotstuff.ID(x) == root) {
				return fail("isroot", "%s: replica %d: IsRoot(%d) = %v, root is %d", desc, y, x, got, root)
			}
		}
	}

	// ---- children lists: well formed, bounded by bf, and every replica sees the same list for every node
	listed := make([]int, n+1)           // in how many children lists (with multiplicity) a replica appears
	listedBy := make([]hotstuff.ID, n+1) // one parent that lists it
	for p := 1; p <= n; p++ {
		ch := ans[p].Children
		if len(ch) > c.BF {
			return fail("children-count", "%s: replica %d has %d children %v > bf", desc, p, len(ch), ch)
		}
		if _, ok := counts(ch, n); !ok {
			return fail("children-invalid", "%s: replica %d lists a non-replica among its children %v", desc, p, ch)
		}
		for _, ch1 := range ch {
			if int(ch1) == p {
				return fail("children-invalid", "%s: replica %d lists itself as a child %v", desc, p, ch)
			}
			listed[ch1]++
			listedBy[ch1] = hotstuff.ID(p)
		}
		for y := 1; y <= n; y++ {
			if got := trees[y].ChildrenOf(hotstuff.ID(p)); !slices.Equal(got, ch) {
				return fail("children-disagree", "%s: replica %d says its children are %v, replica %d says ChildrenOf(%d) = %v", desc, p, ch, y, p, got)
			}
		}
	}
	// ---- parent <=> child, listed exactly once
	for x := 1; x <= n; x++ {
		if hotstuff.ID(x) == root {
			if listed[x] != 0 {
				return fail("parent-child", "%s: the root %d is listed as a child of %d", desc, x, listedBy[x])
			}
			continue
		}
		p := ans[x].Parent
		if !valid(p, n) || int(p) == x {
			return fail("parent-invalid", "%s: replica %d has parent %d", desc, x, p)
		}
		if !slices.Contains(ans[p].Children, hotstuff.ID(x)) {
			return fail("parent-child", "%s: replica %d says its parent is %d, but %d's children are %v (a proposal would never reach %d / its vote goes to a replica not waiting for it)",
				desc, x, p, p, ans[p].Children, x)
		}
		if listed[x] != 1 {
			return fail("parent-child", "%s: replica %d appears %d times in children lists (parent %d, also listed by %d)", desc, x, listed[x], p, listedBy[x])
		}
	}

	// ---- following parents reaches the root without a cycle; depth
	depth = make([]int, n+1)
	for x := 1; x <= n; x++ {
		cur, steps := hotstuff.ID(x), 0
		for cur != root {
			cur = ans[cur].Parent
			steps++
			if steps > n {
				return fail("cycle", "%s: following parents from %d does not reach the root %d", desc, x, root)
			}
		}
		depth[x] = steps
	}

	return ans, root, depth, nil
}

// treeProp is the global-reconstruction oracle.
func treeProp(c treeCase) common.Result {
	n := c.N
	// ---- the case must be inside the property's quantifier (otherwise the harness, not the code, is wrong)
	if n < 1 || c.BF < 2 || len(c.Pos) != n || len(c.Locs) != n || c.Ctor < 0 || c.Ctor >= numCtors || c.DeltaMs < 0 {
		return common.Fail("harness", "case outside the domain: %s", common.JSON(c))
	}
	seen := make([]bool, n+1)
	for _, p := range c.Pos {
		if p < 1 || int(p) > n || seen[p] {
			return common.Fail("harness", "Pos is not a permutation of 1..%d: %v", n, c.Pos)
		}
		seen[p] = true
	}
	for _, l := range c.Locs {
		if l < 0 {
			return common.Fail("harness", "negative location index")
		}
	}
	for _, ct := range cities {
		if got, err := latency.ValidLocation(ct); err != nil || got != ct {
			return common.Fail("harness", "location %q unknown to internal/latency", ct)
		}
	}
	desc := fmt.Sprintf("n=%d bf=%d pos=%v ctor=%d", n, c.BF, c.Pos, c.Ctor)

	// ---- the default position assignment (used when no tree positions are configured) is 1..n in order
	d32, dID := tree.DefaultTreePosUint32(n), tree.DefaultTreePos(n)
	if len(d32) != n || len(dID) != n {
		return common.Fail("default-pos", "DefaultTreePos(%d) has length %d/%d", n, len(d32), len(dID))
	}
	for i := 0; i < n; i++ {
		if d32[i] != uint32(i+1) || dID[i] != hotstuff.ID(i+1) {
			return common.Fail("default-pos", "DefaultTreePos(%d) = %v / %v, want 1..%d", n, d32, dID, n)
		}
	}

	// ---- guard: the shape questions on plain NewSimple trees first. SubTree and the aggregation wait time (computed
	// inside NewDelayed) walk the children lists; they are only exercised once those lists are known to form a tree.
	probe := make([]*tree.Tree, n+1)
	for x := 1; x <= n; x++ {
		probe[x] = tree.NewSimple(hotstuff.ID(x), c.BF, toIDs(c.Pos))
	}
	if _, _, _, res := shapeOf(c, desc, probe); res != nil {
		return *res
	}

	// ---- one Tree per replica, each from its own copy of the positions, built the way the case says
	trees := make([]*tree.Tree, n+1)
	inputs := make([][]hotstuff.ID, n+1)
	for x := 1; x <= n; x++ {
		inputs[x] = toIDs(c.Pos)
		trees[x] = build(c, hotstuff.ID(x), inputs[x])
		if trees[x] == nil {
			return common.Fail("ctor-nil", "%s: constructor returned nil for replica %d", desc, x)
		}
	}
	ans, root, depth, res := shapeOf(c, desc, trees)
	if res != nil {
		return *res
	}
	for x := 1; x <= n; x++ {
		ans[x] = askRest(trees[x], ans[x])
	}
	maxDepth := 0
	for x := 1; x <= n; x++ {
		maxDepth = max(maxDepth, depth[x])
	}

	// ---- SubTree(x) = descendants of x
	descendants := make([][]bool, n+1)
	ndesc := make([]int, n+1)
	for x := 1; x <= n; x++ {
		descendants[x] = make([]bool, n+1)
	}
	for y := 1; y <= n; y++ {
		for cur := hotstuff.ID(y); cur != root; {
			cur = ans[cur].Parent
			descendants[cur][y] = true
			ndesc[cur]++
		}
	}
	for x := 1; x <= n; x++ {
		cnt, ok := counts(ans[x].Sub, n)
		if !ok {
			return common.Fail("subtree", "%s: SubTree of %d contains a non-replica: %v", desc, x, ans[x].Sub)
		}
		for y := 1; y <= n; y++ {
			want := 0
			if descendants[x][y] {
				want = 1
			}
			if cnt[y] != want {
				return common.Fail("subtree", "%s: SubTree of %d = %v: replica %d appears %d times, want %d (descendant=%v)", desc, x, ans[x].Sub, y, cnt[y], want, descendants[x][y])
			}
		}
	}

	// ---- PeersOf(x) ∪ {x} = children of x's parent; empty for the root. Either convention about x itself is accepted.
	peersIncludeSelf, peersExcludeSelf := 0, 0
	for x := 1; x <= n; x++ {
		peers := ans[x].Peers
		if hotstuff.ID(x) == root {
			if len(peers) != 0 {
				return common.Fail("peers", "%s: the root %d has peers %v", desc, x, peers)
			}
			continue
		}
		cnt, ok := counts(peers, n)
		if !ok {
			return common.Fail("peers", "%s: PeersOf %d contains a non-replica: %v", desc, x, peers)
		}
		sib, _ := counts(ans[ans[x].Parent].Children, n)
		for y := 1; y <= n; y++ {
			if y == x {
				if cnt[y] > 1 {
					return common.Fail("peers", "%s: PeersOf %d = %v lists itself twice", desc, x, peers)
				}
				continue
			}
			if cnt[y] != sib[y] {
				return common.Fail("peers", "%s: PeersOf %d = %v, siblings (children of parent %d) are %v", desc, x, peers, ans[x].Parent, ans[ans[x].Parent].Children)
			}
		}
		if cnt[x] == 1 {
			peersIncludeSelf++
		} else {
			peersExcludeSelf++
		}
	}
	if peersIncludeSelf > 0 && peersExcludeSelf > 0 {
		return common.Fail("peers", "%s: PeersOf includes the replica itself for %d replicas and excludes it for %d", desc, peersIncludeSelf, peersExcludeSelf)
	}

	// ---- heights
	th := ans[1].TreeHeight
	for x := 1; x <= n; x++ {
		if ans[x].TreeHeight != th {
			return common.Fail("height", "%s: TreeHeight is %d for replica 1 and %d for replica %d", desc, th, ans[x].TreeHeight, x)
		}
	}
	if th != 1+maxDepth {
		return common.Fail("height", "%s: TreeHeight = %d, the tree has %d levels", desc, th, 1+maxDepth)
	}
	for x := 1; x <= n; x++ {
		if ans[x].Height != th-depth[x] {
			return common.Fail("height", "%s: ReplicaHeight of %d = %d, want TreeHeight %d - depth %d", desc, x, ans[x].Height, th, depth[x])
		}
	}

	// ---- documented layout (internal/config: "The 0th entry in TreePositions is the tree's root, the 1st entry is the
	// root's left child, the 2nd entry is the root's right child, and so on"): level order = TreePositions, levels filled
	// left to right before the next one starts.
	order := []hotstuff.ID{root}
	for i := 0; i < len(order) && len(order) <= n; i++ {
		order = append(order, ans[order[i]].Children...)
	}
	if !slices.Equal(order, toIDs(c.Pos)) {
		return common.Fail("layout", "%s: level order of the tree is %v, TreePositions are %v", desc, order, c.Pos)
	}
	short := false
	for _, x := range order {
		k := len(ans[x].Children)
		if short && k != 0 {
			return common.Fail("layout-incomplete", "%s: replica %d has %d children although an earlier position has fewer than bf", desc, x, k)
		}
		if k < c.BF {
			short = true
		}
	}

	// ---- "a proposal pushed down from the root reaches every replica once and every vote has exactly one path up"
	recv := make([]int, n+1)
	queue := []hotstuff.ID{root}
	for i := 0; i < len(queue) && len(queue) <= 2*n; i++ {
		for _, ch := range ans[queue[i]].Children {
			recv[ch]++
			queue = append(queue, ch)
		}
	}
	for x := 1; x <= n; x++ {
		want := 1
		if hotstuff.ID(x) == root {
			want = 0
		}
		if recv[x] != want {
			return common.Fail("dissemination", "%s: replica %d receives the proposal %d times", desc, x, recv[x])
		}
	}
	votes := make([]int, n+1) // number of votes carried by the contribution of x
	for i := len(queue) - 1; i >= 0; i-- {
		x := queue[i]
		votes[x]++ // its own
		if x != root {
			votes[ans[x].Parent] += votes[x]
		}
		if votes[x] != 1+ndesc[x] || votes[x] != 1+len(ans[x].Sub) {
			return common.Fail("aggregation", "%s: contribution of %d carries %d votes, subtree has %d (+1)", desc, x, votes[x], len(ans[x].Sub))
		}
	}
	if votes[root] != n {
		return common.Fail("aggregation", "%s: the root aggregates %d votes of %d", desc, votes[root], n)
	}

	// ---- tree-based leader rotation: every replica names the root, at every view
	for x := 1; x <= n; x++ {
		cfg := core.NewRuntimeConfig(hotstuff.ID(x), nil, core.WithKauriTree(trees[x]))
		lr := leaderrotation.NewTreeBased(cfg)
		for _, v := range c.Views {
			if got := lr.GetLeader(hotstuff.View(v)); got != root {
				return common.Fail("leader", "%s: replica %d: tree leader at view %d is %d, the root is %d", desc, x, v, got, root)
			}
		}
	}

	// ---- wait times follow the shape
	delta := c.delta()
	locs := c.locations()
	// process deepest first so that children are known before parents
	byDepth := slices.Clone(order)
	slices.Reverse(byDepth)
	wantAgg := make([]time.Duration, n+1)
	for _, x := range byDepth {
		ch := ans[x].Children
		if len(ch) == 0 {
			continue // leaf: nothing to aggregate
		}
		var worst time.Duration
		for _, k := range ch {
			rtt := 2 * latency.Between(locs[x-1], locs[k-1])
			worst = max(worst, rtt+wantAgg[k])
		}
		wantAgg[x] = worst + delta
	}
	for x := 1; x <= n; x++ {
		var want time.Duration
		switch c.Ctor {
		case ctorSimple:
			want = 0
		case ctorDelayedNone, ctorDelayedTH:
			want = time.Duration(2*(th-depth[x]-1)) * delta
		case ctorDelayedAgg:
			want = wantAgg[x]
			// cross-replica form: the parent waits for the slowest child's own wait time plus the round trip
			var worst time.Duration
			for _, k := range ans[x].Children {
				worst = max(worst, 2*latency.Between(locs[x-1], locs[k-1])+ans[k].Wait)
			}
			if len(ans[x].Children) > 0 && ans[x].Wait != worst+delta {
				return common.Fail("waittime", "%s delta=%v: replica %d waits %v, its slowest child needs %v (+delta)", desc, delta, x, ans[x].Wait, worst)
			}
		}
		if ans[x].Wait != want {
			return common.Fail("waittime", "%s delta=%v: WaitTime of replica %d = %v, want %v", desc, delta, x, ans[x].Wait, want)
		}
	}

	// ---- the tree is immutable: asking did not change any answer nor the configuration it was built from
	for x := 1; x <= n; x++ {
		if !slices.Equal(inputs[x], toIDs(c.Pos)) {
			return common.Fail("mutated-positions", "%s: the tree positions of replica %d changed to %v", desc, x, inputs[x])
		}
		if again := ask(trees[x]); !again.equal(ans[x]) {
			return common.Fail("unstable", "%s: replica %d answers differently when asked again: %+v then %+v", desc, x, ans[x], again)
		}
	}

	// ---- classes (measured on the reconstructed tree)
	classes := []string{fmt.Sprintf("bf=%d", c.BF), fmt.Sprintf("ctor=%d", c.Ctor), fmt.Sprintf("levels=%d", th)}
	switch {
	case n == 1:
		classes = append(classes, "n=1")
	case n <= 6:
		classes = append(classes, "n=2..6")
	case n <= 15:
		classes = append(classes, "n=7..15")
	default:
		classes = append(classes, "n=16..40")
	}
	identity := true
	for i, p := range c.Pos {
		if int(p) != i+1 {
			identity = false
		}
	}
	if identity {
		classes = append(classes, "perm=identity")
	} else {
		classes = append(classes, "perm=other")
	}
	if root != 1 {
		classes = append(classes, "root!=1")
	}
	grand := false
	for x := 1; x <= n; x++ {
		if len(ans[x].Sub) > len(ans[x].Children) {
			grand = true
		}
	}
	if grand {
		classes = append(classes, "subtree>children")
	}
	// shape of the last level / last sibling group
	lastLevel, capacity := 0, 1
	for x := 1; x <= n; x++ {
		if depth[x] == maxDepth {
			lastLevel++
		}
	}
	for i := 0; i < maxDepth; i++ {
		capacity *= c.BF
	}
	if lastLevel == capacity {
		classes = append(classes, "shape=perfect")
	} else {
		classes = append(classes, "shape=last-level-incomplete")
	}
	if n > 1 && (n-1)%c.BF != 0 {
		classes = append(classes, "last-sibling-group-partial")
	}
	leafAbove := false
	for x := 1; x <= n; x++ {
		if len(ans[x].Children) == 0 && depth[x] < maxDepth {
			leafAbove = true
		}
	}
	if leafAbove {
		classes = append(classes, "leaf-above-last-level")
	}
	if peersIncludeSelf > 0 {
		classes = append(classes, "peers-include-self")
	}
	if peersExcludeSelf > 0 {
		classes = append(classes, "peers-exclude-self")
	}
	// non-trivial: at least two different Tree objects have to agree on a parent/child edge
	return common.OK(n >= 2, "", classes...)
}

// ---------------------------------------------------------------------------------------------------------------------

func defaultLocs(n, salt int) []int {
	l := make([]int, n)
	for i := range l {
		l[i] = (i*7 + salt) % len(cities)
	}
	return l
}

// nextPerm advances p to the next permutation in lexicographic order; false after the last one.
func nextPerm(p []uint32) bool {
	i := len(p) - 2
	for i >= 0 && p[i] >= p[i+1] {
		i--
	}
	if i < 0 {
		return false
	}
	j := len(p) - 1
	for p[j] <= p[i] {
		j--
	}
	p[i], p[j] = p[j], p[i]
	slices.Reverse(p[i+1:])
	return true
}

// TestC17Exhaustive: every permutation of the replicas over the tree positions for n <= 6 (quick) / 7 (thorough),
// every branch factor 2..6, every constructor; plus every permutation of the smallest four-level tree (n = 8, bf = 2:
// the first shape in which a non-root replica has grandchildren) with the aggregation constructor (quick) / every
// constructor (thorough).
func TestC17Exhaustive(t *testing.T) {
	maxN := 6
	ctors8 := []int{ctorDelayedAgg}
	if common.Tier() == "thorough" {
		maxN = 7
		ctors8 = []int{ctorSimple, ctorDelayedNone, ctorDelayedTH, ctorDelayedAgg}
	}
	common.Get(id).Note("TestC17Exhaustive", map[string]any{"max_n": maxN, "bf": "2..6", "constructors": numCtors, "n8_bf2_constructors": ctors8})
	allPerms := func(n, bf, ctor int, yield func(treeCase) bool) bool {
		p := make([]uint32, n)
		for i := range p {
			p[i] = uint32(i + 1)
		}
		for {
			if !yield(treeCase{N: n, BF: bf, Pos: slices.Clone(p), Ctor: ctor, DeltaMs: 10 * ctor, Locs: defaultLocs(n, bf), Views: []uint64{1, 7}}) {
				return false
			}
			if !nextPerm(p) {
				return true
			}
		}
	}
	common.Exhaustive(t, id, "TestC17Exhaustive", func(yield func(treeCase) bool) {
		for n := 1; n <= maxN; n++ {
			for bf := 2; bf <= 6; bf++ {
				for ctor := 0; ctor < numCtors; ctor++ {
					if !allPerms(n, bf, ctor, yield) {
						return
					}
				}
			}
		}
		for _, ctor := range ctors8 {
			if !allPerms(8, 2, ctor, yield) {
				return
			}
		}
	}, treeProp)
}

// structured permutation families for the grid test
var families = []string{"identity", "reverse", "rotate1", "swap-root-last", "swap-root-second", "evens-first", "interleave"}

func familyPerm(name string, n int) []uint32 {
	p := make([]uint32, n)
	for i := range p {
		p[i] = uint32(i + 1)
	}
	switch name {
	case "reverse":
		slices.Reverse(p)
	case "rotate1":
		for i := range p {
			p[i] = uint32((i+1)%n + 1)
		}
	case "swap-root-last":
		p[0], p[n-1] = p[n-1], p[0]
	case "swap-root-second":
		if n > 1 {
			p[0], p[1] = p[1], p[0]
		}
	case "evens-first":
		q := p[:0:0]
		for i := 2; i <= n; i += 2 {
			q = append(q, uint32(i))
		}
		for i := 1; i <= n; i += 2 {
			q = append(q, uint32(i))
		}
		p = q
	case "interleave": // 1, n, 2, n-1, ...
		q := p[:0:0]
		for lo, hi := 1, n; lo <= hi; lo, hi = lo+1, hi-1 {
			q = append(q, uint32(lo))
			if hi != lo {
				q = append(q, uint32(hi))
			}
		}
		p = q
	}
	return p
}

// TestC17Grid: every (n, bf) cell of 1..40 x 2..6 with every constructor and a few structured assignments, so that no
// cluster size / branch factor combination depends on the random draw.
func TestC17Grid(t *testing.T) {
	common.Exhaustive(t, id, "TestC17Grid", func(yield func(treeCase) bool) {
		for n := 1; n <= 40; n++ {
			for bf := 2; bf <= 6; bf++ {
				for ctor := 0; ctor < numCtors; ctor++ {
					for _, f := range families {
						if !yield(treeCase{N: n, BF: bf, Pos: familyPerm(f, n), Ctor: ctor, DeltaMs: 5 + n, Locs: defaultLocs(n, n+bf), Views: []uint64{0, 1, uint64(n)}}) {
							return
						}
					}
				}
			}
		}
	}, treeProp)
}

// TestC17Random: random assignments for every n in 1..40 (about 200 per (n, bf) cell in the quick tier).
func TestC17Random(t *testing.T) {
	common.Check(t, id, "TestC17Random", 40000, 1200000, func(rt *rapid.T) treeCase {
		var n int
		if rapid.IntRange(0, 9).Draw(rt, "small") == 0 {
			n = rapid.IntRange(1, 6).Draw(rt, "n")
		} else {
			n = rapid.IntRange(7, 40).Draw(rt, "n")
		}
		bf := rapid.IntRange(2, 6).Draw(rt, "bf")
		ids := make([]uint32, n)
		for i := range ids {
			ids[i] = uint32(i + 1)
		}
		return treeCase{
			N:       n,
			BF:      bf,
			Pos:     rapid.Permutation(ids).Draw(rt, "pos"),
			Ctor:    rapid.IntRange(0, numCtors-1).Draw(rt, "ctor"),
			DeltaMs: rapid.IntRange(0, 500).Draw(rt, "delta"),
			Locs:    rapid.SliceOfN(rapid.IntRange(0, len(cities)-1), n, n).Draw(rt, "locs"),
			Views:   rapid.SliceOfN(rapid.Uint64(), 1, 3).Draw(rt, "views"),
		}
	}, treeProp)
}
