package c12

// Decoding arbitrary bytes: decode∘encode∘decode == decode. Whatever a receiver obtains from the wire, forwarding it
// (re-encoding and decoding again, as a relaying replica or a block server does) yields the same object.
//
// Inputs that run into the nil dereferences on absent fields that property C10 is about are skipped by inspecting the
// decoded protobuf message before converting (a Proposal without a Block; a PartialCert whose signature does not decode).
// The comparison functions themselves never call ToBytes on a certificate without a signature object.

import (
	"testing"

	"github.com/relab/hotstuff"
	"github.com/relab/hotstuff/internal/proto/hotstuffpb"
	"github.com/relab/hotstuff/verifx/common"
	"google.golang.org/protobuf/proto"
	"pgregory.net/rapid"
)

var wireKinds = []string{"Proposal", "TimeoutMsg", "SyncInfo", "QuorumCert", "PartialCert", "Block", "TimeoutCert", "AggQC"}

// decodeIdem returns (status, diff). status: unmarshal-error | skip-c10 | converted. diff != "" is a violation.
func decodeIdem(kind uint8, data []byte) (status, diff string) {
	const peer = 3 // the authenticated peer id a server would fill in
	switch wireKinds[int(kind)%len(wireKinds)] {
	case "Proposal":
		m := &hotstuffpb.Proposal{}
		if proto.Unmarshal(data, m) != nil {
			return "unmarshal-error", ""
		}
		if m.GetBlock() == nil {
			return "skip-c10", ""
		}
		m.Block.Proposer = peer
		x := hotstuffpb.ProposalFromProto(m)
		x.ID = peer
		m2, err := wire(hotstuffpb.ProposalToProto(x), &hotstuffpb.Proposal{})
		if err != nil {
			return "converted", "reencode:" + err.Error()
		}
		if m2.GetBlock() == nil {
			return "converted", "proposal.block-lost"
		}
		m2.Block.Proposer = peer
		y := hotstuffpb.ProposalFromProto(m2)
		y.ID = peer
		return "converted", diffProposal("proposal", x, y)
	case "TimeoutMsg":
		m := &hotstuffpb.TimeoutMsg{}
		if proto.Unmarshal(data, m) != nil {
			return "unmarshal-error", ""
		}
		x := hotstuffpb.TimeoutMsgFromProto(m)
		x.ID = peer
		m2, err := wire(hotstuffpb.TimeoutMsgToProto(x), &hotstuffpb.TimeoutMsg{})
		if err != nil {
			return "converted", "reencode:" + err.Error()
		}
		y := hotstuffpb.TimeoutMsgFromProto(m2)
		y.ID = peer
		return "converted", diffTimeout("timeout", x, y)
	case "SyncInfo":
		m := &hotstuffpb.SyncInfo{}
		if proto.Unmarshal(data, m) != nil {
			return "unmarshal-error", ""
		}
		x := hotstuffpb.SyncInfoFromProto(m)
		m2, err := wire(hotstuffpb.SyncInfoToProto(x), &hotstuffpb.SyncInfo{})
		if err != nil {
			return "converted", "reencode:" + err.Error()
		}
		return "converted", diffSync("sync", x, hotstuffpb.SyncInfoFromProto(m2))
	case "QuorumCert":
		m := &hotstuffpb.QuorumCert{}
		if proto.Unmarshal(data, m) != nil {
			return "unmarshal-error", ""
		}
		x := hotstuffpb.QuorumCertFromProto(m)
		m2, err := wire(hotstuffpb.QuorumCertToProto(x), &hotstuffpb.QuorumCert{})
		if err != nil {
			return "converted", "reencode:" + err.Error()
		}
		return "converted", diffQC("qc", x, hotstuffpb.QuorumCertFromProto(m2))
	case "PartialCert":
		m := &hotstuffpb.PartialCert{}
		if proto.Unmarshal(data, m) != nil {
			return "unmarshal-error", ""
		}
		if hotstuffpb.QuorumSignatureFromProto(m.GetSig()) == nil {
			return "skip-c10", "" // NewPartialCert dereferences the signature
		}
		x := hotstuffpb.PartialCertFromProto(m)
		m2, err := wire(hotstuffpb.PartialCertToProto(x), &hotstuffpb.PartialCert{})
		if err != nil {
			return "converted", "reencode:" + err.Error()
		}
		if hotstuffpb.QuorumSignatureFromProto(m2.GetSig()) == nil {
			return "converted", "vote.sig-lost"
		}
		return "converted", diffPC("vote", x, hotstuffpb.PartialCertFromProto(m2))
	case "Block":
		m := &hotstuffpb.Block{}
		if proto.Unmarshal(data, m) != nil {
			return "unmarshal-error", ""
		}
		x := hotstuffpb.BlockFromProto(m)
		m2, err := wire(hotstuffpb.BlockToProto(x), &hotstuffpb.Block{})
		if err != nil {
			return "converted", "reencode:" + err.Error()
		}
		return "converted", diffBlock("block", x, hotstuffpb.BlockFromProto(m2))
	case "TimeoutCert":
		m := &hotstuffpb.TimeoutCert{}
		if proto.Unmarshal(data, m) != nil {
			return "unmarshal-error", ""
		}
		x := hotstuffpb.TimeoutCertFromProto(m)
		m2, err := wire(hotstuffpb.TimeoutCertToProto(x), &hotstuffpb.TimeoutCert{})
		if err != nil {
			return "converted", "reencode:" + err.Error()
		}
		return "converted", diffTC("tc", x, hotstuffpb.TimeoutCertFromProto(m2))
	case "AggQC":
		m := &hotstuffpb.AggQC{}
		if proto.Unmarshal(data, m) != nil {
			return "unmarshal-error", ""
		}
		x := hotstuffpb.AggregateQCFromProto(m)
		m2, err := wire(hotstuffpb.AggregateQCToProto(x), &hotstuffpb.AggQC{})
		if err != nil {
			return "converted", "reencode:" + err.Error()
		}
		return "converted", diffAgg("aggqc", x, hotstuffpb.AggregateQCFromProto(m2))
	}
	return "unmarshal-error", ""
}

// honestWire returns the wire kind and marshalled bytes of the object a round-trip case describes.
func honestWire(c Case) (uint8, []byte) {
	k, m := honestMsg(c)
	if m == nil {
		return 0, nil
	}
	b, err := proto.Marshal(m)
	if err != nil {
		panic(err)
	}
	return k, b
}

// honestMsg builds the object a round-trip case describes and returns its wire kind and protobuf message.
func honestMsg(c Case) (uint8, proto.Message) {
	w := getWorld(c.Scheme, c.N, false)
	sender := w.ms[mod(c.Sender, w.n)]
	var m proto.Message
	var k int
	switch c.Kind {
	case "proposal":
		if c.Block == nil {
			return 0, nil
		}
		x := hotstuffpb.ProposalToProto(hotstuffProposal(w, c, sender.ID))
		m, k = x, 0
	case "timeout":
		if c.Timeout == nil {
			return 0, nil
		}
		m, k = hotstuffpb.TimeoutMsgToProto(w.buildTimeout(*c.Timeout, sender.ID, sender, nil)), 1
	case "syncinfo":
		if c.Sync == nil {
			return 0, nil
		}
		m, k = hotstuffpb.SyncInfoToProto(w.buildSync(*c.Sync, nil, "")), 2
	case "qc":
		if c.QC == nil {
			return 0, nil
		}
		m, k = hotstuffpb.QuorumCertToProto(w.buildQC(*c.QC, nil, "")), 3
	case "vote":
		if c.Vote == nil {
			return 0, nil
		}
		m, k = hotstuffpb.PartialCertToProto(w.buildVote(*c.Vote, nil)), 4
	case "block":
		if c.Block == nil {
			return 0, nil
		}
		m, k = hotstuffpb.BlockToProto(w.buildBlock(*c.Block, nil)), 5
	case "tc":
		if c.TC == nil {
			return 0, nil
		}
		m, k = hotstuffpb.TimeoutCertToProto(w.buildTC(*c.TC, nil, "")), 6
	case "aggqc":
		if c.AggQC == nil {
			return 0, nil
		}
		m, k = hotstuffpb.AggregateQCToProto(w.buildAgg(*c.AggQC, nil, "")), 7
	default:
		return 0, nil
	}
	return uint8(k), m
}

// DecodeCase carries the bytes themselves (signatures are randomised, so bytes cannot be rebuilt from a description).
type DecodeCase struct {
	Kind   uint8
	Data   []byte
	Edited int // number of byte edits applied to an honest encoding (-1: free bytes)
}

type edit struct {
	Op  int // 0 set byte, 1 xor bit, 2 delete byte, 3 insert byte, 4 truncate, 5 duplicate a range
	Pos int
	Val byte
	Len int
}

func applyEdits(b []byte, es []edit) []byte {
	b = append([]byte(nil), b...)
	for _, e := range es {
		if len(b) == 0 {
			b = append(b, e.Val)
			continue
		}
		p := mod(e.Pos, len(b))
		switch mod(e.Op, 6) {
		case 0:
			b[p] = e.Val
		case 1:
			b[p] ^= 1 << (e.Val % 8)
		case 2:
			b = append(b[:p], b[p+1:]...)
		case 3:
			b = append(b[:p], append([]byte{e.Val}, b[p:]...)...)
		case 4:
			b = b[:p]
		case 5:
			l := 1 + mod(e.Len, 16)
			if p+l > len(b) {
				l = len(b) - p
			}
			b = append(b[:p+l], append(append([]byte(nil), b[p:p+l]...), b[p+l:]...)...)
		}
	}
	return b
}

func genDecode(rt *rapid.T) DecodeCase {
	if rapid.IntRange(0, 9).Draw(rt, "free") == 0 {
		return DecodeCase{Kind: rapid.Byte().Draw(rt, "kind"), Data: rapid.SliceOfN(rapid.Byte(), 0, 200).Draw(rt, "data"), Edited: -1}
	}
	c := genCase(rt)
	if c.Block != nil && c.Block.Batch.Bulk > 100 {
		c.Block.Batch.Bulk = 100
	}
	k, msg := honestMsg(c)
	if msg == nil {
		return DecodeCase{Kind: k, Edited: -1}
	}
	np := rapid.IntRange(0, 3).Draw(rt, "pbedits")
	pes := make([]pbEdit, np)
	for i := range pes {
		pes[i] = pbEdit{Pick: rapid.IntRange(0, 1<<16).Draw(rt, "pick"), Op: rapid.IntRange(0, 5).Draw(rt, "pbop"), Val: rapid.Byte().Draw(rt, "pbval")}
	}
	mutatePB(msg, pes)
	b, err := proto.Marshal(msg)
	if err != nil {
		panic(err)
	}
	if rapid.IntRange(0, 4).Draw(rt, "otherkind") == 0 { // the same bytes read as another message type
		k = rapid.Byte().Draw(rt, "kind")
	}
	n := rapid.SampledFrom([]int{0, 0, 0, 1, 1, 2, 3}).Draw(rt, "edits")
	es := make([]edit, n)
	for i := range es {
		es[i] = edit{
			Op:  rapid.SampledFrom([]int{0, 1, 1, 1, 1, 2, 3, 4, 5}).Draw(rt, "op"),
			Pos: rapid.IntRange(0, 1<<20).Draw(rt, "pos"),
			Val: rapid.Byte().Draw(rt, "val"),
			Len: rapid.IntRange(0, 15).Draw(rt, "len"),
		}
	}
	return DecodeCase{Kind: k, Data: applyEdits(b, es), Edited: n + np}
}

func decodeProp(c DecodeCase) common.Result {
	status, diff := decodeIdem(c.Kind, c.Data)
	if diff != "" {
		return common.Fail("decode-idempotence:"+diff, "%s decoded from %d bytes changes when re-encoded and decoded again at %s (data %x)",
			wireKinds[int(c.Kind)%len(wireKinds)], len(c.Data), diff, c.Data)
	}
	kind := wireKinds[int(c.Kind)%len(wireKinds)]
	src := "edited"
	if c.Edited == 0 {
		src = "honest"
	} else if c.Edited < 0 {
		src = "free"
	}
	return common.OK(status == "converted" && c.Edited != 0, "", "decode:"+kind, "decode:"+status, "decode:"+src+"/"+status)
}

// TestC12DecodeStability: honest encodings with a few byte edits, honest encodings read as another message type, and
// free bytes (the quick-tier companion of FuzzC12Decode).
func TestC12DecodeStability(t *testing.T) {
	common.Check(t, id, "TestC12DecodeStability", 3000, 100000, genDecode, decodeProp)
}

// FuzzC12Decode: coverage-guided version, seeded with marshalled honest messages of every type and scheme.
func FuzzC12Decode(f *testing.F) {
	for _, c := range seedCases() {
		k, b := honestWire(c)
		if b != nil {
			f.Add(k, b)
		}
	}
	f.Add(uint8(0), []byte{})
	f.Fuzz(func(t *testing.T, kind uint8, data []byte) {
		if _, diff := decodeIdem(kind, data); diff != "" {
			t.Fatalf("VIOLATION property=C12 %s: decode(encode(decode(b))) != decode(b) at %s", wireKinds[int(kind)%len(wireKinds)], diff)
		}
	})
}

func seedCases() []Case {
	var out []Case
	all := SigSpec{Signers: []int{2, 0, 3, 1}}
	qc := func(t int) *QCSpec { return &QCSpec{Target: t, Sig: all} }
	agg := &AggSpec{View: 9, Sig: all, Entries: []AggEntry{{QC: *qc(1)}, {QC: *qc(0)}, {QC: *qc(2)}, {RawID: true, ID: 77, QC: *qc(3)}}}
	for scheme := 0; scheme < 3; scheme++ {
		base := Case{Scheme: scheme, N: 4, Sender: 1}
		blk := &BlockSpec{ParentMode: 1, QC: *qc(1), View: 2, Proposer: 2, TS: TSSpec{Sec: 1_750_000_000, Nsec: 123_456_789},
			Batch: BatchSpec{Cmds: []CmdSpec{{Client: 1, Seq: 1, DataLen: 5}, {Client: 2, Seq: 9}}}}
		sync := &SyncSpec{QC: qc(2), TC: &TCSpec{View: 8, Sig: all}, Agg: agg}
		add := func(kind string, set func(*Case)) {
			c := base
			c.Kind = kind
			set(&c)
			out = append(out, c)
		}
		add("block", func(c *Case) { c.Block = blk })
		add("proposal", func(c *Case) { c.Block = blk })
		add("proposal", func(c *Case) { c.Block, c.AggQC = blk, agg })
		add("vote", func(c *Case) { c.Vote = &VoteSpec{Target: 1, Sig: SigSpec{Signers: []int{1}}} })
		add("qc", func(c *Case) { c.QC = qc(1) })
		add("qc", func(c *Case) { c.QC = qc(0) })
		add("tc", func(c *Case) { c.TC = &TCSpec{View: 8, Sig: all} })
		add("aggqc", func(c *Case) { c.AggQC = agg })
		add("syncinfo", func(c *Case) { c.Sync = sync })
		add("syncinfo", func(c *Case) { c.Sync = &SyncSpec{QC: qc(1)} })
		add("timeout", func(c *Case) {
			c.Timeout = &TimeoutSpec{View: 9, Sync: *sync, ViewSig: SigSpec{Signers: []int{1}}, MsgSig: &SigSpec{Signers: []int{1}}}
		})
		add("timeout", func(c *Case) { c.Timeout = &TimeoutSpec{View: 9, Sync: SyncSpec{QC: qc(1)}, ViewSig: SigSpec{Signers: []int{1}}} })
		// boundary values, so that the neighbourhood of wide varints / far timestamps is in the corpus from the start
		const maxU64 = ^uint64(0)
		xqc := &QCSpec{Target: 3, HashSeed: maxU64, OwnView: true, View: maxU64, Sig: SigSpec{Signers: []int{3, 1}}}
		xblk := &BlockSpec{ParentMode: 3, ParentSeed: 5, QC: *xqc, View: maxU64 - 1, Proposer: ^uint32(0), TS: TSSpec{Mode: 1, Sec: maxSec, Nsec: 999_999_999, Zone: 7},
			Batch: BatchSpec{Cmds: []CmdSpec{{Client: ^uint32(0), Seq: maxU64, DataLen: 300, Fill: 0xff}}}}
		xagg := &AggSpec{View: 1 << 63, Sig: SigSpec{Signers: []int{1, 0, 2}}, Entries: []AggEntry{{RawID: true, ID: ^uint32(0), QC: *xqc}, {RawID: true, ID: 0, QC: *qc(0)}}}
		add("block", func(c *Case) { c.Block = xblk })
		add("block", func(c *Case) {
			b := *xblk
			b.TS, b.Batch = TSSpec{Sec: minSec}, BatchSpec{Nil: true}
			c.Block = &b
		})
		add("proposal", func(c *Case) { c.Block, c.AggQC = xblk, xagg })
		add("qc", func(c *Case) { c.QC = xqc })
		add("tc", func(c *Case) { c.TC = &TCSpec{View: maxU64, Sig: SigSpec{Signers: []int{2}}} })
		add("tc", func(c *Case) { c.TC = &TCSpec{View: 0, NilSig: true} })
		add("aggqc", func(c *Case) { c.AggQC = xagg })
		add("timeout", func(c *Case) {
			c.Timeout = &TimeoutSpec{View: 1<<32 + 1, Sync: SyncSpec{QC: xqc, Agg: xagg}, ViewSig: SigSpec{Signers: []int{1}}, MsgSig: &SigSpec{Signers: []int{1, 3}}}
		})
	}
	return out
}

func hotstuffProposal(w *world, c Case, sender hotstuff.ID) hotstuff.ProposeMsg {
	spec := *c.Block
	spec.Proposer = uint32(sender)
	x := hotstuff.ProposeMsg{ID: sender, Block: w.buildBlock(spec, nil)}
	if c.AggQC != nil {
		a := w.buildAgg(*c.AggQC, nil, "")
		x.AggregateQC = &a
	}
	return x
}
