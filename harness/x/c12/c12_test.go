// Package c12 checks property C12: the wire encoding preserves the meaning of every protocol message.
//
// Oracle (written from the property statement, not from convert.go): for every generated object x of every message
// type, y = FromProto(Unmarshal(Marshal(ToProto(x)))) — with the fields the wire does not carry (message ID, block
// proposer of a proposal) filled from the authenticated peer id as server.go does — agrees with x on Hash(), ToBytes()
// (bytes-to-sign), the ordered participant list of every signature, presence of every optional part, and on the verdict
// of a receiver's certificate authority. A sensitivity relation makes the comparison meaningful: changing one component
// must change the hash / bytes-to-sign.
package c12

import (
	"fmt"
	"sort"
	"strings"
	"testing"

	"github.com/relab/hotstuff"
	"github.com/relab/hotstuff/internal/proto/hotstuffpb"
	"github.com/relab/hotstuff/verifx/common"
	"github.com/relab/hotstuff/verifx/kit"
	"google.golang.org/protobuf/proto"
	"pgregory.net/rapid"
)

const id = "C12"

var kinds = []string{"block", "proposal", "vote", "qc", "tc", "aggqc", "syncinfo", "timeout"}

// Case is one protocol object, its sender and the receiver's configuration.
type Case struct {
	Scheme  int
	N       int
	Agg     bool // receiver runs with aggregate QCs enabled (fast-hotstuff)
	Sender  int  // member index of the authenticated peer
	Kind    string
	Block   *BlockSpec   `json:",omitempty"` // block, proposal
	AggQC   *AggSpec     `json:",omitempty"` // aggqc; optional part of a proposal
	QC      *QCSpec      `json:",omitempty"`
	TC      *TCSpec      `json:",omitempty"`
	Sync    *SyncSpec    `json:",omitempty"`
	Timeout *TimeoutSpec `json:",omitempty"`
	Vote    *VoteSpec    `json:",omitempty"`
}

// wire sends a protobuf message through Marshal / Unmarshal.
func wire[M proto.Message](m M, fresh M) (M, error) {
	b, err := proto.Marshal(m)
	if err != nil {
		return fresh, err
	}
	return fresh, proto.Unmarshal(b, fresh)
}

// ---------------------------------------------------------------------------------------------------------------------
// verdicts of a receiver's authority (true = accepted). Certificates without a signature object are not handed to the
// verifiers that dereference it (C10's domain); both sides of a comparison are treated alike.

func verdictQC(m *kit.Member, qc hotstuff.QuorumCert) bool { return m.Auth.VerifyQuorumCert(qc) == nil }

func verdictTC(m *kit.Member, tc hotstuff.TimeoutCert) bool {
	if tc.View() != 0 && tc.Signature() == nil {
		return false
	}
	return m.Auth.VerifyTimeoutCert(tc) == nil
}

// verdictAgg: BLS batch verification adds its pairs in map-iteration order, and the pinned pairing library returns a wrong
// product for some inputs depending on which pair comes first (open finding 30 of C02): the SAME aggregate certificate can be
// accepted by one call and refused by the next. A refusal is therefore only taken as the verdict if it repeats (false
// acceptances do not occur), so that both sides of a round-trip comparison get the certificate's real verdict.
func verdictAgg(m *kit.Member, a hotstuff.AggregateQC) bool {
	if a.Sig() == nil {
		return false
	}
	for try := 0; try < 6; try++ {
		if _, err := m.Auth.VerifyAggregateQC(a); err == nil {
			return true
		} else if !strings.Contains(err.Error(), "bls12: failed to verify") {
			return false
		}
	}
	return false
}

// verdictAny is VerifyAnyQC with the same treatment.
func verdictAny(m *kit.Member, p *hotstuff.ProposeMsg) bool {
	for try := 0; try < 6; try++ {
		if err := m.Auth.VerifyAnyQC(p); err == nil {
			return true
		} else if !strings.Contains(err.Error(), "bls12: failed to verify") {
			return false
		}
	}
	return false
}

func verdictSync(m *kit.Member, si hotstuff.SyncInfo) string {
	var sb strings.Builder
	if qc, ok := si.QC(); ok {
		fmt.Fprintf(&sb, "qc=%v ", verdictQC(m, qc))
	}
	if tc, ok := si.TC(); ok {
		fmt.Fprintf(&sb, "tc=%v ", verdictTC(m, tc))
	}
	if a, ok := si.AggQC(); ok {
		fmt.Fprintf(&sb, "agg=%v ", verdictAgg(m, a))
	}
	return sb.String()
}

func verdictSig(m *kit.Member, s hotstuff.QuorumSignature, msg []byte) bool {
	if s == nil {
		return false
	}
	return m.Auth.Verify(s, msg) == nil
}

func verdictTimeout(m *kit.Member, tm hotstuff.TimeoutMsg) string {
	s := fmt.Sprintf("view=%v ", verdictSig(m, tm.ViewSignature, tm.View.ToBytes()))
	if tm.MsgSignature != nil {
		s += fmt.Sprintf("msg=%v ", verdictSig(m, tm.MsgSignature, tm.ToBytes()))
	}
	return s + verdictSync(m, tm.SyncInfo)
}

// verdictProposal: the verdicts on the block's certificate and on the aggregate certificate, and the combined
// VerifyAnyQC verdict where that is a function of the proposal. It is not when the aggregate certificate lists two
// different valid certificates of one view (VerifyAggregateQC then picks "the highest" by map iteration order and
// VerifyAnyQC compares the block's certificate with whichever was picked), nor when entry views overflow the
// int-difference comparator used for sorting: such proposals have no single verdict even without any encoding.
func verdictProposal(m *kit.Member, p hotstuff.ProposeMsg) string {
	s := fmt.Sprintf("qc=%v ", verdictQC(m, p.Block.QuorumCert()))
	if p.AggregateQC == nil {
		return s + fmt.Sprintf("any=%v", verdictAny(m, &p))
	}
	if p.AggregateQC.Sig() == nil {
		return s + "agg=nosig"
	}
	s += fmt.Sprintf("agg=%v ", verdictAgg(m, *p.AggregateQC))
	var valid []hotstuff.QuorumCert
	for _, i := range sortedIDs(p.AggregateQC.QCs()) {
		qc := p.AggregateQC.QCs()[i]
		if qc.View() >= 1<<62 {
			return s + "any=order-dependent"
		}
		if verdictQC(m, qc) {
			for _, o := range valid {
				if o.View() == qc.View() && !o.Equals(qc) {
					return s + "any=order-dependent"
				}
			}
			valid = append(valid, qc)
		}
	}
	return s + fmt.Sprintf("any=%v", verdictAny(m, &p))
}

// ---------------------------------------------------------------------------------------------------------------------
// the round-trip property

func roundTripProp(c Case) common.Result {
	w := getWorld(c.Scheme, c.N, c.Agg)
	sender := w.ms[mod(c.Sender, w.n)]
	recv := w.ms[mod(c.Sender+1, w.n)]
	f := &feat{}
	var diff, verdict, detail string
	fail := func(what string, err error) common.Result {
		return common.Fail("wire:"+what, "%s %s: marshal/unmarshal failed: %v", c.Kind, w.scheme, err)
	}
	switch c.Kind {
	case "block": // a block served by RequestBlock: every field travels
		if c.Block == nil {
			return common.OK(false, "empty")
		}
		x := w.buildBlock(*c.Block, f)
		pb, err := wire(hotstuffpb.BlockToProto(x), &hotstuffpb.Block{})
		if err != nil {
			return fail("block", err)
		}
		y := hotstuffpb.BlockFromProto(pb)
		diff = diffBlock("block", x, y)
		vx, vy := verdictQC(recv, x.QuorumCert()), verdictQC(recv, y.QuorumCert())
		verdict = fmt.Sprint(vx)
		if diff == "" && vx != vy {
			diff = "block.qc.verdict"
		}
	case "proposal": // server.go: proposer and message ID are the authenticated peer
		if c.Block == nil {
			return common.OK(false, "empty")
		}
		spec := *c.Block
		spec.Proposer = uint32(sender.ID) // an honest leader proposes its own block
		x := hotstuff.ProposeMsg{ID: sender.ID, Block: w.buildBlock(spec, f)}
		f.opt("aggqc", c.AggQC != nil)
		if c.AggQC != nil {
			a := w.buildAgg(*c.AggQC, f, "aggqc")
			x.AggregateQC = &a
		}
		pb, err := wire(hotstuffpb.ProposalToProto(x), &hotstuffpb.Proposal{})
		if err != nil {
			return fail("proposal", err)
		}
		pb.Block.Proposer = uint32(sender.ID)
		y := hotstuffpb.ProposalFromProto(pb)
		y.ID = sender.ID
		diff = diffProposal("proposal", x, y)
		vx, vy := verdictProposal(recv, x), verdictProposal(recv, y)
		verdict = vx
		if diff == "" && vx != vy {
			diff = "proposal.verdict"
		}
	case "vote":
		if c.Vote == nil {
			return common.OK(false, "empty")
		}
		x := hotstuff.VoteMsg{ID: sender.ID, PartialCert: w.buildVote(*c.Vote, f)}
		pb, err := wire(hotstuffpb.PartialCertToProto(x.PartialCert), &hotstuffpb.PartialCert{})
		if err != nil {
			return fail("vote", err)
		}
		y := hotstuff.VoteMsg{ID: sender.ID, PartialCert: hotstuffpb.PartialCertFromProto(pb)}
		diff = diffPC("vote", x.PartialCert, y.PartialCert)
		vx, vy := recv.Auth.VerifyPartialCert(x.PartialCert) == nil, recv.Auth.VerifyPartialCert(y.PartialCert) == nil
		verdict = fmt.Sprint(vx)
		if diff == "" && vx != vy {
			diff = "vote.verdict"
		}
	case "qc":
		if c.QC == nil {
			return common.OK(false, "empty")
		}
		x := w.buildQC(*c.QC, f, "qc")
		pb, err := wire(hotstuffpb.QuorumCertToProto(x), &hotstuffpb.QuorumCert{})
		if err != nil {
			return fail("qc", err)
		}
		y := hotstuffpb.QuorumCertFromProto(pb)
		diff = diffQC("qc", x, y)
		vx, vy := verdictQC(recv, x), verdictQC(recv, y)
		verdict = fmt.Sprint(vx)
		if diff == "" && vx != vy {
			diff = "qc.verdict"
		}
	case "tc":
		if c.TC == nil {
			return common.OK(false, "empty")
		}
		x := w.buildTC(*c.TC, f, "tc")
		pb, err := wire(hotstuffpb.TimeoutCertToProto(x), &hotstuffpb.TimeoutCert{})
		if err != nil {
			return fail("tc", err)
		}
		y := hotstuffpb.TimeoutCertFromProto(pb)
		diff = diffTC("tc", x, y)
		vx, vy := verdictTC(recv, x), verdictTC(recv, y)
		verdict = fmt.Sprint(vx)
		if diff == "" && vx != vy {
			diff = "tc.verdict"
		}
	case "aggqc":
		if c.AggQC == nil {
			return common.OK(false, "empty")
		}
		x := w.buildAgg(*c.AggQC, f, "aggqc")
		pb, err := wire(hotstuffpb.AggregateQCToProto(x), &hotstuffpb.AggQC{})
		if err != nil {
			return fail("aggqc", err)
		}
		y := hotstuffpb.AggregateQCFromProto(pb)
		diff = diffAgg("aggqc", x, y)
		vx, vy := verdictAgg(recv, x), verdictAgg(recv, y)
		verdict = fmt.Sprint(vx)
		if diff == "" && vx != vy {
			diff = "aggqc.verdict"
		}
	case "syncinfo": // NewView
		if c.Sync == nil {
			return common.OK(false, "empty")
		}
		x := hotstuff.NewViewMsg{ID: sender.ID, SyncInfo: w.buildSync(*c.Sync, f, "sync")}
		pb, err := wire(hotstuffpb.SyncInfoToProto(x.SyncInfo), &hotstuffpb.SyncInfo{})
		if err != nil {
			return fail("syncinfo", err)
		}
		y := hotstuff.NewViewMsg{ID: sender.ID, SyncInfo: hotstuffpb.SyncInfoFromProto(pb)}
		diff = diffSync("sync", x.SyncInfo, y.SyncInfo)
		vx, vy := verdictSync(recv, x.SyncInfo), verdictSync(recv, y.SyncInfo)
		verdict = vx
		if diff == "" && vx != vy {
			diff = "sync.verdict"
		}
	case "timeout":
		if c.Timeout == nil {
			return common.OK(false, "empty")
		}
		x := w.buildTimeout(*c.Timeout, sender.ID, sender, f)
		pb, err := wire(hotstuffpb.TimeoutMsgToProto(x), &hotstuffpb.TimeoutMsg{})
		if err != nil {
			return fail("timeout", err)
		}
		y := hotstuffpb.TimeoutMsgFromProto(pb)
		y.ID = sender.ID
		diff = diffTimeout("timeout", x, y)
		vx, vy := verdictTimeout(recv, x), verdictTimeout(recv, y)
		verdict = vx
		if diff == "" && vx != vy {
			diff = "timeout.verdict"
			detail = fmt.Sprintf("sent: %s | decoded: %s", vx, vy)
		}
	default:
		return common.OK(false, "empty")
	}
	if diff != "" {
		return common.Fail("roundtrip:"+diff, "%s (%s, n=%d): the decoded object differs from the sent one at %s %s", c.Kind, w.scheme, w.n, diff, detail)
	}
	shape := fmt.Sprintf("%s|%s|n=%d|agg=%v|%s|verdict=%s", c.Kind, w.scheme, w.n, c.Agg, strings.Join(f.tokens, ","), verdict)
	classes := []string{"kind:" + c.Kind, "scheme:" + w.scheme, "kind-scheme:" + c.Kind + "/" + w.scheme, "verdict:" + c.Kind + "=" + verdictClass(verdict)}
	if f.extreme {
		classes = append(classes, "extreme-value")
	}
	if f.present > 0 && f.absent > 0 {
		classes = append(classes, "mixed-optional-parts")
	}
	for _, t := range f.tokens {
		switch {
		case strings.HasPrefix(t, "+"), strings.HasPrefix(t, "-"), strings.HasPrefix(t, "batch="), strings.HasPrefix(t, "ts"), strings.HasPrefix(t, "x:ts"),
			strings.Contains(t, "unsorted"), strings.Contains(t, ".entries="):
			if strings.Contains(t, "unsorted") {
				t = "signers-unsorted"
			}
			classes = append(classes, "part:"+t)
		}
	}
	return common.OK(f.nontrivial(), shape, dedupe(classes)...)
}

func verdictClass(v string) string {
	switch {
	case v == "true" || v == "false":
		return v
	case strings.Contains(v, "any="):
		return v[strings.Index(v, "any="):]
	case strings.Contains(v, "false") && strings.Contains(v, "true"):
		return "mixed"
	case strings.Contains(v, "false"):
		return "all-rejected"
	case strings.Contains(v, "true"):
		return "all-accepted"
	}
	return "none"
}

func dedupe(s []string) []string {
	sort.Strings(s)
	out := s[:0]
	for i, x := range s {
		if i == 0 || x != s[i-1] {
			out = append(out, x)
		}
	}
	return out
}

func genCase(rt *rapid.T) Case {
	c := Case{
		Scheme: rapid.IntRange(0, 2).Draw(rt, "scheme"),
		N:      rapid.SampledFrom([]int{1, 2, 3, 4, 4, 4, 5, 7, 7}).Draw(rt, "n"),
		Agg:    rapid.Bool().Draw(rt, "agg"),
		Kind:   rapid.SampledFrom(kinds).Draw(rt, "kind"),
	}
	c.Sender = rapid.IntRange(0, c.N-1).Draw(rt, "sender")
	switch c.Kind {
	case "block":
		b := genBlock(rt, c.N, "block", true)
		c.Block = &b
	case "proposal":
		b := genBlock(rt, c.N, "block", true)
		c.Block = &b
		if rapid.Bool().Draw(rt, "hasagg") {
			a := genAgg(rt, c.N, "agg")
			c.AggQC = &a
		}
	case "vote":
		v := genVote(rt, c.N, c.Sender, "vote")
		c.Vote = &v
	case "qc":
		q := genQC(rt, c.N, "qc")
		c.QC = &q
	case "tc":
		t := genTC(rt, c.N, "tc")
		c.TC = &t
	case "aggqc":
		a := genAgg(rt, c.N, "agg")
		c.AggQC = &a
	case "syncinfo":
		s := genSync(rt, c.N, "sync", -1)
		c.Sync = &s
	case "timeout":
		t := genTimeout(rt, c.N, c.Sender, "timeout", -1)
		c.Timeout = &t
	}
	return c
}

// TestC12RoundTrip: generated objects of every message type through Marshal/Unmarshal and the conversion functions.
func TestC12RoundTrip(t *testing.T) {
	common.Check(t, id, "TestC12RoundTrip", 4000, 200000, genCase, roundTripProp)
}

// TestC12Shapes enumerates every presence combination of the optional parts (SyncInfo: 8, TimeoutMsg: 8 x MsgSignature,
// Proposal +/- AggQC, certificates with / without signature object, batch absent / empty / non-empty) for every scheme,
// with honest quorum signatures (so that the accepting verdict is compared too).
func TestC12Shapes(t *testing.T) {
	const n = 4
	all := SigSpec{Signers: []int{2, 0, 3, 1}}
	qcOf := func(target int) *QCSpec { return &QCSpec{Target: target, Sig: all} }
	aggOf := func(view uint64) *AggSpec {
		return &AggSpec{View: view, Sig: all, Entries: []AggEntry{{QC: *qcOf(1)}, {QC: *qcOf(0)}, {QC: *qcOf(2)}, {QC: *qcOf(1)}}}
	}
	sync := func(mask int) SyncSpec {
		var s SyncSpec
		if mask&1 != 0 {
			s.QC = qcOf(2)
		}
		if mask&2 != 0 {
			s.TC = &TCSpec{View: 9, Sig: all}
		}
		if mask&4 != 0 {
			s.Agg = aggOf(9)
		}
		return s
	}
	common.Exhaustive(t, id, "TestC12Shapes", func(yield func(Case) bool) {
		for scheme := 0; scheme < 3; scheme++ {
			for agg := 0; agg < 2; agg++ {
				base := Case{Scheme: scheme, N: n, Agg: agg == 1, Sender: 1}
				for mask := 0; mask < 8; mask++ {
					c := base
					s := sync(mask)
					c.Kind, c.Sync = "syncinfo", &s
					if !yield(c) {
						return
					}
					for msgsig := 0; msgsig < 2; msgsig++ {
						c := base
						tm := TimeoutSpec{View: 9, Sync: sync(mask), ViewSig: SigSpec{Signers: []int{1}}}
						if msgsig == 1 {
							tm.MsgSig = &SigSpec{Signers: []int{1}}
						}
						c.Kind, c.Timeout = "timeout", &tm
						if !yield(c) {
							return
						}
					}
				}
				for qcT := 0; qcT < 3; qcT++ {
					for batch := 0; batch < 3; batch++ {
						for hasAgg := 0; hasAgg < 3; hasAgg++ {
							c := base
							b := BlockSpec{ParentMode: qcT, QC: *qcOf(qcT), View: uint64(qcT + 3), Proposer: 2, TS: TSSpec{Sec: 1_750_000_000, Nsec: 123_456_789}}
							switch batch {
							case 0:
								b.Batch.Nil = true
							case 2:
								b.Batch.Cmds = []CmdSpec{{Client: 1, Seq: 1, DataLen: 3}, {Client: 2, Seq: 1}}
							}
							c.Block = &b
							switch hasAgg {
							case 0:
								c.Kind = "block"
							case 1:
								c.Kind = "proposal"
							case 2:
								c.Kind, c.AggQC = "proposal", aggOf(uint64(qcT+2))
							}
							if !yield(c) {
								return
							}
						}
					}
					c := base
					c.Kind, c.QC = "qc", qcOf(qcT)
					if !yield(c) {
						return
					}
					c = base
					c.Kind, c.Vote = "vote", &VoteSpec{Target: qcT, Sig: SigSpec{Signers: []int{1}}}
					if !yield(c) {
						return
					}
				}
				for _, tc := range []TCSpec{{View: 0, NilSig: true}, {View: 0, Sig: all}, {View: 7, Sig: all}} {
					c := base
					tc := tc
					c.Kind, c.TC = "tc", &tc
					if !yield(c) {
						return
					}
				}
				for entries := 0; entries <= n; entries++ {
					c := base
					a := aggOf(5)
					a.Entries = a.Entries[:entries]
					c.Kind, c.AggQC = "aggqc", a
					if !yield(c) {
						return
					}
				}
			}
		}
	}, roundTripProp)
}
