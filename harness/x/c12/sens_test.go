package c12

// Sensitivity: a round trip compares the encoder with itself, so the names (hash, bytes-to-sign) must really bind the
// content: changing exactly one component of a block changes Hash() and ToBytes() (also after the changed block went
// over the wire: a block fetched by hash is the block that hash names); changing sender id, view or QC of a timeout
// message changes its bytes-to-sign; changing view or hash of a QC changes ToBytes().

import (
	"bytes"
	"fmt"
	"testing"
	"time"

	"github.com/relab/hotstuff"
	"github.com/relab/hotstuff/internal/proto/clientpb"
	"github.com/relab/hotstuff/internal/proto/hotstuffpb"
	"github.com/relab/hotstuff/security/crypto"
	"github.com/relab/hotstuff/verifx/common"
	"github.com/relab/hotstuff/verifx/kit"
	"google.golang.org/protobuf/proto"
	"pgregory.net/rapid"
)

// SensCase: an object and one change to it.
type SensCase struct {
	Scheme  int
	N       int
	Sender  int
	Obj     string // block | timeout | qc
	Block   *BlockSpec   `json:",omitempty"`
	Timeout *TimeoutSpec `json:",omitempty"`
	QC      *QCSpec      `json:",omitempty"`
	Field   string       // parent proposer view batch ts qc.hash qc.view qc.sig qc.presence id
	Bit     int          // which bit / element
	Mask    uint64       `json:",string"` // xor mask for numbers (0 is replaced by 1)
	SigOp   int          // qc.sig: 0 other signers, 1 other message, 2 rotate order, 3 relabel a signer, 4 add/remove the signature object
	AltSig  SigSpec      // qc.sig op 0
	TSDelta int          // ts: index into tsDeltas
	BatchOp int          // batch: 0 append, 1 drop last, 2 change one command, 3 swap two, 4 nil<->empty-with-command
	Cmd     CmdSpec
}

// (seconds, nanoseconds) added to the timestamp
var tsDeltas = [][2]int64{{0, 1}, {0, -1}, {0, 1000}, {0, 1_000_000}, {1, 0}, {-1, 0}, {3600, 0}, {1 << 31, 0}, {1 << 32, 0},
	{4, 294_967_296}, {9_223_372_036, 854_775_808}, {18_446_744_073, 709_551_616}, {-18_446_744_073, -709_551_616}}

var blockFields = []string{"parent", "proposer", "view", "batch", "batch", "ts", "ts", "qc.hash", "qc.view", "qc.sig", "qc.sig", "qc.sig", "qc.sig"}
var timeoutFields = []string{"id", "view", "qc.hash", "qc.view", "qc.sig", "qc.sig", "qc.sig", "qc.sig", "qc.presence"}
var qcFields = []string{"qc.hash", "qc.view"}

func nz(m uint64) uint64 {
	if m == 0 {
		return 1
	}
	return m
}

// changeSig returns another signature object; tag names what was done ("" = not applicable here).
func (w *world) changeSig(c SensCase, old hotstuff.QuorumSignature, spec QCSpec) (hotstuff.QuorumSignature, string) {
	_, msg, _ := w.qcTarget(spec.Target, spec.HashSeed)
	switch mod(c.SigOp, 5) {
	case 0:
		return w.sign(c.AltSig, msg), "resign"
	case 1:
		s := spec.Sig
		s.Wrong = !s.Wrong
		return w.sign(s, msg), "other-message"
	case 2:
		switch m := old.(type) {
		case crypto.Multi[*crypto.ECDSASignature]:
			if len(m) >= 2 {
				k := 1 + mod(c.Bit, len(m)-1)
				return append(append(crypto.Multi[*crypto.ECDSASignature]{}, m[k:]...), m[:k]...), "reorder"
			}
		case crypto.Multi[*crypto.EDDSASignature]:
			if len(m) >= 2 {
				k := 1 + mod(c.Bit, len(m)-1)
				return append(append(crypto.Multi[*crypto.EDDSASignature]{}, m[k:]...), m[:k]...), "reorder"
			}
		}
	case 3: // the same signature bytes attributed to another replica
		other := func(cur hotstuff.ID) hotstuff.ID {
			o := hotstuff.ID(1 + mod(int(cur)-1+1+mod(c.Bit, 6), 8))
			if o == cur {
				o++
			}
			return o
		}
		switch m := old.(type) {
		case crypto.Multi[*crypto.ECDSASignature]:
			if len(m) >= 1 {
				out := append(crypto.Multi[*crypto.ECDSASignature]{}, m...)
				k := mod(c.Bit, len(m))
				out[k] = crypto.RestoreECDSASignature(m[k].ToBytes(), other(m[k].Signer()))
				return out, "relabel"
			}
		case crypto.Multi[*crypto.EDDSASignature]:
			if len(m) >= 1 {
				out := append(crypto.Multi[*crypto.EDDSASignature]{}, m...)
				k := mod(c.Bit, len(m))
				out[k] = crypto.RestoreEDDSASignature(m[k].ToBytes(), other(m[k].Signer()))
				return out, "relabel"
			}
		case *crypto.BLS12AggregateSignature:
			bf := append([]byte(nil), m.Bitfield().Bytes()...)
			if len(bf) == 0 {
				bf = []byte{0}
			}
			bf[0] ^= 1 << mod(c.Bit, 8)
			out, err := crypto.RestoreBLS12AggregateSignature(m.ToBytes(), crypto.BitfieldFromBytes(bf))
			if err == nil {
				return out, "relabel"
			}
		}
	case 4:
		if old == nil {
			return w.sign(c.AltSig, msg), "add"
		}
		return nil, "remove"
	}
	return old, ""
}

func sigDiffers(a, b hotstuff.QuorumSignature) bool {
	if (a == nil) != (b == nil) {
		return true
	}
	if a == nil {
		return false
	}
	return !bytes.Equal(a.ToBytes(), b.ToBytes()) || !idsEqual(participants(a), participants(b))
}

// changeQC applies the change named by c.Field to a certificate. ok=false: the change is not applicable / changes nothing.
func (w *world) changeQC(c SensCase, qc hotstuff.QuorumCert, spec QCSpec) (out hotstuff.QuorumCert, tag string, ok bool) {
	switch c.Field {
	case "qc.hash":
		h := qc.BlockHash()
		h[mod(c.Bit, 256)/8] ^= 1 << (mod(c.Bit, 256) % 8)
		return hotstuff.NewQuorumCert(qc.Signature(), qc.View(), h), "qc.hash", true
	case "qc.view":
		return hotstuff.NewQuorumCert(qc.Signature(), qc.View()^hotstuff.View(nz(c.Mask)), qc.BlockHash()), "qc.view", true
	case "qc.sig":
		s, op := w.changeSig(c, qc.Signature(), spec)
		if op == "" || !sigDiffers(qc.Signature(), s) {
			return qc, "", false
		}
		return hotstuff.NewQuorumCert(s, qc.View(), qc.BlockHash()), "qc.sig-" + op, true
	}
	return qc, "", false
}

func changeBatch(c SensCase, b *clientpb.Batch) (*clientpb.Batch, string) {
	nc := &clientpb.Command{ClientID: c.Cmd.Client, SequenceNumber: c.Cmd.Seq, Data: cmdData(c.Cmd)}
	var out *clientpb.Batch
	if b != nil {
		out = proto.Clone(b).(*clientpb.Batch)
	}
	n := len(out.GetCommands())
	switch mod(c.BatchOp, 5) {
	case 0:
		if out == nil {
			out = &clientpb.Batch{}
		}
		out.Commands = append(out.Commands, nc)
		return out, "append"
	case 1:
		if n == 0 {
			return b, ""
		}
		out.Commands = out.Commands[:n-1]
		return out, "drop"
	case 2:
		if n == 0 {
			return b, ""
		}
		k := out.Commands[mod(c.Bit, n)]
		switch mod(c.Bit/7, 3) {
		case 0:
			k.ClientID ^= uint32(nz(c.Mask&0xffffffff | 1))
		case 1:
			k.SequenceNumber ^= nz(c.Mask)
		case 2:
			k.Data = append(append([]byte(nil), k.Data...), byte(c.Mask))
		}
		return out, "edit"
	case 3:
		if n < 2 {
			return b, ""
		}
		i, j := mod(c.Bit, n), mod(c.Bit/n+1, n)
		out.Commands[i], out.Commands[j] = out.Commands[j], out.Commands[i]
		return out, "swap"
	}
	return b, ""
}

func sensProp(c SensCase) common.Result {
	w := getWorld(c.Scheme, c.N, false)
	sender := w.ms[mod(c.Sender, w.n)]
	noop := func() common.Result { return common.OK(false, "noop", "noop:"+c.Obj+"."+c.Field) }
	switch c.Obj {
	case "block":
		if c.Block == nil {
			return noop()
		}
		s := *c.Block
		if mod(s.TS.Mode, 4) == 3 {
			s.TS.Mode = 0
		}
		parent, qc, batch := w.parent(s.ParentMode, s.ParentSeed), w.buildQC(s.QC, nil, ""), buildBatch(s.Batch, nil)
		view, proposer := hotstuff.View(s.View), hotstuff.ID(s.Proposer)
		ts, _ := buildTS(s.TS, nil)
		mk := func(parent hotstuff.Hash, qc hotstuff.QuorumCert, batch *clientpb.Batch, view hotstuff.View, proposer hotstuff.ID, ts time.Time) *hotstuff.Block {
			b := hotstuff.NewBlock(parent, qc, batch, view, proposer)
			b.SetTimestamp(ts)
			return b
		}
		a := mk(parent, qc, batch, view, proposer, ts)
		tag := c.Field
		switch c.Field {
		case "parent":
			parent[mod(c.Bit, 256)/8] ^= 1 << (mod(c.Bit, 256) % 8)
		case "proposer":
			proposer ^= hotstuff.ID(nz(c.Mask & 0xffffffff))
		case "view":
			view ^= hotstuff.View(nz(c.Mask))
		case "batch":
			nb, op := changeBatch(c, batch)
			if op == "" || proto.Equal(nb, batch) {
				return noop()
			}
			batch, tag = nb, "batch-"+op
		case "ts":
			d := tsDeltas[mod(c.TSDelta, len(tsDeltas))]
			nt := time.Unix(ts.Unix()+d[0], int64(ts.Nanosecond())+d[1]).UTC()
			if nt.Equal(ts) {
				return noop()
			}
			// only instants a Timestamp message can carry
			if nt.Unix() < minSec || nt.Unix() > maxSec {
				return noop()
			}
			ts, tag = nt, fmt.Sprintf("ts%+d.%09d", d[0], d[1])
			if d[0] > 1<<33 || d[0] < -(1<<33) {
				tag = "ts-wrap64"
			}
		default:
			nq, t, ok := w.changeQC(c, qc, s.QC)
			if !ok {
				return noop()
			}
			qc, tag = nq, t
		}
		b := mk(parent, qc, batch, view, proposer, ts)
		if a.Hash() == b.Hash() || bytes.Equal(a.ToBytes(), b.ToBytes()) {
			return common.Fail("sens:block."+tag, "%s: two blocks that differ in %s have the same hash=%v / the same bytes=%v (hash %s)",
				w.scheme, tag, a.Hash() == b.Hash(), bytes.Equal(a.ToBytes(), b.ToBytes()), a.Hash())
		}
		pb, err := wire(hotstuffpb.BlockToProto(b), &hotstuffpb.Block{})
		if err != nil {
			return common.Fail("wire:block", "marshal: %v", err)
		}
		if got := hotstuffpb.BlockFromProto(pb); got.Hash() == a.Hash() {
			return common.Fail("sens:wire.block."+tag, "%s: a block that differs in %s from block %s hashes to it after decoding", w.scheme, tag, a.Hash())
		}
		return common.OK(true, "", "block."+tag)
	case "timeout":
		if c.Timeout == nil {
			return noop()
		}
		s := *c.Timeout
		a := w.buildTimeout(s, sender.ID, sender, nil)
		b := a
		tag := c.Field
		switch c.Field {
		case "id":
			b.ID ^= hotstuff.ID(nz(c.Mask & 0xffffffff))
		case "view":
			b.View ^= hotstuff.View(nz(c.Mask))
		case "qc.presence":
			si := hotstuff.NewSyncInfo()
			if tc, ok := a.SyncInfo.TC(); ok {
				si.SetTC(tc)
			}
			if ag, ok := a.SyncInfo.AggQC(); ok {
				si.SetAggQC(ag)
			}
			if _, ok := a.SyncInfo.QC(); !ok {
				si.SetQC(w.buildQC(QCSpec{Target: 1 + mod(c.Bit, 3), HashSeed: c.Mask, Sig: c.AltSig}, nil, ""))
			}
			b.SyncInfo = si
		default:
			qc, ok := a.SyncInfo.QC()
			if !ok || s.Sync.QC == nil {
				return noop()
			}
			nq, t, ok := w.changeQC(c, qc, *s.Sync.QC)
			if !ok {
				return noop()
			}
			b.SyncInfo.SetQC(nq)
			tag = t
		}
		if bytes.Equal(a.ToBytes(), b.ToBytes()) {
			return common.Fail("sens:timeout."+tag, "%s: two timeout messages that differ in %s have the same bytes-to-sign", w.scheme, tag)
		}
		return common.OK(true, "", "timeout."+tag)
	case "qc":
		if c.QC == nil || (c.Field != "qc.hash" && c.Field != "qc.view") {
			return noop()
		}
		a := w.buildQC(*c.QC, nil, "")
		b, tag, ok := w.changeQC(c, a, *c.QC)
		if !ok {
			return noop()
		}
		if bytes.Equal(a.ToBytes(), b.ToBytes()) || a.Equals(b) {
			return common.Fail("sens:"+tag, "%s: two certificates that differ in %s have the same ToBytes / are Equal", w.scheme, tag)
		}
		return common.OK(true, "", tag)
	}
	return noop()
}

func genSens(rt *rapid.T) SensCase {
	c := SensCase{
		Scheme: rapid.IntRange(0, 2).Draw(rt, "scheme"),
		N:      rapid.SampledFrom([]int{1, 2, 4, 4, 7}).Draw(rt, "n"),
		Obj:    rapid.SampledFrom([]string{"block", "block", "block", "timeout", "timeout", "qc"}).Draw(rt, "obj"),
		Bit:    rapid.IntRange(0, 255).Draw(rt, "bit"),
		Mask:   rapid.OneOf(rapid.SampledFrom([]uint64{1, 2, 1 << 31, 1 << 32, 1 << 63, 0xff, 1 << 8}), rapid.Uint64()).Draw(rt, "mask"),
	}
	c.Sender = rapid.IntRange(0, c.N-1).Draw(rt, "sender")
	switch c.Obj {
	case "block":
		b := genBlock(rt, c.N, "block", false)
		c.Block = &b
		c.Field = rapid.SampledFrom(blockFields).Draw(rt, "field")
	case "timeout":
		t := genTimeout(rt, c.N, c.Sender, "timeout", rapid.SampledFrom([]int{1, 1, 3, 5, 7, 0, 2}).Draw(rt, "mask3"))
		c.Timeout = &t
		c.Field = rapid.SampledFrom(timeoutFields).Draw(rt, "field")
	case "qc":
		q := genQC(rt, c.N, "qc")
		c.QC = &q
		c.Field = rapid.SampledFrom(qcFields).Draw(rt, "field")
	}
	switch c.Field {
	case "qc.sig", "qc.presence":
		c.SigOp = rapid.IntRange(0, 4).Draw(rt, "sigop")
		c.AltSig = genSig(rt, c.N, "altsig")
	case "ts":
		c.TSDelta = rapid.IntRange(0, len(tsDeltas)-1).Draw(rt, "tsdelta")
	case "batch":
		c.BatchOp = rapid.IntRange(0, 3).Draw(rt, "batchop")
		c.Cmd = genCmd(rt, "cmd")
	}
	return c
}

// TestC12Sensitivity: one-component changes must change the hash / the bytes-to-sign.
func TestC12Sensitivity(t *testing.T) {
	common.Check(t, id, "TestC12Sensitivity", 4000, 150000, genSens, sensProp)
}

// AggBindCase: an honest aggregate certificate of n timeout messages in which the highest certificate (reported by
// replica Victim) gets its signers re-attributed by whoever assembles the aggregate.
type AggBindCase struct {
	Scheme, N, Victim int
}

// TestC12AggEntryBinding: the consequence of "changing the QC of a timeout message changes its bytes-to-sign" at the
// receiver: an aggregate certificate in which one reported certificate was altered (same signature bytes attributed to
// other replicas) must not verify under the unchanged aggregate signature; otherwise the assembler can hide the highest
// certificate from the replicas.
func TestC12AggEntryBinding(t *testing.T) {
	common.Exhaustive(t, id, "TestC12AggEntryBinding", func(yield func(AggBindCase) bool) {
		for scheme := 0; scheme < 3; scheme++ {
			for _, n := range []int{4, 7} {
				for v := 0; v < n; v++ {
					if !yield(AggBindCase{scheme, n, v}) {
						return
					}
				}
			}
		}
	}, func(c AggBindCase) common.Result {
		w := getWorld(c.Scheme, c.N, true)
		all := SigSpec{}
		for i := 0; i < w.n; i++ {
			all.Signers = append(all.Signers, i)
		}
		b2 := w.blocks[2]
		high := hotstuff.NewQuorumCert(w.sign(all, b2.ToBytes()), b2.View(), b2.Hash())
		low := b2.QuorumCert()
		victim := w.ms[mod(c.Victim, w.n)].ID
		qcs := map[hotstuff.ID]hotstuff.QuorumCert{}
		var sigs []hotstuff.QuorumSignature
		for _, m := range w.ms {
			qcs[m.ID] = low
			if m.ID == victim {
				qcs[m.ID] = high
			}
			tm := hotstuff.TimeoutMsg{ID: m.ID, View: 5, SyncInfo: hotstuff.NewSyncInfoWith(qcs[m.ID])}
			s, err := m.Base.Sign(tm.ToBytes())
			if err != nil {
				return common.Fail("harness", "sign: %v", err)
			}
			sigs = append(sigs, s)
		}
		agg, err := w.ms[0].Base.Combine(sigs...)
		if err != nil {
			return common.Fail("harness", "combine: %v", err)
		}
		recv := w.ms[mod(c.Victim+1, w.n)]
		hq, err := recv.Auth.VerifyAggregateQC(hotstuff.NewAggregateQC(qcs, agg, 5))
		if err != nil && kit.QuirkAgg(recv, hotstuff.NewAggregateQC(qcs, agg, 5), err) {
			// the premise (an honest aggregate certificate verifies) fails for this input because of the pairing library's
			// false negative, a known finding of C02: nothing about the wire encoding can be concluded from this case
			return common.OK(false, "", "premise fails: bls pairing false negative (known finding of C02)")
		}
		if err != nil || hq.View() != high.View() {
			return common.Fail("aggqc-honest", "%s n=%d: the honest aggregate certificate is refused or yields view %d: %v", w.scheme, w.n, hq.View(), err)
		}
		bad, op := w.changeSig(SensCase{SigOp: 3, Bit: c.Victim}, high.Signature(), QCSpec{Target: 2})
		if op != "relabel" {
			return common.Fail("harness", "relabel not applicable")
		}
		qcs2 := map[hotstuff.ID]hotstuff.QuorumCert{}
		for k, v := range qcs {
			qcs2[k] = v
		}
		qcs2[victim] = hotstuff.NewQuorumCert(bad, high.View(), high.BlockHash())
		hq, err = recv.Auth.VerifyAggregateQC(hotstuff.NewAggregateQC(qcs2, agg, 5))
		if err == nil {
			return common.Fail("sens:aggqc.entry-relabel", "%s n=%d: replica %d's reported certificate (view %d) was re-attributed to other signers, yet the aggregate "+
				"signature still verifies and the receiver takes view %d as the highest certificate", w.scheme, w.n, victim, high.View(), hq.View())
		}
		return common.OK(true, "", "aggbind:"+w.scheme)
	})
}
