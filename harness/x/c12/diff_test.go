package c12

// Semantic comparison of protocol objects: only what property C12 names (hash, bytes-to-sign, ordered participants,
// presence of optional parts, views/ids). No byte layout is prescribed. Every function returns "" when the two objects
// agree, otherwise a dotted path naming the first difference (used as fingerprint suffix).
//
// The functions never dereference an absent signature (TimeoutCert.ToBytes / PartialCert.ToBytes would; those nil
// dereferences belong to property C10), so they are also usable on objects decoded from arbitrary bytes.

import (
	"bytes"
	"fmt"
	"sort"

	"github.com/relab/hotstuff"
	"google.golang.org/protobuf/proto"
)

func participants(s hotstuff.QuorumSignature) []hotstuff.ID {
	var out []hotstuff.ID
	if s == nil {
		return nil
	}
	s.Participants().ForEach(func(i hotstuff.ID) { out = append(out, i) })
	return out
}

func idsEqual(a, b []hotstuff.ID) bool {
	if len(a) != len(b) {
		return false
	}
	for i := range a {
		if a[i] != b[i] {
			return false
		}
	}
	return true
}

func diffSig(p string, a, b hotstuff.QuorumSignature) string {
	if (a == nil) != (b == nil) {
		return p + ".presence"
	}
	if a == nil {
		return ""
	}
	if fmt.Sprintf("%T", a) != fmt.Sprintf("%T", b) {
		return p + ".type"
	}
	if !bytes.Equal(a.ToBytes(), b.ToBytes()) {
		return p + ".bytes"
	}
	if !idsEqual(participants(a), participants(b)) {
		return p + ".participants"
	}
	if a.Participants().Len() != b.Participants().Len() {
		return p + ".participants-len"
	}
	return ""
}

func diffQC(p string, a, b hotstuff.QuorumCert) string {
	if a.View() != b.View() {
		return p + ".view"
	}
	if a.BlockHash() != b.BlockHash() {
		return p + ".hash"
	}
	if d := diffSig(p+".sig", a.Signature(), b.Signature()); d != "" {
		return d
	}
	if !bytes.Equal(a.ToBytes(), b.ToBytes()) {
		return p + ".tobytes"
	}
	if !a.Equals(b) {
		return p + ".equals"
	}
	return ""
}

func diffTC(p string, a, b hotstuff.TimeoutCert) string {
	if a.View() != b.View() {
		return p + ".view"
	}
	if d := diffSig(p+".sig", a.Signature(), b.Signature()); d != "" {
		return d
	}
	if a.Signature() != nil && !bytes.Equal(a.ToBytes(), b.ToBytes()) {
		return p + ".tobytes"
	}
	return ""
}

func sortedIDs(m map[hotstuff.ID]hotstuff.QuorumCert) []hotstuff.ID {
	ids := make([]hotstuff.ID, 0, len(m))
	for i := range m {
		ids = append(ids, i)
	}
	sort.Slice(ids, func(i, j int) bool { return ids[i] < ids[j] })
	return ids
}

func diffAgg(p string, a, b hotstuff.AggregateQC) string {
	if a.View() != b.View() {
		return p + ".view"
	}
	if len(a.QCs()) != len(b.QCs()) {
		return p + ".qcs-len"
	}
	for _, i := range sortedIDs(a.QCs()) {
		qb, ok := b.QCs()[i]
		if !ok {
			return p + ".qcs-id"
		}
		if d := diffQC(p+".qcs", a.QCs()[i], qb); d != "" {
			return d
		}
	}
	return diffSig(p+".sig", a.Sig(), b.Sig())
}

func diffSync(p string, a, b hotstuff.SyncInfo) string {
	qa, oka := a.QC()
	qb, okb := b.QC()
	if oka != okb {
		return p + ".qc-presence"
	}
	if oka {
		if d := diffQC(p+".qc", qa, qb); d != "" {
			return d
		}
	}
	ta, oka := a.TC()
	tb, okb := b.TC()
	if oka != okb {
		return p + ".tc-presence"
	}
	if oka {
		if d := diffTC(p+".tc", ta, tb); d != "" {
			return d
		}
	}
	ga, oka := a.AggQC()
	gb, okb := b.AggQC()
	if oka != okb {
		return p + ".aggqc-presence"
	}
	if oka {
		if d := diffAgg(p+".aggqc", ga, gb); d != "" {
			return d
		}
	}
	return ""
}

func diffBlock(p string, a, b *hotstuff.Block) string {
	if (a == nil) != (b == nil) {
		return p + ".presence"
	}
	if a == nil {
		return ""
	}
	if a.Parent() != b.Parent() {
		return p + ".parent"
	}
	if a.Proposer() != b.Proposer() {
		return p + ".proposer"
	}
	if a.View() != b.View() {
		return p + ".view"
	}
	if !proto.Equal(a.Commands(), b.Commands()) {
		return p + ".batch"
	}
	if !bytes.Equal(a.Commands().Marshal(), b.Commands().Marshal()) {
		return p + ".batch-bytes"
	}
	if d := diffQC(p+".qc", a.QuorumCert(), b.QuorumCert()); d != "" {
		return d
	}
	// the same instant; zone and monotonic reading are not part of a block
	if !a.Timestamp().Equal(b.Timestamp()) {
		return p + ".timestamp"
	}
	if !bytes.Equal(a.ToBytes(), b.ToBytes()) {
		return p + ".tobytes"
	}
	if a.Hash() != b.Hash() {
		return p + ".hash"
	}
	return ""
}

func diffPC(p string, a, b hotstuff.PartialCert) string {
	if a.BlockHash() != b.BlockHash() {
		return p + ".hash"
	}
	if a.Signer() != b.Signer() {
		return p + ".signer"
	}
	if d := diffSig(p+".sig", a.Signature(), b.Signature()); d != "" {
		return d
	}
	if a.Signature() != nil && !bytes.Equal(a.ToBytes(), b.ToBytes()) {
		return p + ".tobytes"
	}
	return ""
}

func diffTimeout(p string, a, b hotstuff.TimeoutMsg) string {
	if a.ID != b.ID {
		return p + ".id"
	}
	if a.View != b.View {
		return p + ".view"
	}
	if d := diffSig(p+".viewsig", a.ViewSignature, b.ViewSignature); d != "" {
		return d
	}
	if d := diffSig(p+".msgsig", a.MsgSignature, b.MsgSignature); d != "" {
		return d
	}
	if d := diffSync(p+".sync", a.SyncInfo, b.SyncInfo); d != "" {
		return d
	}
	if !bytes.Equal(a.ToBytes(), b.ToBytes()) {
		return p + ".bytes-to-sign"
	}
	return ""
}

func diffProposal(p string, a, b hotstuff.ProposeMsg) string {
	if a.ID != b.ID {
		return p + ".id"
	}
	if d := diffBlock(p+".block", a.Block, b.Block); d != "" {
		return d
	}
	if (a.AggregateQC == nil) != (b.AggregateQC == nil) {
		return p + ".aggqc-presence"
	}
	if a.AggregateQC != nil {
		return diffAgg(p+".aggqc", *a.AggregateQC, *b.AggregateQC)
	}
	return ""
}
