package c12

// Specs (JSON-serialisable descriptions of protocol objects), the builders that turn them into real objects signed with
// real keys, and the rapid generators for the specs.

import (
	"encoding/binary"
	"fmt"
	"math"
	"sort"
	"sync"
	"time"

	"github.com/relab/hotstuff"
	"github.com/relab/hotstuff/core"
	"github.com/relab/hotstuff/internal/proto/clientpb"
	"github.com/relab/hotstuff/verifx/kit"
	"pgregory.net/rapid"
)

const maxN = 7

// ---------------------------------------------------------------------------------------------------------------------
// world: a cached cluster of n replicas with real keys and two stored, certifiable blocks

type world struct {
	scheme string
	n      int
	agg    bool
	ms     []*kit.Member
	blocks []*hotstuff.Block // blocks[0] = genesis, [1] = b1 (view 1), [2] = b2 (view 2, parent b1, QC over b1)
}

var (
	worldMu sync.Mutex
	worlds  = map[string]*world{}
)

func mod(i, n int) int {
	i %= n
	if i < 0 {
		i += n
	}
	return i
}

func clampN(n int) int {
	if n < 1 {
		return 1
	}
	if n > maxN {
		return maxN
	}
	return n
}

func getWorld(schemeIdx, n int, agg bool) *world {
	scheme := kit.Schemes[mod(schemeIdx, len(kit.Schemes))]
	n = clampN(n)
	key := fmt.Sprintf("%s/%d/%v", scheme, n, agg)
	worldMu.Lock()
	defer worldMu.Unlock()
	if w, ok := worlds[key]; ok {
		return w
	}
	var opts []core.RuntimeOption
	if agg {
		opts = append(opts, core.WithAggregateQC())
	}
	w := &world{scheme: scheme, n: n, agg: agg, ms: kit.NewCluster(scheme, n, opts...)}
	gen := hotstuff.GetGenesis()
	b1 := kit.NewBlock(gen.Hash(), kit.GenesisQC(), &clientpb.Batch{Commands: []*clientpb.Command{{ClientID: 1, SequenceNumber: 1, Data: []byte("b1")}}}, 1, 1)
	b1.SetTimestamp(time.Unix(1_700_000_000, 1).UTC())
	sig, err := kit.CombineAny(scheme, w.ms[0].Base, kit.SignEach(w.ms, b1.ToBytes()))
	if err != nil {
		panic(err)
	}
	b2 := kit.NewBlock(b1.Hash(), hotstuff.NewQuorumCert(sig, 1, b1.Hash()), &clientpb.Batch{}, 2, hotstuff.ID(mod(1, n)+1))
	b2.SetTimestamp(time.Unix(1_700_000_001, 999_999_999).UTC())
	kit.StoreAll(w.ms, b1)
	kit.StoreAll(w.ms, b2)
	w.blocks = []*hotstuff.Block{gen, b1, b2}
	worlds[key] = w
	return w
}

// ---------------------------------------------------------------------------------------------------------------------
// feature recorder: what optional parts the built object has, which extreme values (non-triviality rule and classes)

type feat struct {
	present, absent int
	extreme         bool
	tokens          []string
}

func (f *feat) opt(name string, present bool) {
	if f == nil {
		return
	}
	if present {
		f.present++
		f.tokens = append(f.tokens, "+"+name)
	} else {
		f.absent++
		f.tokens = append(f.tokens, "-"+name)
	}
}

func (f *feat) tok(s string) {
	if f != nil {
		f.tokens = append(f.tokens, s)
	}
}

var extremeU64 = []uint64{math.MaxUint64, math.MaxUint64 - 1, 1 << 63, 1<<63 - 1, 1 << 32, 1<<32 - 1}

func (f *feat) u64(name string, v uint64) {
	if f == nil {
		return
	}
	if v >= 1<<32-1 {
		f.extreme = true
		f.tokens = append(f.tokens, "x:"+name)
	}
}

func (f *feat) u32(name string, v uint32) {
	if f == nil {
		return
	}
	if v >= math.MaxUint32-1 || v == 0 {
		f.extreme = true
		f.tokens = append(f.tokens, "x:"+name)
	}
}

func (f *feat) nontrivial() bool { return f.extreme || (f.present > 0 && f.absent > 0) }

// ---------------------------------------------------------------------------------------------------------------------
// specs

// SigSpec names the signers (member indexes, taken modulo n, first occurrence wins, order kept) of a signature.
type SigSpec struct {
	Signers []int
	Wrong   bool // the signers sign other bytes than the ones a verifier will use
}

// QCSpec: Target 0 = genesis certificate (no signature), 1/2 = the stored blocks b1/b2, 3 = a block nobody has.
type QCSpec struct {
	Target   int
	HashSeed uint64
	OwnView  bool   // false: the certified block's view; true: View
	View     uint64 `json:",string"`
	Sig      SigSpec
}

type TCSpec struct {
	View   uint64 `json:",string"`
	NilSig bool   // only honoured for view 0 (the certificate CreateTimeoutCert makes for view 0)
	Sig    SigSpec
}

type AggEntry struct {
	RawID bool   // false: the id of the i-th signer; true: ID
	ID    uint32 // any id
	QC    QCSpec
}

// AggSpec: each signer signs the timeout message (its id, View, the QC listed under its id, if any).
type AggSpec struct {
	View    uint64 `json:",string"`
	Entries []AggEntry
	Sig     SigSpec
}

type SyncSpec struct {
	QC  *QCSpec  `json:",omitempty"`
	TC  *TCSpec  `json:",omitempty"`
	Agg *AggSpec `json:",omitempty"`
}

type CmdSpec struct {
	Client  uint32
	Seq     uint64 `json:",string"`
	DataLen int
	Fill    byte
}

type BatchSpec struct {
	Nil  bool // no batch object at all
	Cmds []CmdSpec
	Bulk int // additional generated commands (large batches)
}

// TSSpec: Mode 0 UTC, 1 fixed zone Zone seconds east, 2 the process's local zone, 3 keep the time.Now() that NewBlock
// took (monotonic reading, local zone; Sec/Nsec unused).
type TSSpec struct {
	Mode int
	Sec  int64 `json:",string"`
	Nsec int64
	Zone int
}

type BlockSpec struct {
	ParentMode int // 0 genesis, 1 b1, 2 b2, 3 arbitrary (ParentSeed), 4 all zero
	ParentSeed uint64
	QC         QCSpec
	Batch      BatchSpec
	View       uint64 `json:",string"`
	Proposer   uint32
	TS         TSSpec
}

type TimeoutSpec struct {
	View    uint64 `json:",string"`
	Sync    SyncSpec
	ViewSig SigSpec
	MsgSig  *SigSpec `json:",omitempty"`
}

type VoteSpec struct {
	Target   int // as QCSpec.Target (0 = genesis block)
	HashSeed uint64
	Sig      SigSpec
}

// ---------------------------------------------------------------------------------------------------------------------
// builders

func seedHash(seed uint64) (h hotstuff.Hash) {
	for i := 0; i < 4; i++ {
		binary.LittleEndian.PutUint64(h[i*8:], seed*0x9E3779B97F4A7C15+uint64(i)*0xD1B54A32D192ED03+1)
	}
	return h
}

func (w *world) signerIdx(s SigSpec) []int {
	seen := map[int]bool{}
	var out []int
	for _, i := range s.Signers {
		i = mod(i, w.n)
		if !seen[i] {
			seen[i] = true
			out = append(out, i)
		}
	}
	if len(out) == 0 {
		out = []int{0}
	}
	return out
}

func (w *world) sign(s SigSpec, msg []byte) hotstuff.QuorumSignature {
	if s.Wrong {
		msg = append([]byte("not what the verifier expects:"), msg...)
	}
	idx := w.signerIdx(s)
	sigs := make([]hotstuff.QuorumSignature, 0, len(idx))
	for _, i := range idx {
		sg, err := w.ms[i].Base.Sign(msg)
		if err != nil {
			panic(err)
		}
		sigs = append(sigs, sg)
	}
	out, err := kit.CombineAny(w.scheme, w.ms[0].Base, sigs)
	if err != nil {
		panic(err)
	}
	return out
}

func (w *world) sigTok(f *feat, name string, s SigSpec) {
	if f == nil {
		return
	}
	idx := w.signerIdx(s)
	k := len(idx)
	q := hotstuff.QuorumSize(w.n)
	size := "sub"
	if k >= q {
		size = "quorum"
	}
	if k == w.n {
		size = "all"
	}
	if k == 1 {
		size = "one"
	}
	order := "sorted"
	if !sort.IntsAreSorted(idx) {
		order = "unsorted"
	}
	f.tok(fmt.Sprintf("%s:%s/%s/wrong=%v", name, size, order, s.Wrong))
}

// qcTarget returns hash, message to sign and natural view of the certified block.
func (w *world) qcTarget(target int, seed uint64) (hotstuff.Hash, []byte, hotstuff.View) {
	t := mod(target, 4)
	if t < 3 {
		b := w.blocks[t]
		return b.Hash(), b.ToBytes(), b.View()
	}
	h := seedHash(seed)
	return h, h[:], hotstuff.View(seed % 1000)
}

func (w *world) buildQC(s QCSpec, f *feat, name string) hotstuff.QuorumCert {
	hash, msg, view := w.qcTarget(s.Target, s.HashSeed)
	if s.OwnView {
		view = hotstuff.View(s.View)
	}
	f.u64(name+".view", uint64(view))
	f.tok(fmt.Sprintf("%s.target=%d", name, mod(s.Target, 4)))
	if mod(s.Target, 4) == 0 {
		f.opt(name+".sig", false)
		return hotstuff.NewQuorumCert(nil, view, hash)
	}
	f.opt(name+".sig", true)
	w.sigTok(f, name+".sig", s.Sig)
	return hotstuff.NewQuorumCert(w.sign(s.Sig, msg), view, hash)
}

func (w *world) buildTC(s TCSpec, f *feat, name string) hotstuff.TimeoutCert {
	v := hotstuff.View(s.View)
	f.u64(name+".view", s.View)
	if s.View == 0 && s.NilSig {
		f.opt(name+".sig", false)
		return hotstuff.NewTimeoutCert(nil, 0)
	}
	f.opt(name+".sig", true)
	w.sigTok(f, name+".sig", s.Sig)
	return hotstuff.NewTimeoutCert(w.sign(s.Sig, v.ToBytes()), v)
}

func (w *world) buildAgg(s AggSpec, f *feat, name string) hotstuff.AggregateQC {
	idx := w.signerIdx(s.Sig)
	qcs := map[hotstuff.ID]hotstuff.QuorumCert{}
	for i, e := range s.Entries {
		id := hotstuff.ID(e.ID)
		if !e.RawID {
			id = w.ms[idx[mod(i, len(idx))]].ID
		} else {
			f.u32(name+".entry-id", e.ID)
		}
		if _, dup := qcs[id]; dup {
			continue
		}
		qcs[id] = w.buildQC(e.QC, f, name+".entry")
	}
	v := hotstuff.View(s.View)
	f.u64(name+".view", s.View)
	f.tok(fmt.Sprintf("%s.entries=%s", name, bucket(len(qcs), w.n)))
	w.sigTok(f, name+".sig", s.Sig)
	sigs := make([]hotstuff.QuorumSignature, 0, len(idx))
	for _, i := range idx {
		m := w.ms[i]
		tm := hotstuff.TimeoutMsg{ID: m.ID, View: v}
		if qc, ok := qcs[m.ID]; ok {
			tm.SyncInfo = hotstuff.NewSyncInfoWith(qc)
		}
		msg := tm.ToBytes()
		if s.Sig.Wrong {
			msg = append([]byte("wrong:"), msg...)
		}
		sg, err := m.Base.Sign(msg)
		if err != nil {
			panic(err)
		}
		sigs = append(sigs, sg)
	}
	sig, err := kit.CombineAny(w.scheme, w.ms[0].Base, sigs)
	if err != nil {
		panic(err)
	}
	return hotstuff.NewAggregateQC(qcs, sig, v)
}

func bucket(k, n int) string {
	switch {
	case k == 0:
		return "0"
	case k == 1:
		return "1"
	case k < n:
		return "some"
	case k == n:
		return "n"
	}
	return ">n"
}

func (w *world) buildSync(s SyncSpec, f *feat, name string) hotstuff.SyncInfo {
	si := hotstuff.NewSyncInfo()
	f.opt(name+".qc", s.QC != nil)
	f.opt(name+".tc", s.TC != nil)
	f.opt(name+".aggqc", s.Agg != nil)
	if s.QC != nil {
		si.SetQC(w.buildQC(*s.QC, f, name+".qc"))
	}
	if s.TC != nil {
		si.SetTC(w.buildTC(*s.TC, f, name+".tc"))
	}
	if s.Agg != nil {
		si.SetAggQC(w.buildAgg(*s.Agg, f, name+".aggqc"))
	}
	return si
}

func cmdData(c CmdSpec) []byte {
	if c.DataLen <= 0 {
		return nil
	}
	d := make([]byte, c.DataLen)
	for i := range d {
		d[i] = c.Fill + byte(i*7)
	}
	return d
}

func buildBatch(s BatchSpec, f *feat) *clientpb.Batch {
	if s.Nil {
		f.opt("batch", false)
		return nil
	}
	b := &clientpb.Batch{}
	for _, c := range s.Cmds {
		b.Commands = append(b.Commands, &clientpb.Command{ClientID: c.Client, SequenceNumber: c.Seq, Data: cmdData(c)})
		f.u64("cmd.seq", c.Seq)
		if c.DataLen >= 1<<16 {
			f.tok("cmd.bigdata")
		}
	}
	for i := 0; i < s.Bulk; i++ {
		b.Commands = append(b.Commands, &clientpb.Command{ClientID: uint32(i % 5), SequenceNumber: uint64(i), Data: []byte{byte(i), byte(i >> 8)}})
	}
	n := len(b.Commands)
	f.opt("batch.commands", n > 0)
	switch {
	case n == 0:
		f.tok("batch=empty")
	case n < 10:
		f.tok("batch=small")
	case n < 500:
		f.tok("batch=medium")
	default:
		f.tok("batch=large")
	}
	return b
}

// timestamp range of google.protobuf.Timestamp (0001-01-01 .. 9999-12-31)
const (
	minSec = -62135596800
	maxSec = 253402300799
)

func buildTS(s TSSpec, f *feat) (time.Time, bool) {
	m := mod(s.Mode, 4)
	if m == 3 {
		f.tok("ts=now")
		return time.Time{}, false
	}
	sec, nsec := s.Sec, mod(int(s.Nsec%1_000_000_000), 1_000_000_000)
	if sec < minSec {
		sec = minSec
	}
	if sec > maxSec {
		sec = maxSec
	}
	t := time.Unix(sec, int64(nsec))
	switch m {
	case 0:
		t = t.UTC()
	case 1:
		t = t.In(time.FixedZone("z", mod(s.Zone, 86400)-43200))
	}
	f.tok(fmt.Sprintf("ts.zone=%d", m))
	// outside the years for which UnixNano is defined, or at the ends of the protobuf range
	if sec < -9_000_000_000 || sec > 9_000_000_000 {
		if f != nil {
			f.extreme = true
		}
		f.tok("x:ts")
	}
	if nsec%1_000_000 != 0 {
		f.tok("ts.subms")
	}
	return t, true
}

func (w *world) parent(mode int, seed uint64) hotstuff.Hash {
	switch mod(mode, 5) {
	case 0, 1, 2:
		return w.blocks[mod(mode, 5)].Hash()
	case 3:
		return seedHash(seed)
	}
	return hotstuff.Hash{}
}

func (w *world) buildBlock(s BlockSpec, f *feat) *hotstuff.Block {
	f.tok(fmt.Sprintf("parent=%d", mod(s.ParentMode, 5)))
	f.u64("block.view", s.View)
	f.u32("block.proposer", s.Proposer)
	b := kit.NewBlock(w.parent(s.ParentMode, s.ParentSeed), w.buildQC(s.QC, f, "block.qc"), buildBatch(s.Batch, f), hotstuff.View(s.View), hotstuff.ID(s.Proposer))
	if ts, ok := buildTS(s.TS, f); ok {
		b.SetTimestamp(ts)
	}
	return b
}

func (w *world) buildTimeout(s TimeoutSpec, sender hotstuff.ID, signer *kit.Member, f *feat) hotstuff.TimeoutMsg {
	v := hotstuff.View(s.View)
	f.u64("timeout.view", s.View)
	tm := hotstuff.TimeoutMsg{ID: sender, View: v, SyncInfo: w.buildSync(s.Sync, f, "sync")}
	tm.ViewSignature = w.sign(s.ViewSig, v.ToBytes())
	w.sigTok(f, "viewsig", s.ViewSig)
	f.opt("msgsig", s.MsgSig != nil)
	if s.MsgSig != nil {
		tm.MsgSignature = w.sign(*s.MsgSig, tm.ToBytes())
		w.sigTok(f, "msgsig", *s.MsgSig)
	}
	return tm
}

func (w *world) buildVote(s VoteSpec, f *feat) hotstuff.PartialCert {
	hash, msg, _ := w.qcTarget(s.Target, s.HashSeed)
	f.tok(fmt.Sprintf("vote.target=%d", mod(s.Target, 4)))
	w.sigTok(f, "vote.sig", s.Sig)
	return hotstuff.NewPartialCert(w.sign(s.Sig, msg), hash)
}

// ---------------------------------------------------------------------------------------------------------------------
// generators

func genU64() *rapid.Generator[uint64] {
	return rapid.OneOf(rapid.Uint64Range(0, 40), rapid.Uint64Range(0, 40), rapid.SampledFrom(extremeU64), rapid.Uint64())
}

func genU32() *rapid.Generator[uint32] {
	return rapid.OneOf(rapid.Uint32Range(0, 9), rapid.Uint32Range(1, 7), rapid.SampledFrom([]uint32{math.MaxUint32, math.MaxUint32 - 1, 1 << 31, 1 << 16}), rapid.Uint32())
}

func genSig(rt *rapid.T, n int, label string) SigSpec {
	all := make([]int, n)
	for i := range all {
		all[i] = i
	}
	perm := rapid.Permutation(all).Draw(rt, label+".perm")
	q := hotstuff.QuorumSize(n)
	k := rapid.OneOf(rapid.Just(n), rapid.Just(q), rapid.Just(q), rapid.IntRange(1, n)).Draw(rt, label+".k")
	if k < 1 {
		k = 1
	}
	if k > n {
		k = n
	}
	s := append([]int(nil), perm[:k]...)
	if rapid.IntRange(0, 3).Draw(rt, label+".sorted") == 0 {
		sort.Ints(s)
	}
	return SigSpec{Signers: s, Wrong: rapid.IntRange(0, 5).Draw(rt, label+".wrong") == 0}
}

func genQC(rt *rapid.T, n int, label string) QCSpec {
	s := QCSpec{
		Target:  rapid.SampledFrom([]int{0, 1, 1, 2, 2, 3}).Draw(rt, label+".target"),
		OwnView: rapid.IntRange(0, 2).Draw(rt, label+".ownview") == 0,
	}
	if s.OwnView {
		s.View = genU64().Draw(rt, label+".view")
	}
	if s.Target == 3 {
		s.HashSeed = rapid.Uint64().Draw(rt, label+".seed")
	}
	if s.Target != 0 {
		s.Sig = genSig(rt, n, label+".sig")
	}
	return s
}

func genTC(rt *rapid.T, n int, label string) TCSpec {
	s := TCSpec{View: genU64().Draw(rt, label+".view")}
	if rapid.IntRange(0, 5).Draw(rt, label+".zero") == 0 {
		s.View = 0
		s.NilSig = rapid.Bool().Draw(rt, label+".nilsig")
	}
	if !(s.View == 0 && s.NilSig) {
		s.Sig = genSig(rt, n, label+".sig")
	}
	return s
}

func genAgg(rt *rapid.T, n int, label string) AggSpec {
	s := AggSpec{View: genU64().Draw(rt, label+".view"), Sig: genSig(rt, n, label+".sig")}
	k := len(s.Sig.Signers)
	mode := rapid.IntRange(0, 3).Draw(rt, label+".mode")
	switch mode {
	case 0, 1: // one entry per signer, as CreateAggregateQC builds it
		for i := 0; i < k; i++ {
			s.Entries = append(s.Entries, AggEntry{QC: genQC(rt, n, fmt.Sprintf("%s.e%d", label, i))})
		}
	case 2: // 0..n entries, ids free
		m := rapid.IntRange(0, n).Draw(rt, label+".entries")
		for i := 0; i < m; i++ {
			e := AggEntry{QC: genQC(rt, n, fmt.Sprintf("%s.e%d", label, i))}
			if rapid.Bool().Draw(rt, fmt.Sprintf("%s.e%d.raw", label, i)) {
				e.RawID = true
				e.ID = genU32().Draw(rt, fmt.Sprintf("%s.e%d.id", label, i))
			}
			s.Entries = append(s.Entries, e)
		}
	case 3: // none
	}
	return s
}

func genSync(rt *rapid.T, n int, label string, mask int) SyncSpec {
	if mask < 0 {
		mask = rapid.IntRange(0, 7).Draw(rt, label+".mask")
	}
	var s SyncSpec
	if mask&1 != 0 {
		q := genQC(rt, n, label+".qc")
		s.QC = &q
	}
	if mask&2 != 0 {
		t := genTC(rt, n, label+".tc")
		s.TC = &t
	}
	if mask&4 != 0 {
		a := genAgg(rt, n, label+".agg")
		s.Agg = &a
	}
	return s
}

func genCmd(rt *rapid.T, label string) CmdSpec {
	return CmdSpec{
		Client:  genU32().Draw(rt, label+".client"),
		Seq:     genU64().Draw(rt, label+".seq"),
		DataLen: rapid.OneOf(rapid.Just(0), rapid.IntRange(0, 40), rapid.IntRange(0, 40), rapid.SampledFrom([]int{127, 128, 16383, 16384, 70000})).Draw(rt, label+".len"),
		Fill:    rapid.Byte().Draw(rt, label+".fill"),
	}
}

func genBatch(rt *rapid.T, label string) BatchSpec {
	var s BatchSpec
	switch rapid.IntRange(0, 9).Draw(rt, label+".kind") {
	case 0:
		s.Nil = true
	case 1, 2: // empty batch object
	case 3:
		s.Bulk = rapid.SampledFrom([]int{100, 1000, 5000}).Draw(rt, label+".bulk")
	default:
		k := rapid.IntRange(1, 5).Draw(rt, label+".n")
		for i := 0; i < k; i++ {
			s.Cmds = append(s.Cmds, genCmd(rt, fmt.Sprintf("%s.c%d", label, i)))
		}
	}
	return s
}

var extremeSec = []int64{minSec, minSec + 1, maxSec, maxSec - 1, 0, -1, 1, math.MaxInt32, math.MaxInt32 + 1, math.MinInt32 - 1,
	-9223372037, -9223372036, 9223372036, 9223372037, // the ends of the UnixNano range (years 1678 / 2262)
	1_735_689_600}

func genTS(rt *rapid.T, label string, allowNow bool) TSSpec {
	hi := 2
	if allowNow {
		hi = 3
	}
	s := TSSpec{Mode: rapid.IntRange(0, hi).Draw(rt, label+".mode")}
	if s.Mode == 3 {
		return s
	}
	s.Sec = rapid.OneOf(rapid.Int64Range(1_600_000_000, 1_900_000_000), rapid.SampledFrom(extremeSec), rapid.Int64Range(minSec, maxSec)).Draw(rt, label+".sec")
	s.Nsec = rapid.OneOf(rapid.SampledFrom([]int64{0, 1, 999, 1000, 999_999, 1_000_000, 500_000_000, 999_999_999}), rapid.Int64Range(0, 999_999_999)).Draw(rt, label+".nsec")
	if s.Mode == 1 {
		s.Zone = rapid.IntRange(0, 86399).Draw(rt, label+".zone")
	}
	return s
}

func genBlock(rt *rapid.T, n int, label string, allowNow bool) BlockSpec {
	s := BlockSpec{
		ParentMode: rapid.IntRange(0, 4).Draw(rt, label+".parent"),
		QC:         genQC(rt, n, label+".qc"),
		Batch:      genBatch(rt, label+".batch"),
		View:       genU64().Draw(rt, label+".view"),
		Proposer:   genU32().Draw(rt, label+".proposer"),
		TS:         genTS(rt, label+".ts", allowNow),
	}
	if s.ParentMode == 3 {
		s.ParentSeed = rapid.Uint64().Draw(rt, label+".pseed")
	}
	return s
}

func genTimeout(rt *rapid.T, n, sender int, label string, mask int) TimeoutSpec {
	s := TimeoutSpec{View: genU64().Draw(rt, label+".view"), Sync: genSync(rt, n, label+".sync", mask)}
	// an honest replica signs its own timeout; other signer sets are what a relay / adversary can produce
	if rapid.IntRange(0, 2).Draw(rt, label+".own") != 0 {
		s.ViewSig = SigSpec{Signers: []int{sender}}
	} else {
		s.ViewSig = genSig(rt, n, label+".viewsig")
	}
	if rapid.Bool().Draw(rt, label+".hasmsgsig") {
		ms := SigSpec{Signers: []int{sender}}
		if rapid.IntRange(0, 3).Draw(rt, label+".msgown") == 0 {
			ms = genSig(rt, n, label+".msgsig")
		}
		s.MsgSig = &ms
	}
	return s
}

func genVote(rt *rapid.T, n, sender int, label string) VoteSpec {
	s := VoteSpec{Target: rapid.SampledFrom([]int{0, 1, 1, 2, 2, 3}).Draw(rt, label+".target")}
	if s.Target == 3 {
		s.HashSeed = rapid.Uint64().Draw(rt, label+".seed")
	}
	if rapid.IntRange(0, 2).Draw(rt, label+".own") != 0 {
		s.Sig = SigSpec{Signers: []int{sender}}
	} else {
		s.Sig = genSig(rt, n, label+".sig")
	}
	return s
}
