package c12

// Structure-aware edits of an honest protobuf message (the framing stays valid, the content becomes what a faulty or
// malicious peer could send): the k-th populated field in a deterministic walk is altered.

import (
	"math"
	"sort"

	"google.golang.org/protobuf/proto"
	"google.golang.org/protobuf/reflect/protoreflect"
)

type pbEdit struct {
	Pick int // which populated field (mod count)
	Op   int
	Val  byte
}

type pbSlot struct {
	set   func(protoreflect.Value)
	get   func() protoreflect.Value
	clear func()
	kind  protoreflect.Kind
}

func collectSlots(m protoreflect.Message, out *[]pbSlot) {
	fds := m.Descriptor().Fields()
	for i := 0; i < fds.Len(); i++ {
		fd := fds.Get(i)
		if !m.Has(fd) {
			continue
		}
		switch {
		case fd.IsMap():
			mp := m.Mutable(fd).Map()
			var keys []protoreflect.MapKey
			mp.Range(func(k protoreflect.MapKey, _ protoreflect.Value) bool { keys = append(keys, k); return true })
			sort.Slice(keys, func(a, b int) bool { return keys[a].Uint() < keys[b].Uint() })
			for _, k := range keys {
				k := k
				if fd.MapValue().Kind() == protoreflect.MessageKind {
					*out = append(*out, pbSlot{kind: protoreflect.MessageKind, clear: func() { mp.Clear(k) }})
					collectSlots(mp.Get(k).Message(), out)
				}
			}
		case fd.IsList():
			l := m.Mutable(fd).List()
			*out = append(*out, pbSlot{kind: protoreflect.GroupKind, clear: func() {
				if l.Len() > 0 {
					l.Truncate(l.Len() - 1)
				}
			}})
			if fd.Kind() == protoreflect.MessageKind {
				for j := 0; j < l.Len() && j < 8; j++ {
					collectSlots(l.Get(j).Message(), out)
				}
			}
		case fd.Kind() == protoreflect.MessageKind:
			fd := fd
			*out = append(*out, pbSlot{kind: protoreflect.MessageKind, clear: func() { m.Clear(fd) }})
			collectSlots(m.Mutable(fd).Message(), out)
		default:
			fd := fd
			*out = append(*out, pbSlot{kind: fd.Kind(), clear: func() { m.Clear(fd) },
				get: func() protoreflect.Value { return m.Get(fd) }, set: func(v protoreflect.Value) { m.Set(fd, v) }})
		}
	}
}

func mutatePB(msg proto.Message, edits []pbEdit) {
	for _, e := range edits {
		var slots []pbSlot
		collectSlots(msg.ProtoReflect(), &slots)
		if len(slots) == 0 {
			return
		}
		s := slots[mod(e.Pick, len(slots))]
		op := mod(e.Op, 6)
		if s.set == nil || op == 0 {
			s.clear()
			continue
		}
		switch s.kind {
		case protoreflect.BytesKind:
			b := append([]byte(nil), s.get().Bytes()...)
			switch op {
			case 1:
				if len(b) > 0 {
					b = b[:len(b)-1-mod(int(e.Val), len(b))]
				}
			case 2:
				b = append(b, e.Val, 0)
			case 3:
				if len(b) > 0 {
					b[mod(int(e.Val), len(b))] ^= 1 << (e.Val % 8)
				}
			case 4:
				for i := range b {
					b[i] = e.Val
				}
			case 5:
				b = append(b, make([]byte, 1+int(e.Val%40))...)
			}
			s.set(protoreflect.ValueOfBytes(b))
		case protoreflect.Uint32Kind:
			s.set(protoreflect.ValueOfUint32([]uint32{0, math.MaxUint32, 1 << 31, uint32(e.Val), 1 + uint32(e.Val%8)}[op-1]))
		case protoreflect.Uint64Kind:
			s.set(protoreflect.ValueOfUint64([]uint64{0, math.MaxUint64, 1 << 63, uint64(e.Val), 1 << 32}[op-1]))
		case protoreflect.Int64Kind:
			s.set(protoreflect.ValueOfInt64([]int64{math.MinInt64, math.MaxInt64, -1, minSec - 1, maxSec + 1}[op-1]))
		case protoreflect.Int32Kind:
			s.set(protoreflect.ValueOfInt32([]int32{math.MinInt32, math.MaxInt32, -1, 1_000_000_000, 999_999_999}[op-1]))
		}
	}
}
