package c12

// C12, last clause: "a block fetched by hash is the block that hash names". A fetched block is checked against the
// requested hash and nothing else, so the hash must determine everything a replica later reads from the block - its
// commands, its parent, view, proposer, and its certificate: whether it carries a signature at all, of which scheme, by
// whom, with which bytes. Generated: a block (certificate = the unsigned genesis certificate, or a certificate signed by
// 1..n replicas under any scheme) and a VARIANT of it made by one structural transformation that a peer answering a
// fetch can apply; oracle: a variant that differs from the original in any of those respects has another hash.

import (
	"bytes"
	"fmt"
	"testing"

	"github.com/relab/hotstuff"
	"github.com/relab/hotstuff/internal/proto/clientpb"
	"github.com/relab/hotstuff/internal/proto/hotstuffpb"
	"github.com/relab/hotstuff/security/crypto"
	"github.com/relab/hotstuff/verifx/common"
	"github.com/relab/hotstuff/verifx/kit"
	"pgregory.net/rapid"
)

type hashCase struct {
	Scheme  string
	N       int
	Signers []int // empty: the certificate is the unsigned genesis certificate
	NCmds   int
	Variant string // empty-ecdsa | empty-eddsa | empty-bls | retype | resplit | drop-entry | dup-entry | wire
	Arg     int
}

func sigDescr(s hotstuff.QuorumSignature) string {
	if s == nil {
		return "none"
	}
	var ids []hotstuff.ID
	s.Participants().ForEach(func(id hotstuff.ID) { ids = append(ids, id) })
	d := fmt.Sprintf("%T signers=%v bytes=%x", s, ids, s.ToBytes())
	switch m := s.(type) {
	case crypto.Multi[*crypto.ECDSASignature]:
		for _, e := range m {
			d += fmt.Sprintf(" [%d:%x]", e.Signer(), e.ToBytes())
		}
	case crypto.Multi[*crypto.EDDSASignature]:
		for _, e := range m {
			d += fmt.Sprintf(" [%d:%x]", e.Signer(), e.ToBytes())
		}
	}
	return d
}

func hashProp(c hashCase) common.Result {
	ms := kit.NewCluster(c.Scheme, c.N)
	g := hotstuff.GetGenesis()
	batch := &clientpb.Batch{}
	for i := 0; i < c.NCmds; i++ {
		batch.Commands = append(batch.Commands, &clientpb.Command{ClientID: 3, SequenceNumber: uint64(i + 1), Data: []byte{byte(i)}})
	}
	qc := kit.GenesisQC()
	parent := g
	if len(c.Signers) > 0 {
		p := kit.NewBlock(g.Hash(), kit.GenesisQC(), &clientpb.Batch{}, 1, 1)
		var signers []*kit.Member
		for _, s := range c.Signers {
			signers = append(signers, ms[s-1])
		}
		sig, err := kit.CombineAny(c.Scheme, ms[0].Base, kit.SignEach(signers, p.ToBytes()))
		if err != nil {
			return common.Fail("harness", "combine: %v", err)
		}
		qc = hotstuff.NewQuorumCert(sig, p.View(), p.Hash())
		parent = p
	}
	orig := kit.NewBlock(parent.Hash(), qc, batch, parent.View()+1, 2)
	// the variant's signature
	var vs hotstuff.QuorumSignature
	osig := qc.Signature()
	switch c.Variant {
	case "empty-ecdsa":
		vs = crypto.Multi[*crypto.ECDSASignature]{}
	case "empty-eddsa":
		vs = crypto.Multi[*crypto.EDDSASignature]{}
	case "empty-bls":
		vs = kit.EmptySig("bls12")
	case "retype":
		switch m := osig.(type) {
		case crypto.Multi[*crypto.ECDSASignature]:
			var out crypto.Multi[*crypto.EDDSASignature]
			for _, e := range m {
				out = append(out, crypto.RestoreEDDSASignature(e.ToBytes(), e.Signer()))
			}
			vs = out
		case crypto.Multi[*crypto.EDDSASignature]:
			var out crypto.Multi[*crypto.ECDSASignature]
			for _, e := range m {
				out = append(out, crypto.RestoreECDSASignature(e.ToBytes(), e.Signer()))
			}
			vs = out
		default:
			return common.OK(false, "", "hash variant-not-applicable")
		}
	case "drop-entry", "dup-entry", "resplit":
		m, ok := osig.(crypto.Multi[*crypto.EDDSASignature])
		if !ok || len(m) < 2 {
			if m2, ok2 := osig.(crypto.Multi[*crypto.ECDSASignature]); ok2 && len(m2) >= 2 {
				// same transformations on the ECDSA list
				out := append(crypto.Multi[*crypto.ECDSASignature]{}, m2...)
				switch c.Variant {
				case "drop-entry":
					out = out[:len(out)-1]
				case "dup-entry":
					out = append(out, out[c.Arg%len(out)])
				case "resplit":
					a, b := out[0].ToBytes(), out[1].ToBytes()
					k := 1 + c.Arg%len(a)
					out[0] = crypto.RestoreECDSASignature(a[:len(a)-k], out[0].Signer())
					out[1] = crypto.RestoreECDSASignature(append(append([]byte{}, a[len(a)-k:]...), b...), out[1].Signer())
				}
				vs = out
				break
			}
			return common.OK(false, "", "hash variant-not-applicable")
		}
		out := append(crypto.Multi[*crypto.EDDSASignature]{}, m...)
		switch c.Variant {
		case "drop-entry":
			out = out[:len(out)-1]
		case "dup-entry":
			out = append(out, out[c.Arg%len(out)])
		case "resplit":
			a, b := out[0].ToBytes(), out[1].ToBytes()
			k := 1 + c.Arg%len(a)
			out[0] = crypto.RestoreEDDSASignature(a[:len(a)-k], out[0].Signer())
			out[1] = crypto.RestoreEDDSASignature(append(append([]byte{}, a[len(a)-k:]...), b...), out[1].Signer())
		}
		vs = out
	case "wire":
		vs = osig // only the wire round trip below
	}
	variant := kit.NewBlock(orig.Parent(), hotstuff.NewQuorumCert(vs, qc.View(), qc.BlockHash()), batch, orig.View(), orig.Proposer())
	variant.SetTimestamp(orig.Timestamp())
	// what a fetching replica gets is the variant after the wire
	pb := hotstuffpb.BlockToProto(variant)
	got := hotstuffpb.BlockFromProto(pb)
	same := sigDescr(got.QuorumCert().Signature()) == sigDescr(osig)
	desc := fmt.Sprintf("%s n=%d signers=%v commands=%d variant=%s(%d)\noriginal certificate signature: %s\nfetched  certificate signature: %s", c.Scheme, c.N, c.Signers, c.NCmds, c.Variant, c.Arg, sigDescr(osig), sigDescr(got.QuorumCert().Signature()))
	if got.Hash() == orig.Hash() && !same {
		return common.Fail("hash-names-two-blocks:"+c.Variant, "a block whose certificate differs from the original's has the original's hash %s: a peer can answer a fetch for that hash with it\n%s", orig.Hash().SmallString(), desc)
	}
	if same && got.Hash() != orig.Hash() {
		return common.Fail("hash-changes-on-the-wire", "the same block has another hash after the wire\n%s", desc)
	}
	if same && !bytes.Equal(got.ToBytes(), orig.ToBytes()) {
		return common.Fail("hash-changes-on-the-wire", "the same block has other bytes after the wire\n%s", desc)
	}
	return common.OK(!same, "", "hash variant="+c.Variant, fmt.Sprintf("hash signed=%v", len(c.Signers) > 0))
}

func TestC12HashNamesOneBlock(t *testing.T) {
	common.Check(t, id, "TestC12HashNamesOneBlock", 1500, 60000, func(rt *rapid.T) hashCase {
		c := hashCase{Scheme: rapid.SampledFrom([]string{"ecdsa", "eddsa", "eddsa", "bls12"}).Draw(rt, "scheme"), N: rapid.SampledFrom([]int{4, 4, 7}).Draw(rt, "n")}
		if rapid.IntRange(0, 2).Draw(rt, "signed") > 0 {
			k := rapid.IntRange(1, c.N).Draw(rt, "k")
			c.Signers = rapid.Permutation(seqN(c.N)).Draw(rt, "signers")[:k]
			c.Variant = rapid.SampledFrom([]string{"retype", "resplit", "drop-entry", "dup-entry", "wire", "empty-ecdsa"}).Draw(rt, "variant")
		} else {
			c.Variant = rapid.SampledFrom([]string{"empty-ecdsa", "empty-eddsa", "empty-bls", "wire"}).Draw(rt, "variant")
		}
		c.NCmds = rapid.IntRange(0, 3).Draw(rt, "cmds")
		c.Arg = rapid.IntRange(0, 60).Draw(rt, "arg")
		return c
	}, hashProp)
}

func seqN(n int) []int {
	s := make([]int, n)
	for i := range s {
		s[i] = i + 1
	}
	return s
}
