package c20

import (
	"fmt"
	"sort"
	"testing"

	"github.com/relab/hotstuff"
	"github.com/relab/hotstuff/core"
	"github.com/relab/hotstuff/core/eventloop"
	"github.com/relab/hotstuff/internal/proto/clientpb"
	"github.com/relab/hotstuff/internal/testutil"
	"github.com/relab/hotstuff/security/blockchain"
	"github.com/relab/hotstuff/security/cert"
	"github.com/relab/hotstuff/security/crypto"
	"github.com/relab/hotstuff/verifx/common"
	"github.com/relab/hotstuff/verifx/kit"
	"pgregory.net/rapid"
)

const id = "C20"

// refF is the largest f with 3f < n, computed by search (not by the formula under test).
func refF(n int) int {
	f := 0
	for 3*(f+1) < n {
		f++
	}
	return f
}

type rangeCase struct {
	From, To int // inclusive range of cluster sizes
}

// TestC20Arithmetic checks the two inequalities and minimality for every n in 1..1,000,000.
func TestC20Arithmetic(t *testing.T) {
	const max = 1_000_000
	const block = 10_000
	e := common.Get(id)
	common.Exhaustive(t, id, "TestC20Arithmetic", func(yield func(rangeCase) bool) {
		for from := 1; from <= max; from += block {
			if !yield(rangeCase{from, from + block - 1}) {
				return
			}
		}
	}, func(c rangeCase) common.Result {
		f := refF(c.From)
		for n := c.From; n <= c.To; n++ {
			for 3*(f+1) < n { // incremental form of refF
				f++
			}
			if got := hotstuff.NumFaulty(n); got != f {
				return common.Fail("numfaulty", "NumFaulty(%d) = %d, want %d (largest f with 3f < n)", n, got, f)
			}
			q := hotstuff.QuorumSize(n)
			if 2*q-n < f+1 {
				return common.Fail("intersection", "n=%d f=%d q=%d: 2q-n = %d < f+1: two quorums need not share an honest replica", n, f, q, 2*q-n)
			}
			if q > n-f {
				return common.Fail("availability", "n=%d f=%d q=%d: q > n-f: the honest replicas alone cannot form a quorum", n, f, q)
			}
			if 2*(q-1)-n >= f+1 {
				return common.Fail("minimality", "n=%d f=%d q=%d: q-1 already satisfies the intersection inequality", n, f, q)
			}
		}
		e.Bulk("TestC20Arithmetic", int64(c.To-c.From+1)-1, "n")
		return common.OK(true, fmt.Sprintf("%d-%d", c.From, c.To))
	})
}

type cfgCase struct{ N int }

// TestC20ConfigThreshold: the runtime configuration's quorum size is QuorumSize(number of configured replicas).
func TestC20ConfigThreshold(t *testing.T) {
	common.Exhaustive(t, id, "TestC20ConfigThreshold", func(yield func(cfgCase) bool) {
		for n := 1; n <= 200; n++ {
			if !yield(cfgCase{n}) {
				return
			}
		}
	}, func(c cfgCase) common.Result {
		cfg := core.NewRuntimeConfig(1, nil)
		for i := 1; i <= c.N; i++ {
			cfg.AddReplica(&hotstuff.ReplicaInfo{ID: hotstuff.ID(i)})
			// adding the same replica again must not change the membership size
			cfg.AddReplica(&hotstuff.ReplicaInfo{ID: hotstuff.ID(i)})
			// the threshold follows the membership as it grows (it is consulted while replicas are still being added)
			if got, want := cfg.QuorumSize(), hotstuff.QuorumSize(i); got != want {
				return common.Fail("config-quorum-while-growing", "after adding %d of %d replicas RuntimeConfig.QuorumSize() = %d, QuorumSize(%d) = %d", i, c.N, got, i, want)
			}
		}
		if cfg.ReplicaCount() != c.N {
			return common.Fail("config-count", "ReplicaCount = %d after adding %d distinct replicas", cfg.ReplicaCount(), c.N)
		}
		if got, want := cfg.QuorumSize(), hotstuff.QuorumSize(c.N); got != want {
			return common.Fail("config-quorum", "RuntimeConfig.QuorumSize() = %d, QuorumSize(%d) = %d", got, c.N, want)
		}
		return common.OK(true, fmt.Sprint(c.N))
	})
}

type boundaryCase struct {
	Scheme string
	N      int
	Kind   string // qc | tc | aggqc
	K      int    // number of distinct valid signatures in the certificate
	Pad    int    // further signer labels without a signature behind them (BLS: bits in the participants field; ECDSA/EdDSA: entries without bytes); an aggregate certificate lists no message for them
	Rep    int    `json:",omitempty"` // ECDSA/EdDSA: further ENTRIES that repeat the genuine signatures of the K signers (the count of entries reaches the threshold, the count of replicas does not)
	Arr    int    `json:",omitempty"` // arrangement of the repeated entries: 0 appended in signer order (1 2 | 1 2 1), 1 each next to its original (1 1 1 2 2), 2 appended in reverse order (1 2 | 2 1 2)
}

// TestC20CertBoundary: q-1 distinct valid signatures are refused and q accepted by every certificate check.
func TestC20CertBoundary(t *testing.T) {
	maxN := 13
	schemes := kit.Schemes
	common.Exhaustive(t, id, "TestC20CertBoundary", func(yield func(boundaryCase) bool) {
		for _, s := range schemes {
			for n := 1; n <= maxN; n++ {
				if s == "bls12" && common.Tier() == "quick" && n > 7 {
					continue
				}
				q := hotstuff.QuorumSize(n)
				for _, kind := range []string{"qc", "tc", "aggqc"} {
					for _, k := range []int{q - 1, q, n} {
						if k == n && n == q {
							continue
						}
						if !yield(boundaryCase{Scheme: s, N: n, Kind: kind, K: k}) {
							return
						}
					}
					// the COUNT of signers reaches the threshold, the signatures do not: q-1 real ones padded with labels
					if q-1 >= 1 && q <= n {
						for _, pad := range []int{1, n - (q - 1)} {
							if !yield(boundaryCase{Scheme: s, N: n, Kind: kind, K: q - 1, Pad: pad}) {
								return
							}
						}
						if s != "bls12" {
							for _, rep := range []int{1, n - (q - 1)} {
								for arr := 0; arr < 3; arr++ {
									if !yield(boundaryCase{Scheme: s, N: n, Kind: kind, K: q - 1, Rep: rep, Arr: arr}) {
										return
									}
								}
							}
						}
					}
				}
			}
		}
	}, boundaryProp)
}

func boundaryProp(c boundaryCase) common.Result {
	ms := kit.NewCluster(c.Scheme, c.N)
	q := hotstuff.QuorumSize(c.N)
	verifier := ms[c.N-1]
	signers := ms[:c.K]
	var err error
	var quirk func() bool // is a rejection the known false negative of the pairing library?
	switch c.Kind {
	case "qc":
		b := kit.NewBlock(hotstuff.GetGenesis().Hash(), kit.GenesisQC(), &clientpb.Batch{}, 1, 1)
		kit.StoreAll(ms, b)
		sig, cerr := kit.CombineAny(c.Scheme, verifier.Base, kit.SignEach(signers, b.ToBytes()))
		if cerr != nil {
			return common.Fail("harness", "combine: %v", cerr)
		}
		qc := hotstuff.NewQuorumCert(padLabels(sig, ms, c), b.View(), b.Hash())
		err = verifier.Auth.VerifyQuorumCert(qc)
		quirk = func() bool { return kit.QuirkQC(verifier, qc, err) }
	case "tc":
		v := hotstuff.View(5)
		sig, cerr := kit.CombineAny(c.Scheme, verifier.Base, kit.SignEach(signers, v.ToBytes()))
		if cerr != nil {
			return common.Fail("harness", "combine: %v", cerr)
		}
		tc := hotstuff.NewTimeoutCert(padLabels(sig, ms, c), v)
		err = verifier.Auth.VerifyTimeoutCert(tc)
		quirk = func() bool { return kit.QuirkTC(verifier, tc, err) }
	case "aggqc":
		v := hotstuff.View(5)
		qcs := map[hotstuff.ID]hotstuff.QuorumCert{}
		var sigs []hotstuff.QuorumSignature
		for _, m := range signers {
			tm := hotstuff.TimeoutMsg{ID: m.ID, View: v, SyncInfo: hotstuff.NewSyncInfoWith(kit.GenesisQC())}
			s, serr := m.Base.Sign(tm.ToBytes())
			if serr != nil {
				return common.Fail("harness", "sign: %v", serr)
			}
			sigs = append(sigs, s)
			qcs[m.ID] = kit.GenesisQC()
		}
		sig, cerr := kit.CombineAny(c.Scheme, verifier.Base, sigs)
		if cerr != nil {
			return common.Fail("harness", "combine: %v", cerr)
		}
		agg := hotstuff.NewAggregateQC(qcs, padLabels(sig, ms, c), v)
		_, err = verifier.Auth.VerifyAggregateQC(agg)
		quirk = func() bool { return kit.QuirkAgg(verifier, agg, err) }
	}
	accepted := err == nil
	if !accepted && c.K >= q && c.Scheme == "bls12" && quirk != nil && quirk() {
		return common.Fail(kit.KnownBLS, "%s n=%d: %s with %d distinct valid signatures is rejected (%v) although the signature satisfies the verification equation in other arrangements", c.Scheme, c.N, c.Kind, c.K, err)
	}
	if accepted != (c.K >= q) {
		return common.Fail("threshold:"+c.Kind, "%s n=%d q=%d: %s with %d distinct valid signatures, %d labels without a signature and %d repeated entries (arrangement %d): accepted=%v (err=%v)", c.Scheme, c.N, q, c.Kind, c.K, c.Pad, c.Rep, c.Arr, accepted, err)
	}
	cls := []string{c.Kind, c.Scheme}
	if c.Pad > 0 {
		cls = append(cls, "padded-labels")
	}
	if c.Rep > 0 {
		cls = append(cls, fmt.Sprintf("repeated-entries arrangement=%d", c.Arr))
	}
	return common.OK(true, "", cls...)
}

// padLabels adds c.Pad signer labels of replicas that did not sign (the members after the first c.K) to a signature.
func padLabels(sig hotstuff.QuorumSignature, ms []*kit.Member, c boundaryCase) hotstuff.QuorumSignature {
	if c.Rep > 0 {
		switch m := sig.(type) {
		case crypto.Multi[*crypto.ECDSASignature]:
			return crypto.Multi[*crypto.ECDSASignature](repeatEntries([]*crypto.ECDSASignature(m), c.Rep, c.Arr))
		case crypto.Multi[*crypto.EDDSASignature]:
			return crypto.Multi[*crypto.EDDSASignature](repeatEntries([]*crypto.EDDSASignature(m), c.Rep, c.Arr))
		}
		return sig
	}
	if c.Pad == 0 {
		return sig
	}
	var extra []hotstuff.ID
	for i := c.K; i < len(ms) && len(extra) < c.Pad; i++ {
		extra = append(extra, ms[i].ID)
	}
	switch m := sig.(type) {
	case crypto.Multi[*crypto.ECDSASignature]:
		out := append(crypto.Multi[*crypto.ECDSASignature]{}, m...)
		for _, id := range extra {
			out = append(out, crypto.RestoreECDSASignature(nil, id))
		}
		return out
	case crypto.Multi[*crypto.EDDSASignature]:
		out := append(crypto.Multi[*crypto.EDDSASignature]{}, m...)
		for _, id := range extra {
			out = append(out, crypto.RestoreEDDSASignature(nil, id))
		}
		return out
	case *crypto.BLS12AggregateSignature:
		var bf crypto.Bitfield
		m.Participants().ForEach(func(id hotstuff.ID) { bf.Add(id) })
		for _, id := range extra {
			bf.Add(id)
		}
		r, err := crypto.RestoreBLS12AggregateSignature(m.ToBytes(), bf)
		if err != nil {
			panic(err)
		}
		return r
	}
	return sig
}


// repeatEntries adds rep entries that repeat the given ones (round robin), arranged as boundaryCase.Arr says.
func repeatEntries[T any](orig []T, rep, arr int) []T {
	if len(orig) == 0 {
		return orig
	}
	switch arr {
	case 1:
		var out []T
		for i, e := range orig {
			out = append(out, e)
			for k := i; k < rep; k += len(orig) {
				out = append(out, e)
			}
		}
		return out
	case 2:
		out := append([]T(nil), orig...)
		for k := 0; k < rep; k++ {
			out = append(out, orig[len(orig)-1-k%len(orig)])
		}
		return out
	}
	out := append([]T(nil), orig...)
	for k := 0; k < rep; k++ {
		out = append(out, orig[k%len(orig)])
	}
	return out
}

// ---- membership histories: the threshold in use is always the one of the membership configured so far -------------------

type cfgOp struct {
	K  string // add | query | count | certcheck
	ID int
}

type cfgHistory struct {
	Scheme string
	Ops    []cfgOp
}

// TestC20ConfigHistory: arbitrary interleavings of AddReplica (new and already known ids) with threshold queries, directly
// and through a certificate check of an Authority built on the same configuration.
func TestC20ConfigHistory(t *testing.T) {
	common.Check(t, id, "TestC20ConfigHistory", 3000, 60000, func(rt *rapid.T) cfgHistory {
		h := cfgHistory{Scheme: rapid.SampledFrom([]string{"ecdsa", "eddsa"}).Draw(rt, "scheme")}
		n := rapid.IntRange(1, 30).Draw(rt, "nops")
		for i := 0; i < n; i++ {
			h.Ops = append(h.Ops, cfgOp{K: rapid.SampledFrom([]string{"add", "add", "add", "query", "count", "certcheck"}).Draw(rt, "k"), ID: rapid.IntRange(1, 13).Draw(rt, "id")})
		}
		return h
	}, func(h cfgHistory) common.Result {
		ms := kit.NewCluster(h.Scheme, 13) // keys and public keys of 13 potential members
		cfg := core.NewRuntimeConfig(1, ms[0].Cfg.PrivateKey())
		el := eventloop.New(kit.Logger("c20"), 16)
		bc := blockchain.New(el, kit.Logger("c20"), testutil.NewMockSender(1))
		auth := cert.NewAuthority(cfg, bc, func() crypto.Base {
			if h.Scheme == "eddsa" {
				return crypto.NewEDDSA(cfg)
			}
			return crypto.NewECDSA(cfg)
		}())
		members := map[int]bool{}
		queriedEarly := false
		for i, op := range h.Ops {
			n := len(members)
			where := fmt.Sprintf("%s step %d %+v, members so far %d\nhistory %+v", h.Scheme, i, op, n, h.Ops[:i+1])
			switch op.K {
			case "add":
				info, _ := ms[0].Cfg.ReplicaInfo(hotstuff.ID(op.ID))
				cfg.AddReplica(info)
				members[op.ID] = true
			case "count":
				if cfg.ReplicaCount() != n {
					return common.Fail("history-count", "ReplicaCount = %d, distinct replicas added = %d\n%s", cfg.ReplicaCount(), n, where)
				}
			case "query":
				if got, want := cfg.QuorumSize(), hotstuff.QuorumSize(n); got != want {
					return common.Fail("history-quorum", "QuorumSize() = %d, want QuorumSize(%d) = %d\n%s", got, n, want, where)
				}
				queriedEarly = true
			case "certcheck":
				// a timeout certificate signed by the first k members (k = q-1 and k = q): refused / accepted
				if n == 0 {
					continue
				}
				var ids []int
				for m := range members {
					ids = append(ids, m)
				}
				sort.Ints(ids)
				q := hotstuff.QuorumSize(n)
				v := hotstuff.View(7)
				for _, k := range []int{q - 1, q} {
					if k < 1 || k > n {
						continue
					}
					var signers []*kit.Member
					for _, m := range ids[:k] {
						signers = append(signers, ms[m-1])
					}
					sig, err := kit.CombineAny(h.Scheme, ms[0].Base, kit.SignEach(signers, v.ToBytes()))
					if err != nil {
						return common.Fail("harness", "combine: %v", err)
					}
					err = auth.VerifyTimeoutCert(hotstuff.NewTimeoutCert(sig, v))
					if (err == nil) != (k >= q) {
						return common.Fail("history-threshold", "membership %d (quorum %d): timeout certificate with %d distinct valid signatures accepted=%v (%v)\n%s", n, q, k, err == nil, err, where)
					}
				}
				queriedEarly = true
			}
		}
		cls := []string{h.Scheme}
		if queriedEarly {
			cls = append(cls, "threshold consulted while the membership was still changing")
		}
		return common.OK(queriedEarly && len(members) >= 2, "", cls...)
	})
}
