package c20

import (
	"fmt"
	"testing"

	"github.com/relab/hotstuff"
	"github.com/relab/hotstuff/core"
	"github.com/relab/hotstuff/internal/proto/clientpb"
	"github.com/relab/hotstuff/verifx/common"
	"github.com/relab/hotstuff/verifx/kit"
)

const id = "C20"

// refF is the largest f with 3f < n, computed by search (not by the formula under test).
func refF(n int) int {
	f := 0
	for 3*(f+1) < n {
		f++
	}
	return f
}

type rangeCase struct {
	From, To int // inclusive range of cluster sizes
}

// TestC20Arithmetic checks the two inequalities and minimality for every n in 1..1,000,000.
func TestC20Arithmetic(t *testing.T) {
	const max = 1_000_000
	const block = 10_000
	e := common.Get(id)
	common.Exhaustive(t, id, "TestC20Arithmetic", func(yield func(rangeCase) bool) {
		for from := 1; from <= max; from += block {
			if !yield(rangeCase{from, from + block - 1}) {
				return
			}
		}
	}, func(c rangeCase) common.Result {
		f := refF(c.From)
		for n := c.From; n <= c.To; n++ {
			for 3*(f+1) < n { // incremental form of refF
				f++
			}
			if got := hotstuff.NumFaulty(n); got != f {
				return common.Fail("numfaulty", "NumFaulty(%d) = %d, want %d (largest f with 3f < n)", n, got, f)
			}
			q := hotstuff.QuorumSize(n)
			if 2*q-n < f+1 {
				return common.Fail("intersection", "n=%d f=%d q=%d: 2q-n = %d < f+1: two quorums need not share an honest replica", n, f, q, 2*q-n)
			}
			if q > n-f {
				return common.Fail("availability", "n=%d f=%d q=%d: q > n-f: the honest replicas alone cannot form a quorum", n, f, q)
			}
			if 2*(q-1)-n >= f+1 {
				return common.Fail("minimality", "n=%d f=%d q=%d: q-1 already satisfies the intersection inequality", n, f, q)
			}
		}
		e.Bulk("TestC20Arithmetic", int64(c.To-c.From+1)-1, "n")
		return common.OK(true, fmt.Sprintf("%d-%d", c.From, c.To))
	})
}

type cfgCase struct{ N int }

// TestC20ConfigThreshold: the runtime configuration's quorum size is QuorumSize(number of configured replicas).
func TestC20ConfigThreshold(t *testing.T) {
	common.Exhaustive(t, id, "TestC20ConfigThreshold", func(yield func(cfgCase) bool) {
		for n := 1; n <= 200; n++ {
			if !yield(cfgCase{n}) {
				return
			}
		}
	}, func(c cfgCase) common.Result {
		cfg := core.NewRuntimeConfig(1, nil)
		for i := 1; i <= c.N; i++ {
			cfg.AddReplica(&hotstuff.ReplicaInfo{ID: hotstuff.ID(i)})
			// adding the same replica again must not change the membership size
			cfg.AddReplica(&hotstuff.ReplicaInfo{ID: hotstuff.ID(i)})
		}
		if cfg.ReplicaCount() != c.N {
			return common.Fail("config-count", "ReplicaCount = %d after adding %d distinct replicas", cfg.ReplicaCount(), c.N)
		}
		if got, want := cfg.QuorumSize(), hotstuff.QuorumSize(c.N); got != want {
			return common.Fail("config-quorum", "RuntimeConfig.QuorumSize() = %d, QuorumSize(%d) = %d", got, c.N, want)
		}
		return common.OK(true, fmt.Sprint(c.N))
	})
}

type boundaryCase struct {
	Scheme string
	N      int
	Kind   string // qc | tc | aggqc
	K      int    // number of distinct valid signatures in the certificate
}

// TestC20CertBoundary: q-1 distinct valid signatures are refused and q accepted by every certificate check.
func TestC20CertBoundary(t *testing.T) {
	maxN := 13
	schemes := kit.Schemes
	common.Exhaustive(t, id, "TestC20CertBoundary", func(yield func(boundaryCase) bool) {
		for _, s := range schemes {
			for n := 1; n <= maxN; n++ {
				if s == "bls12" && common.Tier() == "quick" && n > 7 {
					continue
				}
				q := hotstuff.QuorumSize(n)
				for _, kind := range []string{"qc", "tc", "aggqc"} {
					for _, k := range []int{q - 1, q, n} {
						if k == n && n == q {
							continue
						}
						if !yield(boundaryCase{s, n, kind, k}) {
							return
						}
					}
				}
			}
		}
	}, boundaryProp)
}

func boundaryProp(c boundaryCase) common.Result {
	ms := kit.NewCluster(c.Scheme, c.N)
	q := hotstuff.QuorumSize(c.N)
	verifier := ms[c.N-1]
	signers := ms[:c.K]
	var err error
	switch c.Kind {
	case "qc":
		b := hotstuff.NewBlock(hotstuff.GetGenesis().Hash(), kit.GenesisQC(), &clientpb.Batch{}, 1, 1)
		kit.StoreAll(ms, b)
		sig, cerr := kit.CombineAny(c.Scheme, verifier.Base, kit.SignEach(signers, b.ToBytes()))
		if cerr != nil {
			return common.Fail("harness", "combine: %v", cerr)
		}
		err = verifier.Auth.VerifyQuorumCert(hotstuff.NewQuorumCert(sig, b.View(), b.Hash()))
	case "tc":
		v := hotstuff.View(5)
		sig, cerr := kit.CombineAny(c.Scheme, verifier.Base, kit.SignEach(signers, v.ToBytes()))
		if cerr != nil {
			return common.Fail("harness", "combine: %v", cerr)
		}
		err = verifier.Auth.VerifyTimeoutCert(hotstuff.NewTimeoutCert(sig, v))
	case "aggqc":
		v := hotstuff.View(5)
		qcs := map[hotstuff.ID]hotstuff.QuorumCert{}
		var sigs []hotstuff.QuorumSignature
		for _, m := range signers {
			tm := hotstuff.TimeoutMsg{ID: m.ID, View: v, SyncInfo: hotstuff.NewSyncInfoWith(kit.GenesisQC())}
			s, serr := m.Base.Sign(tm.ToBytes())
			if serr != nil {
				return common.Fail("harness", "sign: %v", serr)
			}
			sigs = append(sigs, s)
			qcs[m.ID] = kit.GenesisQC()
		}
		sig, cerr := kit.CombineAny(c.Scheme, verifier.Base, sigs)
		if cerr != nil {
			return common.Fail("harness", "combine: %v", cerr)
		}
		_, err = verifier.Auth.VerifyAggregateQC(hotstuff.NewAggregateQC(qcs, sig, v))
	}
	accepted := err == nil
	if accepted != (c.K >= q) {
		return common.Fail("threshold:"+c.Kind, "%s n=%d q=%d: %s with %d distinct valid signatures: accepted=%v (err=%v)", c.Scheme, c.N, q, c.Kind, c.K, accepted, err)
	}
	return common.OK(true, "", c.Kind, c.Scheme)
}
