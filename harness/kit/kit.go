// Package kit builds the "security essentials" of n replicas (keys, runtime config, event loop, block store,
// certificate authority) from the public constructors, like internal/testutil.NewEssentialsSet, but without a
// testing.TB so that it can be used inside property functions, and with a key cache (key generation dominates).
package kit

import (
	"fmt"
	"io"
	"os"
	"sync"

	"github.com/relab/hotstuff"
	"github.com/relab/hotstuff/core"
	"github.com/relab/hotstuff/core/eventloop"
	"github.com/relab/hotstuff/core/logging"
	"github.com/relab/hotstuff/internal/testutil"
	"github.com/relab/hotstuff/security/blockchain"
	"github.com/relab/hotstuff/security/cert"
	"github.com/relab/hotstuff/security/crypto"
	"github.com/relab/hotstuff/security/crypto/keygen"
)

// Schemes lists the three signature schemes.
var Schemes = []string{crypto.NameECDSA, crypto.NameEDDSA, crypto.NameBLS12}

// Member is one replica's essentials.
type Member struct {
	ID     hotstuff.ID
	Cfg    *core.RuntimeConfig
	EL     *eventloop.EventLoop
	Log    logging.Logger
	Sender *testutil.MockSender
	BC     *blockchain.Blockchain
	Base   crypto.Base // the raw scheme (no cache)
	Auth   *cert.Authority
}

var (
	keyMu sync.Mutex
	keys  = map[string][]hotstuff.PrivateKey{}
)

func genKey(scheme string) hotstuff.PrivateKey {
	switch scheme {
	case crypto.NameECDSA:
		k, err := keygen.GenerateECDSAPrivateKey()
		if err != nil {
			panic(err)
		}
		return k
	case crypto.NameEDDSA:
		_, k, err := keygen.GenerateED25519Key()
		if err != nil {
			panic(err)
		}
		return k
	case crypto.NameBLS12:
		k, err := crypto.GenerateBLS12PrivateKey()
		if err != nil {
			panic(err)
		}
		return k
	}
	panic("unknown scheme " + scheme)
}

// Keys returns n cached private keys for the scheme (key i belongs to replica i+1).
func Keys(scheme string, n int) []hotstuff.PrivateKey {
	keyMu.Lock()
	defer keyMu.Unlock()
	ks := keys[scheme]
	for len(ks) < n {
		ks = append(ks, genKey(scheme))
	}
	keys[scheme] = ks
	return ks[:n]
}

// Capture, when set, receives the debug log of every logger created afterwards (diagnosis of a failing case: the property
// function re-runs the case once with Capture set and appends the log to its report).
var Capture io.Writer

// Logger returns a silent logger.
func Logger(tag string) logging.Logger {
	if Capture != nil {
		logging.SetLogLevel("debug")
		l := logging.NewWithDest(Capture, tag)
		logging.SetLogLevel("info")
		return l
	}
	if os.Getenv("VERIF_LOG") != "" {
		logging.SetLogLevel(os.Getenv("VERIF_LOG"))
		return logging.NewWithDest(os.Stderr, tag)
	}
	return logging.NewWithDest(io.Discard, tag)
}

// NewCluster builds n members that know each other's public keys (and BLS proofs of possession) and can
// fetch blocks from each other's stores through their mock senders.
func NewCluster(scheme string, n int, opts ...core.RuntimeOption) []*Member {
	ks := Keys(scheme, n)
	ms := make([]*Member, n)
	infos := make([]hotstuff.ReplicaInfo, n)
	for i := 0; i < n; i++ {
		id := hotstuff.ID(i + 1)
		all := append([]core.RuntimeOption{core.WithSyncVerification()}, opts...)
		m := &Member{ID: id}
		m.Cfg = core.NewRuntimeConfig(id, ks[i], all...)
		m.Log = Logger(fmt.Sprintf("k%d", id))
		m.EL = eventloop.New(m.Log, 1<<12)
		m.Sender = testutil.NewMockSender(id)
		base, err := crypto.New(m.Cfg, scheme)
		if err != nil {
			panic(err)
		}
		m.Base = base
		m.BC = blockchain.New(m.EL, m.Log, m.Sender)
		m.Auth = cert.NewAuthority(m.Cfg, m.BC, base)
		infos[i] = hotstuff.ReplicaInfo{ID: id, PubKey: ks[i].Public(), Metadata: m.Cfg.ConnectionMetadata()}
		ms[i] = m
	}
	for _, m := range ms {
		for i := range infos {
			info := infos[i]
			m.Cfg.AddReplica(&info)
		}
		for _, o := range ms {
			if o != m {
				m.Sender.AddBlockchain(o.BC)
			}
		}
		if n == 1 {
			m.Sender.AddBlockchain(m.BC)
		}
	}
	return ms
}

// StoreAll stores a block at every member.
func StoreAll(ms []*Member, b *hotstuff.Block) {
	for _, m := range ms {
		m.BC.Store(b)
	}
}

// EmptySig returns a signature object of the scheme that has no participants.
func EmptySig(scheme string) hotstuff.QuorumSignature {
	switch scheme {
	case crypto.NameECDSA:
		return crypto.NewMulti[*crypto.ECDSASignature]()
	case crypto.NameEDDSA:
		return crypto.NewMulti[*crypto.EDDSASignature]()
	case crypto.NameBLS12:
		id := make([]byte, 96)
		id[0] = 0xc0 // compressed point at infinity
		s, err := crypto.RestoreBLS12AggregateSignature(id, crypto.Bitfield{})
		if err != nil {
			panic(err)
		}
		return s
	}
	panic("unknown scheme " + scheme)
}

// CombineAny combines 0, 1 or more signatures (Combine itself demands at least two).
func CombineAny(scheme string, base crypto.Base, sigs []hotstuff.QuorumSignature) (hotstuff.QuorumSignature, error) {
	switch len(sigs) {
	case 0:
		return EmptySig(scheme), nil
	case 1:
		return sigs[0], nil
	}
	return base.Combine(sigs...)
}

// SignEach lets each of the given members sign msg.
func SignEach(ms []*Member, msg []byte) []hotstuff.QuorumSignature {
	out := make([]hotstuff.QuorumSignature, 0, len(ms))
	for _, m := range ms {
		s, err := m.Base.Sign(msg)
		if err != nil {
			panic(err)
		}
		out = append(out, s)
	}
	return out
}

// GenesisQC is the certificate every replica starts with.
func GenesisQC() hotstuff.QuorumCert {
	return hotstuff.NewQuorumCert(nil, 0, hotstuff.GetGenesis().Hash())
}

// NewForeignMember returns a stand-alone replica with a fresh key that is configured in no cluster: whatever it
// signs is "garbage" to everybody else, but well-formed for the scheme.
func NewForeignMember(scheme string) *Member {
	m := &Member{ID: 1}
	m.Cfg = core.NewRuntimeConfig(1, genKey(scheme), core.WithSyncVerification())
	m.Log = Logger("foreign")
	m.EL = eventloop.New(m.Log, 16)
	m.Sender = testutil.NewMockSender(1)
	base, err := crypto.New(m.Cfg, scheme)
	if err != nil {
		panic(err)
	}
	m.Base = base
	m.BC = blockchain.New(m.EL, m.Log, m.Sender)
	m.Sender.AddBlockchain(m.BC)
	m.Auth = cert.NewAuthority(m.Cfg, m.BC, base)
	m.Cfg.AddReplica(&hotstuff.ReplicaInfo{ID: 1, PubKey: m.Cfg.PrivateKey().Public(), Metadata: m.Cfg.ConnectionMetadata()})
	return m
}

// RawSig returns the raw bytes of a single-signer signature as the scheme produced them (Multi.ToBytes of the
// repository frames each contained signature; this returns the contained signature itself).
func RawSig(s hotstuff.QuorumSignature) []byte {
	switch m := s.(type) {
	case crypto.Multi[*crypto.ECDSASignature]:
		if len(m) == 1 {
			return m[0].ToBytes()
		}
	case crypto.Multi[*crypto.EDDSASignature]:
		if len(m) == 1 {
			return m[0].ToBytes()
		}
	}
	return s.ToBytes()
}
