package kit

import (
	"strings"
	"sync"
	"github.com/relab/hotstuff"
	"github.com/relab/hotstuff/core"
	"github.com/relab/hotstuff/security/crypto"

	bls12 "github.com/kilic/bls12-381"
)

// Known finding "bls-pairing-false-negative": the pinned pairing library (github.com/kilic/bls12-381
// v0.1.1-0.20210208205449-6045b0235e36) returns a wrong pairing product for roughly one input in 10^5, whatever way the
// verification equation is arranged (which inputs fail depends on the arrangement). A mathematically valid BLS signature is
// then rejected by crypto.bls12Base.Verify / BatchVerify. The functions below decide, independently of the repository's
// verification code, whether a signature is valid by evaluating the equation e(G1, sig) = prod e(pk_i, H(m_i)) in three OTHER
// arrangements; a rejection by the repository of a signature that these accept is attributed to that finding.

var blsDomain = []byte("BLS_SIG_BLS12381G2_XMD:SHA-256_SSWU_RO_POP_")

// BLSValidElsewhere reports whether sig is a BLS signature (isBLS) and whether it satisfies the verification equation for the
// per-signer messages msgOf(id) under the public keys of cfg in at least one of three arrangements other than the repository's.
func BLSValidElsewhere(cfg *core.RuntimeConfig, sig hotstuff.QuorumSignature, msgOf func(hotstuff.ID) []byte) (isBLS, valid bool) {
	agg, ok := sig.(*crypto.BLS12AggregateSignature)
	if !ok || agg == nil {
		return false, false
	}
	isBLS = true
	g1, g2 := bls12.NewG1(), bls12.NewG2()
	s, err := g2.FromCompressed(agg.ToBytes())
	if err != nil || agg.Participants().Len() == 0 {
		return
	}
	var pks []*bls12.PointG1
	var hs []*bls12.PointG2
	bad := false
	agg.Participants().ForEach(func(id hotstuff.ID) {
		info, ok := cfg.ReplicaInfo(id)
		if !ok {
			bad = true
			return
		}
		pub, ok := info.PubKey.(*crypto.BLS12PublicKey)
		if !ok {
			bad = true
			return
		}
		pk, err := g1.FromCompressed(pub.ToBytes())
		if err != nil {
			bad = true
			return
		}
		h, err := g2.HashToCurve(msgOf(id), blsDomain)
		if err != nil {
			bad = true
			return
		}
		pks, hs = append(pks, pk), append(hs, h)
	})
	if bad {
		return
	}
	cp1 := func(p *bls12.PointG1) *bls12.PointG1 { return new(bls12.PointG1).Set(p) }
	cp2 := func(p *bls12.PointG2) *bls12.PointG2 { return new(bls12.PointG2).Set(p) }
	// arrangement 1: keys first, then the inverted generator pair
	e := bls12.NewEngine()
	for i := range pks {
		e.AddPair(cp1(pks[i]), cp2(hs[i]))
	}
	e.AddPairInv(cp1(&bls12.G1One), cp2(s))
	a1 := e.Result().IsOne()
	// arrangement 2: generator pair plain, key pairs inverted
	e = bls12.NewEngine()
	e.AddPair(cp1(&bls12.G1One), cp2(s))
	for i := range pks {
		e.AddPairInv(cp1(pks[i]), cp2(hs[i]))
	}
	a2 := e.Result().IsOne()
	// arrangement 3: the two sides separately
	l := bls12.NewEngine()
	l.AddPair(cp1(&bls12.G1One), cp2(s))
	r := bls12.NewEngine()
	for i := range pks {
		r.AddPair(cp1(pks[i]), cp2(hs[i]))
	}
	a3 := l.Result().Equal(r.Result())
	return true, a1 || a2 || a3
}

// quirkBudget bounds how many rejections one process may attribute to the finding. The library fails for about one input in
// 10^5; a change to the repository's BLS code that rejects valid signatures wholesale would otherwise hide behind the finding.
var (
	quirkMu     sync.Mutex
	quirkHits   int
	quirkBudget = 40
)

func withinQuirkBudget() bool {
	quirkMu.Lock()
	defer quirkMu.Unlock()
	quirkHits++
	return quirkHits <= quirkBudget
}

// BLSFalseNegative: the repository rejected (err != nil) a signature that the other arrangements accept. err is the rejection
// that was OBSERVED (batch verification adds its pairs in map order, so a second call may well accept the same input).
func BLSFalseNegative(cfg *core.RuntimeConfig, sig hotstuff.QuorumSignature, msgOf func(hotstuff.ID) []byte, err error) bool {
	if err == nil || !strings.Contains(err.Error(), "bls12: failed to verify") {
		return false
	}
	isBLS, valid := BLSValidElsewhere(cfg, sig, msgOf)
	return isBLS && valid && withinQuirkBudget()
}

// KnownBLS is the fingerprint of the finding in known_findings.json.
const KnownBLS = "bls-pairing-false-negative"

// QuirkSig: base (a replica's own scheme instance) rejects sig over msg although the other arrangements accept it.
func QuirkSig(cfg *core.RuntimeConfig, base crypto.Base, sig hotstuff.QuorumSignature, msg []byte) bool {
	if sig == nil {
		return false
	}
	if _, ok := sig.(*crypto.BLS12AggregateSignature); !ok {
		return false
	}
	return BLSFalseNegative(cfg, sig, func(hotstuff.ID) []byte { return msg }, base.Verify(sig, msg))
}

func blsErr(err error) bool { return err != nil && strings.Contains(err.Error(), "bls12: failed to verify") }

// QuirkQC / QuirkTC / QuirkAgg decide whether an OBSERVED rejection err of a certificate by member m is the known false
// negative: the error is the pairing check's, and the certificate's signature (for an aggregate certificate also the signatures
// of the attested certificates) satisfies the verification equation in the other arrangements. With err == nil they verify the
// signature themselves first (single-message verification is deterministic; batch verification is not, see BLSFalseNegative).
func QuirkQC(m *Member, qc hotstuff.QuorumCert, err ...error) bool {
	if qc.Signature() == nil {
		return false
	}
	blk, ok := m.BC.LocalGet(qc.BlockHash())
	if !ok {
		return false
	}
	if len(err) > 0 {
		return BLSFalseNegative(m.Cfg, qc.Signature(), func(hotstuff.ID) []byte { return blk.ToBytes() }, err[0])
	}
	return QuirkSig(m.Cfg, m.Base, qc.Signature(), blk.ToBytes())
}

func QuirkTC(m *Member, tc hotstuff.TimeoutCert, err ...error) bool {
	if tc.Signature() == nil {
		return false
	}
	if len(err) > 0 {
		msg := tc.View().ToBytes()
		return BLSFalseNegative(m.Cfg, tc.Signature(), func(hotstuff.ID) []byte { return msg }, err[0])
	}
	return QuirkSig(m.Cfg, m.Base, tc.Signature(), tc.View().ToBytes())
}

func QuirkAgg(m *Member, agg hotstuff.AggregateQC, err ...error) bool {
	if agg.Sig() == nil {
		return false
	}
	if _, ok := agg.Sig().(*crypto.BLS12AggregateSignature); !ok {
		return false
	}
	batch := map[hotstuff.ID][]byte{}
	for id, qc := range agg.QCs() {
		batch[id] = hotstuff.TimeoutMsg{ID: id, View: agg.View(), SyncInfo: hotstuff.NewSyncInfoWith(qc)}.ToBytes()
	}
	if len(err) > 0 {
		// the observed rejection may stem from the aggregate signature or from one of the attested certificates: the finding
		// explains it only if ALL of them are valid elsewhere
		if !blsErr(err[0]) {
			return false
		}
		if _, valid := BLSValidElsewhere(m.Cfg, agg.Sig(), func(id hotstuff.ID) []byte { return batch[id] }); !valid {
			return false
		}
		for _, qc := range agg.QCs() {
			if qc.Signature() == nil {
				continue
			}
			blk, ok := m.BC.LocalGet(qc.BlockHash())
			if !ok {
				return false
			}
			if _, valid := BLSValidElsewhere(m.Cfg, qc.Signature(), func(hotstuff.ID) []byte { return blk.ToBytes() }); !valid {
				return false
			}
		}
		return withinQuirkBudget()
	}
	if BLSFalseNegative(m.Cfg, agg.Sig(), func(id hotstuff.ID) []byte { return batch[id] }, m.Base.BatchVerify(agg.Sig(), batch)) {
		return true
	}
	for _, qc := range agg.QCs() {
		if QuirkQC(m, qc) {
			return true
		}
	}
	return false
}
