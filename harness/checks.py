"""Table of checks: which harness sources are overlaid where, which test binaries are built and how they are run."""

KIT = {"verifx/kit": "harness/kit"}

def unit(name, pkg, run, shards=(1, 1), timeout=(600, 3000), race=False, tiers=("quick", "thorough"), **kw):
    u = dict(name=name, pkg=pkg, run=run, race=race, tiers=list(tiers),
             shards={"quick": shards[0], "thorough": shards[1]}, timeout={"quick": timeout[0], "thorough": timeout[1]})
    u.update(kw)
    return u

CHECKS = {}

NOT_APPLICABLE = {}   # property id -> reason, only where the technique genuinely cannot apply

import glob as _glob, os as _os
for _f in sorted(_glob.glob(_os.path.join(_os.path.dirname(_os.path.abspath(__file__)), "checks.d", "*.py"))):
    exec(compile(open(_f).read(), _f, "exec"))
