//go:build verif

package synchronizer

// VerifStopTimer stops the current view timer. The /verif simulator never lets timers fire (the view duration is many
// hours); it stops the armed timer at the end of a run and before it injects a local timeout, so that no timer keeps a
// finished cluster reachable. Injected through a build overlay; not part of the repository.
func (s *Synchronizer) VerifStopTimer() { s.stopTimeoutTimer() }

// VerifPendingTimeouts reports how many timeout messages the collector currently holds (read-only, for non-triviality rules).
func (s *Synchronizer) VerifPendingTimeouts() int { return len(s.timeouts.timeouts) }
