//go:build verif

package server

import "github.com/relab/hotstuff/internal/proto/hotstuffpb"

// VerifService returns the replica-to-replica service implementation so that the /verif harness can call the real RPC
// handlers directly (an in-package test cannot import the replica wiring: import cycle). Build-overlay only.
func (srv *Server) VerifService() hotstuffpb.ConsensusServer { return &serviceImpl{srv} }
