//go:build verif

package rules

import "github.com/relab/hotstuff"

// VerifLock returns the locked block of a ruleset that has one (read-only; /verif state snapshots). Build-overlay only.
func VerifLock(r any) *hotstuff.Block {
	switch hs := r.(type) {
	case *ChainedHotStuff:
		return hs.bLock
	case *SimpleHotStuff:
		return hs.locked
	}
	return nil
}
