//go:build verif

package consensus

import "github.com/relab/hotstuff"

// VerifLastVotedView reads the voter's vote history marker (read-only; /verif state snapshots). Build-overlay only.
func (v *Voter) VerifLastVotedView() hotstuff.View { return v.lastVotedView }
