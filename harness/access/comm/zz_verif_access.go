//go:build verif

package comm

import "github.com/relab/hotstuff"

// VerifWaitTimerExpired builds the (unexported-field) event that Kauri's wait timer posts, so that the /verif harness can
// inject the expiry at a generated point instead of sleeping. Injected through a build overlay; not part of the repository.
func VerifWaitTimerExpired(view hotstuff.View) WaitTimerExpiredEvent {
	return WaitTimerExpiredEvent{currentView: view}
}

// VerifState exposes the aggregation state of a tree node (read-only) to the /verif harness.
func (k *Kauri) VerifState() (agg hotstuff.QuorumSignature, senders []hotstuff.ID, aggSent bool, view hotstuff.View) {
	return k.aggContrib, append([]hotstuff.ID(nil), k.senders...), k.aggSent, k.currentView
}
