//go:build verif

package comm

import "github.com/relab/hotstuff"

// VerifWaitTimerExpired builds the (unexported-field) event that Kauri's wait timer posts, so that the /verif harness can
// inject the expiry at a generated point instead of sleeping. Injected through a build overlay; not part of the repository.
func VerifWaitTimerExpired(view hotstuff.View) WaitTimerExpiredEvent {
	return WaitTimerExpiredEvent{currentView: view}
}
