package sim

// C08 — timeouts form a certificate exactly when a quorum timed out in that view.
// A real replica stack (the subject, replica 1) receives a generated interleaving of timeout messages crafted with the
// other replicas' keys; a reference collector says whether and when a certificate must form.

import (
	"fmt"
	"sort"
	"testing"

	"github.com/relab/hotstuff"
	"github.com/relab/hotstuff/internal/proto/clientpb"
	"github.com/relab/hotstuff/verifx/kit"
	"github.com/relab/hotstuff/protocol/rules"
	"github.com/relab/hotstuff/verifx/common"
	"pgregory.net/rapid"
)

type tmsg struct {
	From int    // sender replica id (2..N); 1 = the subject's own timer fires (other fields ignored)
	DV   int    // view = subject's current view at delivery + DV (DV in -2..3), or a far-future view when DV == 99
	Kind string // honest | sig-other-view | sig-other-replica | garbage | multi-sig | no-msgsig | bad-msgsig
	SI   int    // SyncInfo carried: 0 none, 1 genesis QC, 2 genesis QC + view-0 TC, 3 an invalid (single-signature) TC for the stated view, 4 the sender's stale high TC, 5 / 6 a genuine QC for a block of view 1 / 2 (senders are at different heights: what they report differs from the receiver's own high QC)
	Dup  bool   // deliver the same message twice in a row
}

type c08Case struct {
	N      int
	Rules  string // chainedhotstuff (simple timeout rule) | fasthotstuff (aggregate rule)
	Crypto string
	Start  int // the subject is first brought to this view by honest timeouts
	Byz    []int
	Msgs   []tmsg
}

func (cl *Cluster) craftTimeout(from *Stack, view hotstuff.View, kind string, si int, aggregate bool) hotstuff.TimeoutMsg {
	other := cl.Stacks[(from.Idx+1)%len(cl.Stacks)]
	if other.Idx == 0 {
		other = cl.Stacks[(from.Idx+2)%len(cl.Stacks)]
	}
	sign := func(st *Stack, m []byte) hotstuff.QuorumSignature {
		s, err := st.base.Sign(m)
		if err != nil {
			panic(err)
		}
		return s
	}
	tm := hotstuff.TimeoutMsg{ID: from.ID, View: view}
	s := hotstuff.NewSyncInfo()
	switch si {
	case 1:
		s.SetQC(hotstuff.NewQuorumCert(nil, 0, hotstuff.GetGenesis().Hash()))
	case 2:
		s.SetQC(hotstuff.NewQuorumCert(nil, 0, hotstuff.GetGenesis().Hash()))
		s.SetTC(hotstuff.NewTimeoutCert(nil, 0))
	case 3:
		s.SetQC(hotstuff.NewQuorumCert(nil, 0, hotstuff.GetGenesis().Hash()))
		s.SetTC(hotstuff.NewTimeoutCert(sign(from, view.ToBytes()), view))
	case 4:
		s.SetQC(hotstuff.NewQuorumCert(nil, 0, hotstuff.GetGenesis().Hash()))
		s.SetTC(cl.Stacks[0].VS.HighTC()) // a real, by now stale, certificate
	case 5, 6:
		s.SetQC(cl.c08QCs[si-5])
	}
	tm.SyncInfo = s
	switch kind {
	case "sig-other-view":
		tm.ViewSignature = sign(from, (view + 1).ToBytes())
	case "sig-other-replica":
		tm.ViewSignature = sign(other, view.ToBytes())
	case "garbage":
		tm.ViewSignature = sign(from, []byte("not a view"))
	case "multi-sig":
		c, err := from.base.Combine(sign(from, view.ToBytes()), sign(other, view.ToBytes()))
		if err != nil {
			panic(err)
		}
		tm.ViewSignature = c
	default:
		tm.ViewSignature = sign(from, view.ToBytes())
	}
	if aggregate {
		switch kind {
		case "no-msgsig":
		case "bad-msgsig":
			tm.MsgSignature = sign(from, []byte("something else"))
		default:
			tm.MsgSignature = sign(from, tm.ToBytes())
		}
	}
	return tm
}

func c08Prop(c c08Case) (verdict common.Result) {
	cfg := Config{N: c.N, Rules: c.Rules, Crypto: c.Crypto, Batch: 1, Leaders: []int{2}} // the subject never leads
	cl, err := New(cfg)
	if err != nil {
		return common.Fail("harness", "cluster: %v", err)
	}
	defer cl.Close()
	defer func() { verdict = cl.Verdict("C08", verdict) }()
	sub := cl.Stacks[0]
	aggregate := c.Rules == rules.NameFastHotStuff
	q := cl.Quorum()
	// two certified blocks everybody holds: replicas are at different heights, so the certificates their timeouts report differ
	cl.c08QCs = nil
	parent, pqc := hotstuff.GetGenesis(), kit.GenesisQC()
	for v := hotstuff.View(1); v <= 2; v++ {
		b := kit.NewBlock(parent.Hash(), pqc, &clientpb.Batch{Commands: []*clientpb.Command{{ClientID: 8, SequenceNumber: uint64(v), Data: []byte("c08")}}}, v, 2)
		var sigs []hotstuff.QuorumSignature
		for _, st := range cl.Stacks {
			st.BC.Store(b)
			sigs = append(sigs, sigOf(st, b.ToBytes()))
		}
		cl.register(b)
		sig, err := sub.base.Combine(sigs...)
		if err != nil {
			return common.Fail("harness", "combine: %v", err)
		}
		pqc = hotstuff.NewQuorumCert(sig, v, b.Hash())
		cl.c08QCs = append(cl.c08QCs, pqc)
		parent = b
	}
	deliver := func(tm hotstuff.TimeoutMsg) {
		cl.StepNo++
		cl.Deliver(Msg{From: int(tm.ID) - 1, To: 0, Payload: tm})
	}
	// bring the subject to the start view with honest timeouts of q other replicas per view
	for v := hotstuff.View(1); v < hotstuff.View(c.Start); v++ {
		for i := 1; i <= q && i < len(cl.Stacks); i++ {
			deliver(cl.craftTimeout(cl.Stacks[i], v, "honest", 1, aggregate))
		}
		if sub.VS.View() != v+1 {
			return common.Fail("setup-quorum-did-not-advance", "%d honest timeouts for view %d did not move the replica out of view %d (it is in view %d)", q, v, v, sub.VS.View())
		}
	}
	correct := func(m tmsg) bool {
		if aggregate && (m.SI == 0) {
			return false // under the aggregate rule a timeout message must carry the sender's high QC to be part of an aggregate certificate
		}
		switch m.Kind {
		case "honest":
			return true
		case "no-msgsig", "bad-msgsig":
			return !aggregate // the message signature only exists under the aggregate rule
		}
		return false
	}
	sets := map[hotstuff.View]map[int]bool{}
	primary := map[string]bool{} // sender/view already has its message
	mixedViews, hostileBefore, formed := map[hotstuff.View]bool{}, 0, 0
	joined := 0
	for step, m := range c.Msgs {
		cur := sub.VS.View()
		tcBefore := sub.VS.HighTC().View()
		var view hotstuff.View
		isCorrect := false
		sender := m.From
		desc := ""
		if m.From <= 1 {
			// the subject's own timer fires: its timeout is a correct message from replica 1 for the current view
			view, sender, isCorrect = cur, 1, true
			desc = fmt.Sprintf("step %d: own timer fires in view %d", step, cur)
		} else {
			if m.From > c.N {
				continue
			}
			dv := m.DV
			if dv == 99 {
				dv = 1000
			}
			if int64(cur)+int64(dv) < 1 {
				dv = 0
			}
			view = hotstuff.View(int64(cur) + int64(dv))
			if (m.SI == 5 || m.SI == 6) && cur <= 3 {
				m.SI = 1 // a certificate for a view at or above the receiver's own would move it by itself (not a timeout matter)
			}
			kind := m.Kind
			if !contains(c.Byz, m.From) {
				kind = "honest" // only Byzantine senders send malformed messages
				if m.SI == 0 || m.SI == 3 {
					m.SI = 1 // an honest replica always reports its high QC (and never an invalid TC)
				}
			}
			key := fmt.Sprintf("%d/%d", m.From, view)
			if primary[key] {
				continue // one message per sender and view (re-sends are modelled by Dup)
			}
			primary[key] = true
			isCorrect = correct(tmsg{Kind: kind, SI: m.SI})
			if !isCorrect {
				hostileBefore++
			}
			desc = fmt.Sprintf("step %d: %s timeout from replica %d for view %d (subject in view %d, SyncInfo kind %d)", step, kind, m.From, view, cur, m.SI)
			m.Kind = kind
		}
		// reference collector
		expectCert := false
		if aggregate && isCorrect && sender != 1 && view == cur && sets[view] != nil && !sets[view][1] && !sets[view][sender] && len(sets[view]) == q-1 {
			// with aggregate certificates a replica that sees a quorum of the OTHERS time out in its view times out as well,
			// before the quorum is complete, so that the aggregate certificate knows its high QC too (finding 54): its own
			// timeout and the q-1 it holds are the quorum
			sets[view][1] = true
			expectCert = true
			joined++
		}
		if isCorrect && view >= cur {
			if sets[view] == nil {
				sets[view] = map[int]bool{}
			}
			if !sets[view][sender] {
				sets[view][sender] = true
				if len(sets[view]) == q {
					expectCert = true
				}
			}
		}
		if len(sets) >= 2 {
			mixedViews[view] = true
		}
		// the real replica
		nLog := len(cl.Log)
		if sender == 1 {
			cl.StepNo++
			cl.FireTimeout(sub)
		} else {
			tm := cl.craftTimeout(cl.Stacks[m.From-1], view, m.Kind, m.SI, aggregate)
			deliver(tm)
			if m.Dup {
				deliver(tm)
			}
		}
		now := sub.VS.View()
		tcNow := sub.VS.HighTC()
		switch {
		case expectCert && now <= cur:
			return common.Fail("tc-missing:"+c.Rules, "%s completes a quorum of %d correctly signed timeouts for view %d (senders %v), but the replica stayed in view %d (high TC view %d)\nhistory: %+v",
				desc, q, view, keys(sets[view]), cur, tcNow.View(), c.Msgs[:step+1])
		case expectCert && tcNow.View() < view:
			return common.Fail("tc-missing:"+c.Rules, "%s completes the quorum for view %d; the replica moved to view %d but holds no timeout certificate for view %d (high TC view %d)", desc, view, now, view, tcNow.View())
		case !expectCert && now != cur && tcBefore >= cur:
			// the replica already holds a certificate for a view >= its own (formed earlier for a future view): any event may
			// legitimately take it one view further (C07 covers that every such step is backed by that certificate)
		case !expectCert && now != cur:
			return common.Fail("tc-unjustified:"+c.Rules, "%s moved the replica from view %d to %d although no quorum of correctly signed timeouts for one view has been received (sets: %v)", desc, cur, now, describeSets(sets))
		case !expectCert && tcNow.View() != tcBefore:
			return common.Fail("tc-unjustified:"+c.Rules, "%s changed the high TC from view %d to %d without a quorum", desc, tcBefore, tcNow.View())
		}
		if expectCert {
			formed++
			// a replica that is still in the timed-out view moves on to the next one; a replica that is behind that view
			// moves forward, at most into the view after the certificate's
			if tcBefore < cur && ((view == cur && now != cur+1) || (view > cur && (now <= cur || now > view+1))) {
				return common.Fail("tc-wrong-step:"+c.Rules, "%s: the certificate for view %d moved the replica from view %d to %d", desc, view, cur, now)
			}
			// the certificate is built from those messages only and verifies elsewhere
			if tcNow.View() == view {
				bad := false
				tcNow.Signature().Participants().ForEach(func(id hotstuff.ID) {
					if !sets[view][int(id)] {
						bad = true
					}
				})
				if bad || tcNow.Signature().Participants().Len() < q {
					return common.Fail("tc-foreign-signers:"+c.Rules, "%s: the certificate for view %d has signers %s, correct timeouts came from %v", desc, view, hotstuff.IDSetToString(tcNow.Signature().Participants()), keys(sets[view]))
				}
				if err := cl.Stacks[len(cl.Stacks)-1].Auth.VerifyTimeoutCert(tcNow); err != nil {
					return common.Fail("tc-does-not-verify:"+c.Rules, "%s: the certificate for view %d does not verify at replica %d: %v", desc, view, cl.Stacks[len(cl.Stacks)-1].ID, err)
				}
			}
			// what the replica told the next leader
			sent := false
			for _, lm := range cl.Log[nLog:] {
				if tcBefore >= cur {
					sent = true // the step was (also) justified by a certificate held before; what was sent belongs to that step
					break
				}
				if nv, ok := lm.Payload.(hotstuff.NewViewMsg); ok && lm.From == 0 {
					sent = true
					other := cl.Stacks[len(cl.Stacks)-1]
					if tc, ok := nv.SyncInfo.TC(); ok {
						if err := other.Auth.VerifyTimeoutCert(tc); err != nil {
							return common.Fail("tc-does-not-verify:"+c.Rules, "%s: the TC sent to the next leader does not verify there: %v", desc, err)
						}
					} else {
						return common.Fail("newview-without-tc:"+c.Rules, "%s: the new-view message after the timeout quorum carries no TC", desc)
					}
					if aggregate {
						agg, ok := nv.SyncInfo.AggQC()
						if !ok {
							return common.Fail("newview-without-aggqc:"+c.Rules, "%s: aggregate QCs are enabled but the new-view message carries none", desc)
						}
						if _, err := other.Auth.VerifyAggregateQC(agg); err != nil {
							return common.Fail("aggqc-does-not-verify:"+c.Rules, "%s: the aggregate QC (view %d, %d entries) built from the timeouts of view %d does not verify at replica %d: %v", desc, agg.View(), len(agg.QCs()), view, other.ID, err)
						}
					}
				}
			}
			if !sent && tcBefore < cur {
				return common.Fail("no-newview:"+c.Rules, "%s: after the quorum the replica sent no new-view message to the next leader", desc)
			}
		}
		// views the replica has left are forgotten by the reference too
		for v := range sets {
			if v < sub.VS.View() {
				delete(sets, v)
			}
		}
	}
	cls := []string{c.Rules, fmt.Sprintf("n=%d", c.N), "crypto=" + c.Crypto}
	if formed > 0 {
		cls = append(cls, "certificate-formed")
	}
	if joined > 0 {
		cls = append(cls, "subject-joined-the-others-timeouts")
	}
	if formed >= 2 {
		cls = append(cls, "certificates>=2")
	}
	nt := len(mixedViews) >= 2 && hostileBefore > 0 && formed > 0
	return common.OK(nt, "", cls...)
}

func keys(m map[int]bool) []int {
	var l []int
	for k := range m {
		l = append(l, k)
	}
	sort.Ints(l)
	return l
}

func describeSets(s map[hotstuff.View]map[int]bool) string {
	var vs []int
	for v := range s {
		vs = append(vs, int(v))
	}
	sort.Ints(vs)
	out := ""
	for _, v := range vs {
		out += fmt.Sprintf(" view %d: %v", v, keys(s[hotstuff.View(v)]))
	}
	return out
}

func genC08(rt *rapid.T) c08Case {
	c := c08Case{N: rapid.SampledFrom([]int{4, 4, 7}).Draw(rt, "n")}
	c.Rules = rapid.SampledFrom([]string{rules.NameChainedHotStuff, rules.NameFastHotStuff}).Draw(rt, "rules")
	c.Crypto = rapid.SampledFrom([]string{"fast", "fast", "fast", "ecdsa", "eddsa"}).Draw(rt, "crypto")
	c.Start = rapid.IntRange(1, 4).Draw(rt, "start")
	f := hotstuff.NumFaulty(c.N)
	c.Byz = rapid.Permutation(seqInts(c.N)[1:]).Draw(rt, "byz")[:rapid.IntRange(0, f).Draw(rt, "nbyz")]
	kinds := []string{"sig-other-view", "sig-other-replica", "garbage", "multi-sig", "no-msgsig", "bad-msgsig", "honest"}
	n := rapid.IntRange(1, 40).Draw(rt, "nmsgs")
	for i := 0; i < n; i++ {
		m := tmsg{
			From: rapid.IntRange(1, c.N).Draw(rt, "from"),
			DV:   rapid.SampledFrom([]int{0, 0, 0, 0, 0, 1, 1, 2, 3, -1, -2, 99}).Draw(rt, "dv"),
			Kind: rapid.SampledFrom(kinds).Draw(rt, "kind"),
			SI:   rapid.SampledFrom([]int{0, 1, 1, 2, 3, 4, 5, 6}).Draw(rt, "si"),
			Dup:  rapid.IntRange(0, 4).Draw(rt, "dup") == 0,
		}
		c.Msgs = append(c.Msgs, m)
	}
	return c
}

func TestC08TimeoutCollector(t *testing.T) {
	common.Check(t, "C08", "TestC08TimeoutCollector", 12000, 300000, genC08, c08Prop)
}
