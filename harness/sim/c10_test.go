package sim

// C10 — no message from a peer can crash a replica or disturb its state.
// Structurally arbitrary wire messages are handed to the REAL service handlers of a live replica (server.serviceImpl via
// an overlay accessor), the event loop is then run to quiescence; panics anywhere on the path are violations, and for
// messages in which nothing can verify the protocol state must be unchanged.

import (
	"context"
	"fmt"
	"net"
	"runtime/debug"
	"strconv"
	"testing"

	"github.com/relab/gorums"
	"github.com/relab/hotstuff"
	"github.com/relab/hotstuff/internal/proto/clientpb"
	"github.com/relab/hotstuff/internal/proto/hotstuffpb"
	"github.com/relab/hotstuff/protocol/rules"
	"github.com/relab/hotstuff/verifx/common"
	"google.golang.org/grpc/metadata"
	"google.golang.org/grpc/peer"
	"google.golang.org/protobuf/types/known/timestamppb"
	"pgregory.net/rapid"
)

// ---- specification of a wire message ------------------------------------------------------------------------------

type sigSpec struct {
	Kind    int   // see sig* constants
	Signers []int // for valid kinds: who signs (default: the sender)
}

const (
	sigAbsent = iota // the QuorumSignature message is nil
	sigEmptyOneof    // present, no scheme selected
	sigWrongScheme   // a well-formed signature of another scheme
	sigEmptyList     // scheme selected, no signatures
	sigNilElement    // an all-default entry in the list (protobuf decoding never yields nil entries)
	sigGarbage       // random bytes
	sigValidWrongMsg // valid signature by the sender over other bytes
	sigValidSender   // valid signature by the sender over the right bytes (one signer)
	sigValidQuorum   // valid signatures of a quorum over the right bytes
	sigBLSMalformed  // BLS: bytes that are no curve point
	sigBLSEmpty      // BLS: point at infinity, empty bit-field
	sigBLSHugeField  // BLS: valid point, 4 KiB bit-field
	sigRepeated      // the sender's valid signature repeated quorum times
	sigQuorumUnknown // a valid quorum plus one entry labelled with a replica id that is not configured
	sigKinds
)

type qcSpec struct {
	Present bool
	Sig     sigSpec
	View    int // view selector
	Hash    int // hash selector
}

type tcSpec struct {
	Present bool
	Sig     sigSpec
	View    int
}

type aggSpec struct {
	Present bool
	Sig     sigSpec
	View    int
	QCs     []qcSpec
	IDs     []int
}

type siSpec struct {
	Present bool
	QC      qcSpec
	TC      tcSpec
	Agg     aggSpec
}

type blockSpec struct {
	Present  bool
	Parent   int
	QC       qcSpec
	View     int
	Proposer int
	Cmds     int  // 0 nil batch, 1 empty, 2 some commands, 3 a nil command inside
	TS       int  // 0 nil timestamp, 1 now, 2 extreme
}

type wireMsg struct {
	RPC    string // propose | vote | newview | timeout | fetch
	Sender int    // metadata id: 2..N member, N+5 non-member, 0 zero, -1 metadata missing, -2 not a number
	Block  blockSpec
	Agg    aggSpec
	Vote   struct {
		Sig  sigSpec
		Hash int
	}
	SI      siSpec
	TView   int
	ViewSig sigSpec
	MsgSig  sigSpec
	Hash    int
}

type c10Case struct {
	Rules  string
	Crypto string
	Cache  int
	Warm   int // number of honest FIFO generations before the messages arrive
	Msgs   []wireMsg
	Latency bool `json:",omitempty"` // the server has a latency matrix (replicas were assigned locations)
}

// ---- building protobuf messages from the specification -----------------------------------------------------------------

type wireBuilder struct {
	cl       *Cluster
	sub      *Stack
	sender   *Stack
	strict   bool // stays true while nothing in the message can verify
	verifies int  // number of components that carry something verifiable
}

func (w *wireBuilder) view(sel int, ref hotstuff.View) uint64 {
	cur := uint64(w.sub.VS.View())
	switch mod(sel, 8) {
	case 0:
		return 0
	case 1:
		if cur > 0 {
			return cur - 1
		}
		return 0
	case 2:
		return cur
	case 3:
		return cur + 1
	case 4:
		return cur + 11
	case 5:
		return 1 << 63
	case 6:
		return ^uint64(0)
	}
	return uint64(ref)
}

// hash returns the selected hash bytes and the block it names, if any.
func (w *wireBuilder) hash(sel int) ([]byte, *hotstuff.Block) {
	switch mod(sel, 7) {
	case 0:
		g := hotstuff.GetGenesis()
		h := g.Hash()
		return h[:], g
	case 1:
		b := w.cl.AllBlk[len(w.cl.AllBlk)-1]
		h := b.Hash()
		return h[:], b
	case 2:
		return []byte("this-hash-names-no-block-at-all!"), nil
	case 3:
		return []byte{1, 2, 3, 4, 5}, nil
	case 4:
		return make([]byte, 40), nil
	case 5:
		return nil, nil
	}
	qc := w.sub.VS.HighQC()
	h := qc.BlockHash()
	return h[:], w.cl.blockByHash(h)
}

func (w *wireBuilder) sig(s sigSpec, right []byte) *hotstuffpb.QuorumSignature {
	scheme := w.cl.Cfg.Crypto
	sign := func(st *Stack, m []byte) hotstuff.QuorumSignature {
		q, err := st.base.Sign(m)
		if err != nil {
			panic(err)
		}
		return q
	}
	toProto := func(q hotstuff.QuorumSignature) *hotstuffpb.QuorumSignature { return hotstuffpb.QuorumSignatureToProto(q) }
	ecdsaList := func(sigs ...*hotstuffpb.ECDSASignature) *hotstuffpb.QuorumSignature {
		return &hotstuffpb.QuorumSignature{Sig: &hotstuffpb.QuorumSignature_ECDSASigs{ECDSASigs: &hotstuffpb.ECDSAMultiSignature{Sigs: sigs}}}
	}
	eddsaList := func(sigs ...*hotstuffpb.EDDSASignature) *hotstuffpb.QuorumSignature {
		return &hotstuffpb.QuorumSignature{Sig: &hotstuffpb.QuorumSignature_EDDSASigs{EDDSASigs: &hotstuffpb.EDDSAMultiSignature{Sigs: sigs}}}
	}
	blsSig := func(point, field []byte) *hotstuffpb.QuorumSignature {
		return &hotstuffpb.QuorumSignature{Sig: &hotstuffpb.QuorumSignature_BLS12Sig{BLS12Sig: &hotstuffpb.BLS12AggregateSignature{Sig: point, Participants: field}}}
	}
	signer := w.sender
	if signer == nil || !signer.Live() {
		signer = w.cl.Stacks[1]
	}
	switch mod(s.Kind, sigKinds) {
	case sigAbsent:
		return nil
	case sigEmptyOneof:
		return &hotstuffpb.QuorumSignature{}
	case sigWrongScheme:
		if scheme == "eddsa" {
			return ecdsaList(&hotstuffpb.ECDSASignature{Signer: uint32(signer.ID), Sig: []byte{0x30, 0x06, 0x02, 0x01, 0x01, 0x02, 0x01, 0x01}})
		}
		return eddsaList(&hotstuffpb.EDDSASignature{Signer: uint32(signer.ID), Sig: make([]byte, 64)})
	case sigEmptyList:
		switch scheme {
		case "eddsa":
			return eddsaList()
		case "bls12":
			return blsSig(nil, nil)
		}
		return ecdsaList()
	case sigNilElement:
		switch scheme {
		case "eddsa":
			return eddsaList(&hotstuffpb.EDDSASignature{}, &hotstuffpb.EDDSASignature{Signer: uint32(signer.ID), Sig: make([]byte, 64)})
		case "bls12":
			return blsSig(make([]byte, 96), []byte{0xff})
		}
		return ecdsaList(&hotstuffpb.ECDSASignature{}, &hotstuffpb.ECDSASignature{Signer: uint32(signer.ID), Sig: []byte{1}})
	case sigGarbage:
		switch scheme {
		case "eddsa":
			return eddsaList(&hotstuffpb.EDDSASignature{Signer: uint32(signer.ID), Sig: []byte("garbage")})
		case "bls12":
			return blsSig([]byte("garbage-that-is-not-a-point"), []byte{0x0f})
		}
		return ecdsaList(&hotstuffpb.ECDSASignature{Signer: uint32(signer.ID), Sig: []byte("garbage")}, &hotstuffpb.ECDSASignature{Signer: 77, Sig: nil})
	case sigValidWrongMsg:
		return toProto(sign(signer, []byte("some other message")))
	case sigValidSender:
		w.verifies++
		return toProto(sign(signer, right))
	case sigValidQuorum:
		w.verifies++
		w.strict = false
		var sigs []hotstuff.QuorumSignature
		for _, st := range w.cl.Stacks {
			if len(sigs) < w.cl.Quorum() {
				sigs = append(sigs, sign(st, right))
			}
		}
		c, err := signer.base.Combine(sigs...)
		if err != nil {
			return toProto(sigs[0])
		}
		return toProto(c)
	case sigBLSMalformed:
		return blsSig([]byte{0xff, 0xff, 0xff}, []byte{0x07})
	case sigBLSEmpty:
		id := make([]byte, 96)
		id[0] = 0xc0
		return blsSig(id, nil)
	case sigBLSHugeField:
		id := make([]byte, 96)
		id[0] = 0xc0
		f := make([]byte, 4096)
		for i := range f {
			f[i] = 0xff
		}
		return blsSig(id, f)
	case sigQuorumUnknown:
		var sigs []hotstuff.QuorumSignature
		for _, st := range w.cl.Stacks {
			if len(sigs) < w.cl.Quorum() {
				sigs = append(sigs, sign(st, right))
			}
		}
		c, err := signer.base.Combine(sigs...)
		if err != nil {
			return toProto(sigs[0])
		}
		pb := toProto(c)
		switch x := pb.Sig.(type) {
		case *hotstuffpb.QuorumSignature_ECDSASigs:
			x.ECDSASigs.Sigs = append(x.ECDSASigs.Sigs, &hotstuffpb.ECDSASignature{Signer: 77, Sig: x.ECDSASigs.Sigs[0].Sig})
		case *hotstuffpb.QuorumSignature_EDDSASigs:
			x.EDDSASigs.Sigs = append(x.EDDSASigs.Sigs, &hotstuffpb.EDDSASignature{Signer: 77, Sig: x.EDDSASigs.Sigs[0].Sig})
		case *hotstuffpb.QuorumSignature_BLS12Sig:
			f := append([]byte(nil), x.BLS12Sig.Participants...)
			for len(f) < 10 {
				f = append(f, 0)
			}
			f[9] |= 0x10 // id 77
			x.BLS12Sig.Participants = f
		}
		return pb
	case sigRepeated:
		w.verifies++ // it contains a genuinely valid signature (for BLS it simply IS one valid signature)
		return toProto(repeat(sign(signer, right), w.cl.Quorum()))
	}
	return nil
}

func (w *wireBuilder) qc(s qcSpec) *hotstuffpb.QuorumCert {
	if !s.Present {
		return nil
	}
	h, blk := w.hash(s.Hash)
	var ref hotstuff.View
	right := []byte("no such block")
	if blk != nil {
		ref, right = blk.View(), blk.ToBytes()
	}
	if blk != nil && blk.View() == 0 {
		w.strict = false // the genesis certificate needs no signature
	}
	return &hotstuffpb.QuorumCert{Sig: w.sig(s.Sig, right), View: w.view(s.View, ref), Hash: h}
}

func (w *wireBuilder) tc(s tcSpec) *hotstuffpb.TimeoutCert {
	if !s.Present {
		return nil
	}
	v := w.view(s.View, 0)
	if v == 0 {
		w.strict = false // the view-0 timeout certificate needs no signature
	}
	return &hotstuffpb.TimeoutCert{Sig: w.sig(s.Sig, hotstuff.View(v).ToBytes()), View: v}
}

func (w *wireBuilder) agg(s aggSpec) *hotstuffpb.AggQC {
	if !s.Present {
		return nil
	}
	a := &hotstuffpb.AggQC{View: w.view(s.View, 0)}
	if len(s.QCs) > 0 {
		a.QCs = map[uint32]*hotstuffpb.QuorumCert{}
	}
	for i, q := range s.QCs {
		id := uint32(i + 1)
		if i < len(s.IDs) {
			id = uint32(mod(s.IDs[i], 12))
		}
		a.QCs[id] = w.qc(q)
	}
	a.Sig = w.sig(s.Sig, []byte("aggregate"))
	return a
}

func (w *wireBuilder) si(s siSpec) *hotstuffpb.SyncInfo {
	if !s.Present {
		return nil
	}
	return &hotstuffpb.SyncInfo{QC: w.qc(s.QC), TC: w.tc(s.TC), AggQC: w.agg(s.Agg)}
}

func (w *wireBuilder) block(s blockSpec) *hotstuffpb.Block {
	if !s.Present {
		return nil
	}
	parent, pb := w.hash(s.Parent)
	var ref hotstuff.View
	if pb != nil {
		ref = pb.View() + 1
	}
	b := &hotstuffpb.Block{Parent: parent, QC: w.qc(s.QC), View: w.view(s.View, ref), Proposer: uint32(mod(s.Proposer, 9))}
	switch mod(s.Cmds, 4) {
	case 1:
		b.Commands = &clientpb.Batch{}
	case 2:
		b.Commands = &clientpb.Batch{Commands: []*clientpb.Command{{ClientID: 8, SequenceNumber: 1, Data: []byte("x")}}}
	case 3:
		b.Commands = &clientpb.Batch{Commands: []*clientpb.Command{{}, {ClientID: 8, SequenceNumber: 2}}}
	}
	switch mod(s.TS, 3) {
	case 1:
		b.Timestamp = timestamppb.Now()
	case 2:
		b.Timestamp = &timestamppb.Timestamp{Seconds: 1 << 62, Nanos: -5}
	}
	return b
}

// ---- state snapshot ------------------------------------------------------------------------------------------------

type protoState struct {
	View, HighQC, HighTC, Committed, Lock, LastVoted hotstuff.View
	QCHash, LockHash                                  hotstuff.Hash
	Commits                                           int
}

func (st *Stack) protoState() protoState {
	s := protoState{View: st.VS.View(), HighQC: st.VS.HighQC().View(), HighTC: st.VS.HighTC().View(), Committed: st.VS.CommittedBlock().View(),
		QCHash: st.VS.HighQC().BlockHash(), LastVoted: st.Voter.VerifLastVotedView(), Commits: len(st.Commits)}
	if l := rules.VerifLock(st.Rules); l != nil {
		s.Lock, s.LockHash = l.View(), l.Hash()
	}
	return s
}

// ---- property ------------------------------------------------------------------------------------------------------

func peerCtx(sender, n int) context.Context {
	ctx := peer.NewContext(context.Background(), &peer.Peer{Addr: &net.TCPAddr{IP: net.IPv4(127, 0, 0, 1), Port: 4000}})
	switch {
	case sender == -1:
		return ctx // metadata missing
	case sender == -2:
		return metadata.NewIncomingContext(ctx, metadata.Pairs("id", "not-a-number"))
	}
	return metadata.NewIncomingContext(ctx, metadata.Pairs("id", strconv.Itoa(sender)))
}

func c10Prop(c c10Case) (verdict common.Result) {
	cfg := Config{N: 4, Rules: c.Rules, Crypto: c.Crypto, Cache: c.Cache, Batch: 1, Latency: c.Latency}
	cl, err := New(cfg)
	if err != nil {
		return common.Fail("harness", "cluster: %v", err)
	}
	defer cl.Close()
	defer func() { verdict = cl.Verdict("C10", verdict) }()
	cl.Start()
	for i := 0; i < c.Warm; i++ {
		if len(cl.deliverable()) > 0 {
			cl.Burst(1)
		} else {
			for _, st := range cl.liveStacks() {
				cl.FireTimeout(st)
			}
		}
	}
	sub := cl.Stacks[0]
	svc := sub.Srv.VerifService()
	reached, deep := 0, 0
	var classes []string
	for i, m := range c.Msgs {
		w := &wireBuilder{cl: cl, sub: sub, strict: true}
		if m.Sender >= 1 && m.Sender <= 4 {
			w.sender = cl.Stacks[m.Sender-1]
		}
		cl.topUp() // a message that verifies may make the replica leader: its proposer must find client commands
		before := sub.protoState()
		var panicMsg, stack string
		desc := fmt.Sprintf("%s %s cache=%d message #%d: %s from sender %d, replica in view %d", c.Rules, c.Crypto, c.Cache, i, m.RPC, m.Sender, before.View)
		func() {
			defer func() {
				if r := recover(); r != nil {
					panicMsg, stack = fmt.Sprint(r), string(debug.Stack())
				}
			}()
			ctx := gorums.ServerCtx{Context: peerCtx(m.Sender, 4)}
			switch m.RPC {
			case "propose":
				svc.Propose(ctx, &hotstuffpb.Proposal{Block: w.block(m.Block), AggQC: w.agg(m.Agg)})
			case "propose-nil":
				svc.Propose(ctx, nil)
			case "vote":
				h, blk := w.hash(m.Vote.Hash)
				right := []byte("no such block")
				if blk != nil {
					right = blk.ToBytes()
				}
				svc.Vote(ctx, &hotstuffpb.PartialCert{Sig: w.sig(m.Vote.Sig, right), Hash: h})
			case "vote-nil":
				svc.Vote(ctx, nil)
			case "newview":
				svc.NewView(ctx, w.si(m.SI))
			case "timeout":
				v := w.view(m.TView, 0)
				tm := &hotstuffpb.TimeoutMsg{View: v, SyncInfo: w.si(m.SI), ViewSig: w.sig(m.ViewSig, hotstuff.View(v).ToBytes())}
				tm.MsgSig = w.sig(m.MsgSig, []byte("timeout message bytes"))
				svc.Timeout(ctx, tm)
			case "timeout-nil":
				svc.Timeout(ctx, nil)
			case "fetch":
				h, _ := w.hash(m.Hash)
				_, _ = svc.RequestBlock(ctx, &hotstuffpb.BlockHash{Hash: h})
			case "fetch-nil":
				_, _ = svc.RequestBlock(ctx, nil)
			}
			cl.StepNo++
			cl.drain(sub)
		}()
		if panicMsg != "" {
			frame := common.TopRepoFrame(stack)
			return common.Fail("panic:"+m.RPC+":"+frame, "PANIC in the replica while handling a peer message: %s\n%s\nmessage: %s\n%s", panicMsg, desc, common.JSON(m), trimTo(stack, 2500))
		}
		after := sub.protoState()
		if w.strict && w.verifies == 0 && after != before {
			return common.Fail("state-changed:"+m.RPC, "a message in which nothing can verify changed the replica's protocol state\nbefore %+v\nafter  %+v\n%s\nmessage: %s", before, after, desc, common.JSON(m))
		}
		reached++
		if m.RPC == "propose" && m.Block.Present || m.RPC == "newview" && m.SI.Present || m.RPC == "timeout" || m.RPC == "vote" {
			deep++
		}
		classes = append(classes, m.RPC)
	}
	classes = append(classes, c.Rules, "crypto="+c.Crypto)
	if c.Cache > 0 {
		classes = append(classes, "cache")
	}
	return common.OK(deep > 0, "", dedup(classes)...)
}

func trimTo(s string, n int) string {
	if len(s) > n {
		return s[:n]
	}
	return s
}

// ---- generators ----------------------------------------------------------------------------------------------------

func genSig(rt *rapid.T, l string) sigSpec {
	return sigSpec{Kind: rapid.IntRange(0, sigKinds-1).Draw(rt, l)}
}

func genQC(rt *rapid.T, l string) qcSpec {
	return qcSpec{Present: rapid.IntRange(0, 5).Draw(rt, l+"p") != 0, Sig: genSig(rt, l+"s"), View: rapid.IntRange(0, 7).Draw(rt, l+"v"), Hash: rapid.IntRange(0, 6).Draw(rt, l+"h")}
}

func genTC(rt *rapid.T, l string) tcSpec {
	return tcSpec{Present: rapid.IntRange(0, 3).Draw(rt, l+"p") != 0, Sig: genSig(rt, l+"s"), View: rapid.IntRange(0, 6).Draw(rt, l+"v")}
}

func genAgg(rt *rapid.T, l string) aggSpec {
	a := aggSpec{Present: rapid.IntRange(0, 2).Draw(rt, l+"p") == 0, Sig: genSig(rt, l+"s"), View: rapid.IntRange(0, 6).Draw(rt, l+"v")}
	for i := rapid.IntRange(0, 3).Draw(rt, l+"n"); i > 0; i-- {
		a.QCs = append(a.QCs, genQC(rt, l+"q"))
		a.IDs = append(a.IDs, rapid.IntRange(0, 11).Draw(rt, l+"id"))
	}
	return a
}

func genSI(rt *rapid.T, l string) siSpec {
	return siSpec{Present: rapid.IntRange(0, 5).Draw(rt, l+"p") != 0, QC: genQC(rt, l+"qc"), TC: genTC(rt, l+"tc"), Agg: genAgg(rt, l+"agg")}
}

func genWire(rt *rapid.T) wireMsg {
	m := wireMsg{}
	m.RPC = rapid.SampledFrom([]string{"propose", "propose", "propose", "vote", "vote", "newview", "newview", "newview", "timeout", "timeout", "timeout", "fetch"}).Draw(rt, "rpc")
	m.Sender = rapid.SampledFrom([]int{2, 2, 3, 4, 2, 3, 9, 0, -1, -2, 1}).Draw(rt, "sender")
	m.Block = blockSpec{Present: rapid.IntRange(0, 5).Draw(rt, "bp") != 0, Parent: rapid.IntRange(0, 6).Draw(rt, "parent"), QC: genQC(rt, "bqc"),
		View: rapid.IntRange(0, 7).Draw(rt, "bview"), Proposer: rapid.IntRange(0, 8).Draw(rt, "prop"), Cmds: rapid.IntRange(0, 3).Draw(rt, "cmds"), TS: rapid.IntRange(0, 2).Draw(rt, "ts")}
	m.Agg = genAgg(rt, "pagg")
	m.Vote.Sig = genSig(rt, "vsig")
	m.Vote.Hash = rapid.IntRange(0, 6).Draw(rt, "vhash")
	m.SI = genSI(rt, "si")
	m.TView = rapid.IntRange(0, 6).Draw(rt, "tview")
	m.ViewSig = genSig(rt, "viewsig")
	m.MsgSig = genSig(rt, "msgsig")
	m.Hash = rapid.IntRange(0, 6).Draw(rt, "fhash")
	return m
}

func genC10(rt *rapid.T) c10Case {
	c := c10Case{Rules: rapid.SampledFrom(AllRules).Draw(rt, "rules")}
	c.Crypto = rapid.SampledFrom([]string{"ecdsa", "eddsa", "ecdsa", "eddsa", "bls12"}).Draw(rt, "crypto")
	c.Cache = rapid.SampledFrom([]int{0, 0, 10}).Draw(rt, "cache")
	c.Warm = rapid.IntRange(0, 12).Draw(rt, "warm")
	for i := rapid.IntRange(1, 5).Draw(rt, "n"); i > 0; i-- {
		c.Msgs = append(c.Msgs, genWire(rt))
	}
	c.Latency = rapid.IntRange(0, 3).Draw(rt, "latency") == 0
	return c
}

func TestC10WireMessages(t *testing.T) {
	common.Check(t, "C10", "TestC10WireMessages", 10000, 400000, genC10, c10Prop)
}
