package sim

// C01 — a Byzantine replica that leads EVERY view and plays a strategy. The generic simulator composes the actor's
// actions at random, which makes a coherent multi-view attack (withhold a certificate, let the view time out, fork below
// it in the gap, show one replica one branch and the rest the other) vanishingly rare. Here the whole run is such a
// strategy: per view the leader picks which of the certificates it holds the new block extends, who gets to see the
// block (everybody, the victims, the others, or two different blocks for the two groups) and whether the block arrives
// before or after the receivers' timers fired. Short strategies are enumerated completely, longer ones are sampled.
// The oracle is the C01 ledger monitor over the honest replicas.

import (
	"fmt"
	"os"
	"sort"
	"testing"

	"github.com/relab/hotstuff"
	"github.com/relab/hotstuff/verifx/common"
	"pgregory.net/rapid"
)

type sview struct {
	Ext  int  // the block extends the Ext-th newest certified block the leader holds a genuine certificate for (0 = newest)
	Aud  int  // 0 all honest replicas, 1 the victims only, 2 the others only; >= 8: bit i of Aud-8 = the i-th honest replica gets the block (any subset)
	Ext2 int  // >= 0: equivocation; the victims get the block on Ext, the others a second block on Ext2
	Late bool // the receivers' view timers fire first (their timeout messages are in flight), then the block arrives
}

type stratCase struct {
	Rules   string
	N       int
	Victims int // number of honest replicas in the victim group (1..f)
	Warm    int // honest-looking views first (newest certificate, everybody, no timeouts)
	Views   []sview
	Tail    int // audience of the closing views (newest certificate): 0 everybody, 2 the others only (or a subset, see sview.Aud)
	TailLen int
	Iso       bool `json:",omitempty"` // messages between the victims and the other honest replicas are lost throughout (the Byzantine leader reaches both sides, and block fetches reach only what is reachable)
	ServeBack int  `json:",omitempty"` // > 0: the leader answers block fetches only for blocks of the last ServeBack views
	ServeEvery int `json:",omitempty"` // > 1: the leader answers only every ServeEvery-th block request
	IsoAll     bool `json:",omitempty"` // with Iso: ALL messages between honest replicas are lost (everybody hears only the leader)
}

type stratRun struct {
	cl      *Cluster
	a       *Actor
	lead    *Stack
	victims map[int]bool // stack index
	honest  []*Stack
	qcFor   map[hotstuff.Hash]hotstuff.QuorumCert
	myTO    map[hotstuff.View][]hotstuff.TimeoutMsg // the actors' own (unsent) timeout messages per view
	forks   int
	iso       bool
	serveBack int
	serveEvery int
}

// assemble turns every block with a quorum of votes (honest votes seen on the wire plus the actors' own) into a certificate.
func (r *stratRun) assemble() {
	a, cl := r.a, r.cl
	a.learn()
	for _, b := range cl.AllBlk {
		if b.View() == 0 {
			continue
		}
		if _, ok := r.qcFor[b.Hash()]; ok {
			continue
		}
		var sigs []hotstuff.QuorumSignature
		seen := map[hotstuff.ID]bool{}
		for _, v := range a.Votes[b.Hash()] {
			if !seen[v.Signer()] {
				seen[v.Signer()] = true
				sigs = append(sigs, v.Signature())
			}
		}
		for _, me := range a.stacks {
			if !seen[me.ID] {
				seen[me.ID] = true
				sigs = append(sigs, a.sign(me, b.ToBytes()))
			}
		}
		if len(sigs) < cl.Quorum() {
			continue
		}
		sig, err := r.lead.base.Combine(sigs[:cl.Quorum()]...)
		if err != nil {
			continue
		}
		qc := hotstuff.NewQuorumCert(sig, b.View(), b.Hash())
		r.qcFor[b.Hash()] = qc
		a.addQC(qc)
	}
}

// held returns the genuine certificates the leader holds, newest certified block first (genesis last).
func (r *stratRun) held() []hotstuff.QuorumCert {
	l := []hotstuff.QuorumCert{}
	for _, qc := range r.qcFor {
		l = append(l, qc)
	}
	// newest certified view first; among blocks of one view (equivocation) the one proposed first comes first. (Block hashes
	// contain the wall clock, so they must not decide anything here.)
	order := map[hotstuff.Hash]int{}
	for i, b := range r.cl.AllBlk {
		order[b.Hash()] = i
	}
	sort.Slice(l, func(i, j int) bool {
		if l[i].View() != l[j].View() {
			return l[i].View() > l[j].View()
		}
		return order[l[i].BlockHash()] < order[l[j].BlockHash()]
	})
	return append(l, hotstuff.NewQuorumCert(nil, 0, hotstuff.GetGenesis().Hash()))
}

// aggFor looks for an aggregate certificate of view v (one an honest replica built, or one the leader builds from any
// quorum of the timeout messages of v, its own included) whose highest certificate is qc.
func (r *stratRun) aggFor(v hotstuff.View, qc hotstuff.QuorumCert) *hotstuff.AggregateQC {
	a := r.a
	highest := func(agg hotstuff.AggregateQC) (best hotstuff.QuorumCert) {
		first := true
		for _, c := range agg.QCs() {
			if first || c.View() > best.View() {
				best, first = c, false
			}
		}
		return best
	}
	for i := range a.AggQCs {
		if a.AggQCs[i].View() == v && highest(a.AggQCs[i]).BlockHash() == qc.BlockHash() {
			x := a.AggQCs[i]
			return &x
		}
	}
	var msgs []hotstuff.TimeoutMsg
	seen := map[hotstuff.ID]bool{}
	for _, t := range r.myTO[v] {
		seen[t.ID] = true
		msgs = append(msgs, t)
	}
	for _, t := range a.Timeouts {
		if t.View == v && t.MsgSignature != nil && !seen[t.ID] {
			seen[t.ID] = true
			msgs = append(msgs, t)
		}
	}
	q := r.cl.Quorum()
	if len(msgs) < q {
		return nil
	}
	// all q-subsets that contain the actors' own messages (they carry the oldest certificate and hide nothing)
	var pick func(start int, cur []hotstuff.TimeoutMsg) *hotstuff.AggregateQC
	pick = func(start int, cur []hotstuff.TimeoutMsg) *hotstuff.AggregateQC {
		if len(cur) == q {
			agg, err := r.lead.Auth.CreateAggregateQC(v, cur)
			if err == nil && highest(agg).BlockHash() == qc.BlockHash() {
				return &agg
			}
			return nil
		}
		for i := start; i < len(msgs); i++ {
			if x := pick(i+1, append(cur[:len(cur):len(cur)], msgs[i])); x != nil {
				return x
			}
		}
		return nil
	}
	return pick(0, nil)
}

func (r *stratRun) audience(aud int) []*Stack {
	var l []*Stack
	for i, st := range r.honest {
		if aud >= 8 {
			if (aud-8)&(1<<uint(i)) != 0 {
				l = append(l, st)
			}
			continue
		}
		if aud == 0 || (aud == 1) == r.victims[st.Idx] {
			l = append(l, st)
		}
	}
	return l
}

// deliverProposals hands over the proposals in flight (and nothing else), then lets the votes travel.
func (r *stratRun) deliverProposals() {
	cl := r.cl
	for i := 0; i < len(cl.Pool); {
		if _, ok := cl.Pool[i].Payload.(hotstuff.ProposeMsg); ok {
			cl.StepNo++
			cl.Deliver(cl.remove(i))
			continue
		}
		i++
	}
}

func (r *stratRun) propose(v hotstuff.View, ext hotstuff.QuorumCert, to []*Stack) {
	cl, a := r.cl, r.a
	p := hotstuff.ProposeMsg{ID: r.lead.ID}
	if cl.Cfg.Rules == "fasthotstuff" && ext.View()+1 != v && v > 1 {
		p.AggregateQC = r.aggFor(v-1, ext)
		if p.AggregateQC == nil && os.Getenv("VERIF_STRAT_DEBUG") != "" {
			n := 0
			for _, t := range a.Timeouts {
				if t.View == v-1 {
					n++
					q, _ := t.SyncInfo.QC()
					fmt.Printf("DEBUG timeout view %d from %d msgsig=%v qcview=%d\n", t.View, t.ID, t.MsgSignature != nil, q.View())
				}
			}
			fmt.Printf("DEBUG no aggregate for view %d ext view %d; own %d, seen %d\n", v-1, ext.View(), len(r.myTO[v-1]), n)
		}
	}
	p.Block = hotstuff.NewBlock(ext.BlockHash(), ext, a.batch(), v, r.lead.ID)
	cl.register(p.Block)
	for _, st := range to {
		a.send(r.lead, st, p)
	}
}

// view plays one view of the strategy; all honest replicas are in view v when it starts and in v+1 when it ends.
func (r *stratRun) view(v hotstuff.View, s sview, timeouts bool) {
	cl, a := r.cl, r.a
	a.ServeEvery = r.serveEvery
	if r.serveBack > 0 {
		a.ServeFetch = true
		a.ServeFrom = 0
		if v > hotstuff.View(r.serveBack) {
			a.ServeFrom = v - hotstuff.View(r.serveBack)
		}
	}
	r.assemble()
	held := r.held()
	pickQC := func(k int) hotstuff.QuorumCert {
		if k >= len(held) {
			k = len(held) - 1
		}
		return held[k]
	}
	if s.Late && timeouts {
		for _, st := range r.honest {
			cl.StepNo++
			cl.FireTimeout(st)
		}
	}
	if s.Ext2 >= 0 {
		r.forks++
		r.propose(v, pickQC(s.Ext), r.audience(1))
		r.propose(v, pickQC(s.Ext2), r.audience(2))
	} else {
		r.propose(v, pickQC(s.Ext), r.audience(s.Aud))
	}
	r.deliverProposals()
	r.assemble()
	if !timeouts {
		return
	}
	if !s.Late {
		for _, st := range r.honest {
			cl.StepNo++
			cl.FireTimeout(st)
		}
	}
	// the actors' own timeout messages for this view report the genesis certificate; they are kept for aggregates
	for _, me := range a.stacks {
		tm := hotstuff.TimeoutMsg{ID: me.ID, View: v, SyncInfo: hotstuff.NewSyncInfoWith(hotstuff.NewQuorumCert(nil, 0, hotstuff.GetGenesis().Hash())), ViewSignature: a.sign(me, v.ToBytes())}
		if cl.Cfg.Rules == "fasthotstuff" {
			tm.MsgSignature = a.sign(me, tm.ToBytes())
		}
		r.myTO[v] = append(r.myTO[v], tm)
	}
	cl.Burst(8)
	a.learn()
	if r.iso {
		// the honest groups do not hear each other's timeouts; the leader, who hears everybody, hands all of them the
		// timeout certificate of the view (its own signature included) - an honest leader would do the same
		var msgs []hotstuff.TimeoutMsg
		seen := map[hotstuff.ID]bool{}
		for _, t := range r.myTO[v] {
			if !seen[t.ID] {
				seen[t.ID] = true
				msgs = append(msgs, t)
			}
		}
		for _, t := range a.Timeouts {
			if t.View == v && !seen[t.ID] {
				seen[t.ID] = true
				msgs = append(msgs, t)
			}
		}
		if len(msgs) >= cl.Quorum() {
			if tc, err := r.lead.Auth.CreateTimeoutCert(v, msgs[:cl.Quorum()]); err == nil {
				for _, st := range r.honest {
					a.send(r.lead, st, hotstuff.NewViewMsg{ID: r.lead.ID, SyncInfo: hotstuff.NewSyncInfoWith(tc)})
				}
				cl.Burst(4)
			}
		}
	}
}

func stratProp(c stratCase) common.Result { return stratRunWith(c, "C01") }

// stratRunWith plays the strategy and applies the oracle of the given property: C01 ledgers after every view; C03 the vote
// oracle over the honest replicas' signing log at the end; C07 the pacemaker monitor after every view.
func stratRunWith(c stratCase, prop string) common.Result {
	f := hotstuff.NumFaulty(c.N)
	var actors []int
	for i := 0; i < f; i++ {
		actors = append(actors, c.N-i)
	}
	cfg := Config{N: c.N, Rules: c.Rules, Crypto: "fast", Batch: 1, Actors: actors, Leaders: []int{c.N}, ActorBridges: c.Iso}
	cl, err := New(cfg)
	if err != nil {
		return common.Fail("harness", "cluster: %v", err)
	}
	defer cl.Close()
	cl.Start()
	r := &stratRun{cl: cl, a: cl.Actor, victims: map[int]bool{}, qcFor: map[hotstuff.Hash]hotstuff.QuorumCert{}, myTO: map[hotstuff.View][]hotstuff.TimeoutMsg{}, iso: c.Iso, serveBack: c.ServeBack, serveEvery: c.ServeEvery}
	for _, st := range cl.Stacks {
		if st.Kind == "actor" && int(st.ID) == c.N {
			r.lead = st
		}
	}
	r.honest = cl.HonestStacks()
	for i := 0; i < c.Victims && i < len(r.honest); i++ {
		r.victims[r.honest[i].Idx] = true
	}
	if c.Iso {
		for i := range r.honest {
			if r.victims[r.honest[i].Idx] {
				cl.Part[r.honest[i].Idx] = 1
			} else if c.IsoAll {
				cl.Part[r.honest[i].Idx] = 2 + i
			}
		}
	}
	mon := &ledgerMonitor{cl: cl, checked: map[int]int{}}
	pace := &paceMonitor{cl: cl, prev: map[int]paceState{}, steps: map[int]int{}}
	if prop == "C07" {
		pace.check()
	}
	v := hotstuff.View(1)
	var plan []sview
	for i := 0; i < c.Warm; i++ {
		plan = append(plan, sview{Ext2: -1})
	}
	plan = append(plan, c.Views...)
	for i := 0; i < c.TailLen; i++ {
		plan = append(plan, sview{Aud: c.Tail, Ext2: -1})
	}
	for i, s := range plan {
		// warm-up views run without timeouts (the next block's certificate moves everybody on); from the first strategic
		// view on every view ends with the honest replicas' timers firing, so that all of them enter the next view
		r.view(v, s, i >= c.Warm-1)
		switch prop {
		case "C01":
			if fp, msg := mon.check(); fp != "" {
				return common.Fail(fp+":strategy:"+c.Rules, "after view %d of the strategy: %s\nstrategy: %+v", v, msg, c)
			}
		case "C07":
			if fp, msg := pace.check(); fp != "" {
				return common.Fail(fp+":strategy:"+c.Rules, "after view %d of the strategy: %s\nstrategy: %+v", v, msg, c)
			}
		}
		if cl.Inconclusive != "" {
			common.Get(prop).Inconclusive(cl.Inconclusive)
			return common.OK(false, "", "strategy inconclusive")
		}
		v++
	}
	if prop == "C03" {
		fp, msg, _, signed := cl.voteOracle()
		if fp != "" {
			return common.Fail(fp+":strategy:"+c.Rules, "%s\nstrategy: %+v", msg, c)
		}
		total := 0
		for _, n := range signed {
			total += n
		}
		late := false
		for _, sv := range c.Views {
			late = late || sv.Late
		}
		return common.OK(total > 0 && (late || r.forks > 0), fmt.Sprintf("%+v", c), "strategy "+c.Rules, fmt.Sprintf("strategy late-proposal=%v", late), fmt.Sprintf("strategy equivocation=%v", r.forks > 0))
	}
	// classes: did the strategy have teeth?
	certified := 0
	conflict := false
	var cb []*hotstuff.Block
	for h := range r.qcFor {
		if b := cl.blockByHash(h); b != nil {
			cb = append(cb, b)
			certified++
		}
	}
	for i := range cb {
		for j := range cb {
			if i < j && !extends(cl, cb[i], cb[j]) && !extends(cl, cb[j], cb[i]) {
				conflict = true
			}
		}
	}
	maxC, minC := 0, 1<<30
	for _, st := range r.honest {
		if n := len(st.Commits); n > maxC {
			maxC = n
		}
		if n := len(st.Commits); n < minC {
			minC = n
		}
	}
	cls := []string{"strategy " + c.Rules, fmt.Sprintf("strategy certified>=%d", min(certified, 4))}
	if conflict {
		cls = append(cls, "strategy conflicting-certified-blocks")
	}
	if maxC > 0 {
		cls = append(cls, "strategy some-commit")
	}
	if maxC > minC {
		cls = append(cls, "strategy victims-and-others-differ-in-length")
	}
	if r.forks > 0 {
		cls = append(cls, "strategy equivocation")
	}
	return common.OK(conflict && maxC > 0, fmt.Sprintf("%+v", c), cls...)
}

// extends reports whether b is a (reflexive) descendant of anc by parent links.
func extends(cl *Cluster, b, anc *hotstuff.Block) bool {
	for b != nil {
		if b.Hash() == anc.Hash() {
			return true
		}
		if b.View() <= anc.View() {
			return false
		}
		b = cl.blockByHash(b.Parent())
	}
	return false
}

// alphabet of one strategic view: 9 single proposals + 6 equivocations, each early or late.
func stratAlphabet() []sview {
	var l []sview
	for _, late := range []bool{false, true} {
		for ext := 0; ext < 3; ext++ {
			for aud := 0; aud < 3; aud++ {
				l = append(l, sview{Ext: ext, Aud: aud, Ext2: -1, Late: late})
			}
		}
		for ext := 0; ext < 3; ext++ {
			for ext2 := 0; ext2 < 3; ext2++ {
				if ext != ext2 {
					l = append(l, sview{Ext: ext, Ext2: ext2, Late: late})
				}
			}
		}
	}
	return l
}

// TestC01LeaderStrategiesEnumerated: every strategy of `depth` strategic views (quick 2, thorough 3) over the alphabet,
// after 1..3 honest-looking views and followed by closing views for everybody or for the non-victims; n=4, all rulesets.
func TestC01LeaderStrategiesEnumerated(t *testing.T) {
	depth := 2
	if common.Tier() == "thorough" {
		depth = 3
	}
	alpha := stratAlphabet()
	common.Exhaustive(t, "C01", "TestC01LeaderStrategiesEnumerated", func(yield func(stratCase) bool) {
		idx := make([]int, depth)
		for {
			for _, rules := range AllRules {
				for warm := 1; warm <= 3; warm++ {
					for _, tail := range []int{0, 2} {
						c := stratCase{Rules: rules, N: 4, Victims: 1, Warm: warm, Tail: tail, TailLen: ChainLength(rules) + 1}
						for _, k := range idx {
							c.Views = append(c.Views, alpha[k])
						}
						if !yield(c) {
							return
						}
					}
				}
			}
			k := 0
			for ; k < depth; k++ {
				idx[k]++
				if idx[k] < len(alpha) {
					break
				}
				idx[k] = 0
			}
			if k == depth {
				return
			}
		}
	}, stratProp)
}

// TestC01LeaderStrategies samples longer strategies (3..6 strategic views), n in {4,7}.
func TestC01LeaderStrategies(t *testing.T) {
	alpha := stratAlphabet()
	common.Check(t, "C01", "TestC01LeaderStrategies", 6000, 200000, func(rt *rapid.T) stratCase {
		c := stratCase{Rules: rapid.SampledFrom(AllRules).Draw(rt, "rules"), N: rapid.SampledFrom([]int{4, 4, 4, 7}).Draw(rt, "n")}
		c.Victims = rapid.IntRange(1, hotstuff.NumFaulty(c.N)).Draw(rt, "victims")
		c.Warm = rapid.IntRange(1, 3).Draw(rt, "warm")
		n := rapid.IntRange(3, 6).Draw(rt, "views")
		for i := 0; i < n; i++ {
			c.Views = append(c.Views, alpha[rapid.IntRange(0, len(alpha)-1).Draw(rt, "sv")])
		}
		c.Tail = rapid.SampledFrom([]int{0, 2}).Draw(rt, "tail")
		c.TailLen = rapid.IntRange(2, 5).Draw(rt, "taillen")
		return c
	}, stratProp)
}

func enumStrategies(depth int, yield func(stratCase) bool) {
	alpha := stratAlphabet()
	idx := make([]int, depth)
	for {
		for _, rules := range AllRules {
			for warm := 1; warm <= 3; warm++ {
				for _, tail := range []int{0, 2} {
					c := stratCase{Rules: rules, N: 4, Victims: 1, Warm: warm, Tail: tail, TailLen: ChainLength(rules) + 1}
					for _, k := range idx {
						c.Views = append(c.Views, alpha[k])
					}
					if !yield(c) {
						return
					}
				}
			}
		}
		k := 0
		for ; k < depth; k++ {
			idx[k]++
			if idx[k] < len(alpha) {
				break
			}
			idx[k] = 0
		}
		if k == depth {
			return
		}
	}
}

// TestC03StrategyVotes: the vote oracle (C03) over every strategy of 2 strategic views: late proposals after the receivers'
// own timeouts and equivocation are exactly where "at most once per view, never after a timeout" is at stake.
func TestC03StrategyVotes(t *testing.T) {
	common.Exhaustive(t, "C03", "TestC03StrategyVotes", func(yield func(stratCase) bool) { enumStrategies(2, yield) },
		func(c stratCase) common.Result { return stratRunWith(c, "C03") })
}

// TestC07StrategyPace: the pacemaker monitor (C07) after every view of every strategy of 2 strategic views.
func TestC07StrategyPace(t *testing.T) {
	common.Exhaustive(t, "C07", "TestC07StrategyPace", func(yield func(stratCase) bool) { enumStrategies(2, yield) },
		func(c stratCase) common.Result { return stratRunWith(c, "C07") })
}

// ---- strategies around a replica that cannot look up what it locks -------------------------------------------------------
//
// genWithholdStrategy: the honest replicas are split by message loss (the victim hears only the Byzantine leader, who hears
// and reaches everybody), and the leader answers block fetches only for the newest ServeBack views. The skeleton: some views
// for the others only; one view for the victim and one of the others (the victim has to fetch the ancestors it missed and gets
// only the newest); one view for that other replica alone (it completes its chain and commits); then a block that forks off
// below, shown to the victim and the remaining replica; closing views for those two. Every view of the skeleton is replaced by
// an arbitrary move with probability 1/6, the fork depth, the number of leading views, the audiences' order and the fetch window
// are drawn. n = 4: honest replicas 0 (victim), 1, 2 in the audience bit masks.
func genWithholdStrategy(rt *rapid.T) stratCase {
	c := stratCase{Rules: rapid.SampledFrom(AllRules).Draw(rt, "rules"), N: 4, Victims: 1, Iso: true}
	c.Warm = rapid.IntRange(0, 2).Draw(rt, "warm")
	c.ServeBack = rapid.IntRange(0, 3).Draw(rt, "serveback")
	c.ServeEvery = rapid.SampledFrom([]int{0, 0, 2, 2, 3}).Draw(rt, "serve-every")
	c.IsoAll = rapid.Bool().Draw(rt, "iso-all")
	o1, o2 := 2, 4
	if rapid.Bool().Draw(rt, "swap") {
		o1, o2 = o2, o1
	}
	var sk []sview
	for i := rapid.IntRange(1, 3).Draw(rt, "others-only"); i > 0; i-- {
		sk = append(sk, sview{Ext: 0, Aud: 8 + o1 + o2, Ext2: -1})
	}
	sk = append(sk, sview{Ext: 0, Aud: 8 + 1 + o1, Ext2: -1})
	for i := rapid.IntRange(0, 2).Draw(rt, "one-alone"); i > 0; i-- {
		sk = append(sk, sview{Ext: 0, Aud: 8 + o1, Ext2: -1})
	}
	sk = append(sk, sview{Ext: rapid.IntRange(1, 5).Draw(rt, "fork-depth"), Aud: 8 + 1 + o2, Ext2: -1})
	for i := range sk {
		if rapid.IntRange(0, 5).Draw(rt, "perturb") == 0 {
			sk[i] = sview{Ext: rapid.IntRange(0, 4).Draw(rt, "ext"), Aud: 8 + rapid.IntRange(1, 7).Draw(rt, "aud"), Ext2: -1, Late: rapid.Bool().Draw(rt, "late")}
		}
	}
	c.Views = sk
	c.Tail = 8 + 1 + o2
	if rapid.IntRange(0, 4).Draw(rt, "tail-all") == 0 {
		c.Tail = 0
	}
	c.TailLen = rapid.IntRange(3, 5).Draw(rt, "taillen")
	return c
}

// TestC01WithholdStrategies: the C01 ledger oracle over strategies in which a cut-off replica has to fetch the ancestors of a
// proposal from the Byzantine leader and is given only some of them.
func TestC01WithholdStrategies(t *testing.T) {
	common.Check(t, "C01", "TestC01WithholdStrategies", 3000, 100000, genWithholdStrategy, stratProp)
}
