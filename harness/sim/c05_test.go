package sim

// C05 — progress resumes once a quorum of honest replicas is synchronous.

import (
	"fmt"
	"testing"

	"github.com/relab/hotstuff"
	"github.com/relab/hotstuff/verifx/common"
	"pgregory.net/rapid"
)

type c05Case struct {
	Cfg   Config
	Iso   []int  // replica ids that are alive but cut off during the synchronous suffix (outside the quorum Q)
	Steps []Step // the fault prefix
}

type memberState struct {
	view    hotstuff.View
	qcView  hotstuff.View
	commits int
}

func snapshot(st *Stack) memberState {
	return memberState{st.VS.View(), st.VS.HighQC().View(), len(st.Commits)}
}

// inQ reports whether a replica id is a member of the synchronous quorum.
func (c *c05Case) inQ(id hotstuff.ID) bool {
	return !contains(c.Cfg.Crashed, int(id)) && !contains(c.Iso, int(id))
}

func c05Prop(c c05Case) common.Result {
	cl, err := New(c.Cfg)
	if err != nil {
		return common.Fail("harness", "cluster: %v", err)
	}
	defer cl.Close()
	cl.Start()
	cl.Run(c.Steps, nil)
	if cl.Inconclusive != "" {
		common.Get("C05").Inconclusive(cl.Inconclusive)
		return common.OK(false, "", "inconclusive")
	}
	var Q []*Stack
	for _, st := range cl.Stacks {
		if st.Live() && c.inQ(st.ID) {
			Q = append(Q, st)
		}
	}
	if len(Q) < cl.Quorum() {
		return common.Fail("harness", "Q has %d members, quorum %d", len(Q), cl.Quorum())
	}
	// --- the suffix: Q is synchronous, everybody else is cut off; messages from or to outsiders are lost
	for i := range cl.Part {
		cl.Part[i] = 1
	}
	for _, st := range Q {
		cl.Part[st.Idx] = 0
	}
	var keep []Msg
	for _, m := range cl.Pool {
		if cl.Part[m.From] == 0 && cl.Part[m.To] == 0 {
			keep = append(keep, m)
		}
	}
	cl.Pool = keep
	start := map[int]memberState{}
	var minV, maxV hotstuff.View
	bag := 0
	for i, st := range Q {
		s := snapshot(st)
		start[st.Idx] = s
		if i == 0 || s.view < minV {
			minV = s.view
		}
		if s.view > maxV {
			maxV = s.view
		}
		bag += st.Synch.VerifPendingTimeouts()
	}
	lag := int(maxV - minV)
	chain := ChainLength(c.Cfg.Rules)
	bound := hotstuff.View(4*chain + 2)
	progressed := func() bool {
		for _, st := range Q {
			if len(st.Commits) <= start[st.Idx].commits {
				return false
			}
		}
		return true
	}
	qLed := func(from, to hotstuff.View) int { // views in (from, to] led by members of Q
		n := 0
		for v := from + 1; v <= to; v++ {
			if c.inQ((leaderRot{cl, Q[0]}).GetLeader(v)) {
				n++
			}
		}
		return n
	}
	describe := func() string {
		s := ""
		for _, st := range Q {
			s += fmt.Sprintf(" r%d[view %d, highQC view %d, highTC view %d, commits %d (+%d)]", st.ID, st.VS.View(), st.VS.HighQC().View(), st.VS.HighTC().View(), len(st.Commits), len(st.Commits)-start[st.Idx].commits)
		}
		return s
	}
	maxRounds := 3*(lag+int(bound)) + 12
	idleRounds := 0
	rounds := 0
	for ; rounds < maxRounds && !progressed(); rounds++ {
		before := map[int]memberState{}
		for _, st := range Q {
			before[st.Idx] = snapshot(st)
		}
		for g := 0; g < 400 && len(cl.deliverable()) > 0 && !progressed(); g++ {
			cl.Burst(1)
		}
		if progressed() {
			break
		}
		changed := false
		var cur hotstuff.View
		for _, st := range Q {
			if snapshot(st) != before[st.Idx] {
				changed = true
			}
			if st.VS.View() > cur {
				cur = st.VS.View()
			}
		}
		// (b) bounded progress, counted in views led by members of Q beyond the highest view at the start of the suffix
		if used := qLed(maxV, cur); used > int(bound) {
			return common.Fail("liveness:view-bound:"+c.Cfg.Rules, "synchronous quorum %v: %d views led by quorum members have passed since the suffix started at view %d (bound %d = 4*chain length+2) and not every member has committed a new block:%s\nconfig: %s",
				ids(Q), used, maxV, bound, describe(), c.Cfg.Describe())
		}
		// timers of the members that made no progress in this round fire
		fired := 0
		for _, st := range Q {
			if snapshot(st) == before[st.Idx] {
				cl.FireTimeout(st)
				fired++
			}
		}
		if !changed {
			idleRounds++
		} else {
			idleRounds = 0
		}
		// (a) no stall: two consecutive rounds (each ending with the timers of all idle members firing) changed nothing
		if idleRounds >= 3 {
			return common.Fail("liveness:stall:"+c.Cfg.Rules, "synchronous quorum %v stalls: in %d consecutive rounds (all messages delivered, then the timers of all idle members fired) no member changed its view, high QC or commit count:%s\nsuffix started with views %d..%d\nconfig: %s",
				ids(Q), idleRounds, describe(), minV, maxV, c.Cfg.Describe())
		}
	}
	if !progressed() {
		common.Get("C05").Inconclusive("round guard reached without stall or bound violation")
		return common.OK(false, "", "inconclusive-round-guard")
	}
	classes := []string{c.Cfg.Rules, fmt.Sprintf("n=%d", c.Cfg.N), fmt.Sprintf("lag=%d", min(lag, 6)), fmt.Sprintf("rounds=%d", min(rounds, 8))}
	if len(c.Cfg.Crashed) > 0 {
		classes = append(classes, "crashed")
	}
	if len(c.Iso) > 0 {
		classes = append(classes, "isolated-outsiders")
	}
	if bag > 0 {
		classes = append(classes, "stale-timeouts-in-collector")
	}
	return common.OK(lag >= 2 || bag > 0, fmt.Sprintf("%s|%v|%v", c.Cfg.Describe(), c.Iso, c.Steps), classes...)
}

func ids(l []*Stack) []int {
	var o []int
	for _, s := range l {
		o = append(o, int(s.ID))
	}
	return o
}

func genC05(rt *rapid.T) c05Case {
	cfg := Config{}
	cfg.N = rapid.SampledFrom([]int{4, 4, 7}).Draw(rt, "n")
	cfg.Rules = rapid.SampledFrom(AllRules).Draw(rt, "rules")
	cfg.Crypto = rapid.SampledFrom([]string{"fast", "fast", "fast", "fast", "fast", "fast", "ecdsa", "eddsa"}).Draw(rt, "crypto")
	cfg.Batch = rapid.IntRange(1, 2).Draw(rt, "batch")
	f := hotstuff.NumFaulty(cfg.N)
	perm := rapid.Permutation(seqInts(cfg.N)).Draw(rt, "perm")
	nc := rapid.IntRange(0, f).Draw(rt, "crashed")
	cfg.Crashed = append([]int(nil), perm[:nc]...)
	ni := rapid.IntRange(0, f-nc).Draw(rt, "isolated")
	c := c05Case{Iso: append([]int(nil), perm[nc:nc+ni]...)}
	q := perm[nc+ni:]
	switch rapid.IntRange(0, 5).Draw(rt, "leadermode") {
	case 0: // fixed leader inside Q
		cfg.Leaders = []int{q[rapid.IntRange(0, len(q)-1).Draw(rt, "fixed")]}
	case 1: // the repository's round robin: only when it has a run of chainLength+2 consecutive leaders inside Q
		// (otherwise the property's premise "the following views are led by members of that quorum" never holds long enough)
		run, best := 0, 0
		for v := 1; v <= 2*cfg.N; v++ {
			if contains(q, v%cfg.N+1) {
				run++
				if run > best {
					best = run
				}
			} else {
				run = 0
			}
		}
		if best < ChainLength(cfg.Rules)+2 {
			cfg.Leaders = []int{q[rapid.IntRange(0, len(q)-1).Draw(rt, "fixed2")]}
		}
	default: // scripted cycle over members of Q (short cycles often: the same few members lead again and again)
		l := rapid.SampledFrom([]int{2, 2, 3, 3, 3, 4, 5, 6, 7, 8, 9}).Draw(rt, "nleaders")
		for i := 0; i < l; i++ {
			cfg.Leaders = append(cfg.Leaders, q[rapid.IntRange(0, len(q)-1).Draw(rt, "leader")])
		}
	}
	c.Cfg = cfg
	// a member of the later synchronous quorum is preferably the one that was cut off before (it returns lagging behind)
	var pref []int
	for _, id := range q {
		pref = append(pref, id-1)
	}
	c.Steps = GenSchedule(rt, cfg, GenOpts{MaxSteps: 90, CutPrefer: pref})
	if len(c.Iso) > 0 && len(cfg.Crashed) == 0 && rapid.IntRange(0, 3).Draw(rt, "relay") == 0 {
		// the member that is cut off during the suffix is the only one that heard a round of timeouts first-hand
		c.Steps = GenRelaySteps(rt, cfg, c.Iso[0]-1)
	}
	return c
}

func TestC05Progress(t *testing.T) {
	common.Check(t, "C05", "TestC05Progress", 4000, 80000, genC05, c05Prop)
}

// ---- fault-free synchronous run: every view extends the chain by a certified block; commits trail by the chain length ----

// knownSlowCollector is the fingerprint of open finding 54.
const knownSlowCollector = "fast-hotstuff-collector-with-slower-timer-loses-its-view"

type syncCase struct {
	Cfg    Config
	Rounds int
	SlowLink int `json:",omitempty"` // > 0 (with Slow): the direct link from this replica to the slow-timer replica is slower than the two-hop paths - its messages to that replica arrive after everything else that is in flight
	Slow   int `json:",omitempty"` // > 0: the view timer of this replica is slower than the others': it fires after the others' timeout messages have been delivered (all messages still arrive long before any timer)
}

func syncProp(c syncCase) common.Result {
	cl, err := New(c.Cfg)
	if err != nil {
		return common.Fail("harness", "cluster: %v", err)
	}
	defer cl.Close()
	cl.Start()
	chain := ChainLength(c.Cfg.Rules)
	check := func() (string, string) {
		// every proposed block: views 1..N, one block per view, each certifying and extending its predecessor
		blocks := cl.AllBlk[1:] // without genesis
		for i, b := range blocks {
			prev := hotstuff.GetGenesis()
			if i > 0 {
				prev = blocks[i-1]
			}
			if b.View() != hotstuff.View(i+1) || b.Parent() != prev.Hash() || b.QuorumCert().BlockHash() != prev.Hash() {
				return "sync:chain-shape", fmt.Sprintf("proposal #%d is %s with parent %s and certificate for %s; in a fault-free synchronous run view %d must extend and certify the block of view %d",
					i+1, blockName(b), b.Parent().SmallString(), b.QuorumCert().BlockHash().SmallString(), i+1, i)
			}
		}
		for _, st := range cl.Stacks {
			// newest proposal this replica has handled
			var newest hotstuff.View
			if st.proposals > 0 {
				for _, b := range blocks {
					if b.Proposer() == st.ID && b.View() > newest {
						newest = b.View()
					}
				}
			}
			for _, rc := range st.Received {
				if p, ok := rc.Payload.(hotstuff.ProposeMsg); ok && p.Block.View() > newest {
					newest = p.Block.View()
				}
			}
			want := int(newest) - chain
			if want < 0 {
				want = 0
			}
			if len(st.Commits) != want {
				return "sync:commit-lag", fmt.Sprintf("replica %d has handled the proposal of view %d and committed %d blocks; commits must trail the newest block by exactly the chain length %d (want %d)", st.ID, newest, len(st.Commits), chain, want)
			}
			for i, b := range st.Commits {
				if b.View() != hotstuff.View(i+1) {
					return "sync:commit-gap", fmt.Sprintf("replica %d: commit #%d is the block of view %d", st.ID, i, b.View())
				}
			}
		}
		return "", ""
	}
	views := hotstuff.View(0)
	iterations := c.Rounds * 5
	for it := 0; it < iterations; it++ {
		if len(cl.deliverable()) > 0 {
			cl.Burst(1)
			if fp, msg := check(); fp != "" && cl.Inconclusive == "" {
				if c.Slow > 0 && c.Cfg.Rules == "fasthotstuff" && (fp == "sync:chain-shape" || fp == "sync:commit-lag") {
					return common.Fail(knownSlowCollector, "%s\n(the view timer of replica %d fires after the others' timeout messages were delivered)\nconfig: %s", msg, c.Slow, c.Cfg.Describe())
				}
				return common.Fail(fp+":"+c.Cfg.Rules, "%s\nconfig: %s", msg, c.Cfg.Describe())
			}
			continue
		}
		// nothing is in flight: the current view can only end by its timers
		var slow *Stack
		for _, st := range cl.liveStacks() {
			if c.Slow > 0 && int(st.ID) == c.Slow {
				slow = st
				continue
			}
			cl.FireTimeout(st)
		}
		if slow != nil {
			// the others' timeout messages travel first; then the slow timer fires (for the view the replica is in by then)
			var held []Msg
			for k := 0; k < 4 && len(cl.deliverable()) > 0; k++ {
				if c.SlowLink > 0 && c.SlowLink != c.Slow {
					// what the slow link carries stays in flight while everything else (including what other replicas
					// send on after receiving it) is delivered
					for i := 0; i < len(cl.Pool); {
						if m := cl.Pool[i]; int(cl.Stacks[m.From].ID) == c.SlowLink && m.To == slow.Idx {
							held = append(held, cl.remove(i))
							continue
						}
						i++
					}
				}
				cl.Burst(1)
			}
			cl.Pool = append(cl.Pool, held...)
			for k := 0; k < 2 && len(cl.deliverable()) > 0; k++ {
				cl.Burst(1)
			}
			cl.FireTimeout(slow)
		}
	}
	for _, st := range cl.Stacks {
		if st.VS.View() > views {
			views = st.VS.View()
		}
	}
	if cl.Inconclusive != "" {
		// the run was cut short by a harness guard (an event loop that did not quiesce within the guard, or the watchdog on a
		// loaded machine): nothing can be said about progress
		common.Get("C05").Inconclusive(cl.Inconclusive)
		return common.OK(false, "", "sync inconclusive")
	}
	newest := len(cl.AllBlk) - 1
	if newest < c.Rounds && c.Slow > 0 && c.Cfg.Rules == "fasthotstuff" {
		return common.Fail(knownSlowCollector, "after %d iterations only %d blocks were proposed and replicas are in view %d (the view timer of replica %d fires after the others' timeout messages were delivered)\nconfig: %s", iterations, newest, views, c.Slow, c.Cfg.Describe())
	}
	if newest < c.Rounds {
		return common.Fail("sync:no-progress:"+c.Cfg.Rules, "after %d iterations (deliver everything in flight; when nothing is in flight all timers fire) only %d blocks were proposed and replicas are in view %d: not every view extends the chain\nconfig: %s", iterations, newest, views, c.Cfg.Describe())
	}
	cls := []string{c.Cfg.Rules, fmt.Sprintf("n=%d", c.Cfg.N)}
	if c.Slow > 0 {
		cls = append(cls, "sync one-slow-timer")
	}
	return common.OK(true, c.Cfg.Describe()+fmt.Sprint(c.Rounds, c.Slow, c.SlowLink), cls...)
}

func TestC05FaultFree(t *testing.T) {
	common.Check(t, "C05", "TestC05FaultFree", 240, 6000, func(rt *rapid.T) syncCase {
		cfg := Config{N: rapid.SampledFrom([]int{4, 7}).Draw(rt, "n"), Rules: rapid.SampledFrom(AllRules).Draw(rt, "rules"),
			Crypto: rapid.SampledFrom([]string{"fast", "fast", "ecdsa", "eddsa"}).Draw(rt, "crypto"), Batch: rapid.IntRange(1, 3).Draw(rt, "batch")}
		switch rapid.IntRange(0, 2).Draw(rt, "lm") {
		case 0:
			cfg.Leaders = []int{rapid.IntRange(1, cfg.N).Draw(rt, "fixed")}
		case 1:
		default:
			for i := rapid.IntRange(2, 9).Draw(rt, "nl"); i > 0; i-- {
				cfg.Leaders = append(cfg.Leaders, rapid.IntRange(1, cfg.N).Draw(rt, "l"))
			}
		}
		sc := syncCase{Cfg: cfg, Rounds: rapid.IntRange(4, 14).Draw(rt, "rounds")}
		if rapid.IntRange(0, 2).Draw(rt, "slow-timer") == 0 {
			sc.Slow = rapid.IntRange(1, cfg.N).Draw(rt, "slow")
			if rapid.Bool().Draw(rt, "slow-link") {
				sc.SlowLink = rapid.IntRange(1, cfg.N).Draw(rt, "slow-link-from")
			}
		}
		return sc
	}, syncProp)
}
