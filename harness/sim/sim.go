// Package sim is a deterministic cluster simulator built from the REAL replica components of relab/hotstuff
// (event loop, block store, certificate authority, rulesets, view states, committer/voter/proposer, voting machine,
// clique, synchronizer with its timeout rules, command cache, ClientIO), wired with the public constructors exactly as
// twins/node.go does. Only the edges are replaced: the Sender puts messages into a global in-flight pool that the
// schedule delivers, drops, duplicates or holds; timers never fire (view duration of many hours) and local timeouts are
// schedule actions; the crypto base is wrapped by a tap that logs every signature an honest replica produces.
//
// A run is a pure function of (Config, []Step): nothing is drawn while the replicas run.
package sim

import (
	"github.com/relab/hotstuff/verifx/common"
	"math/big"

	bls12 "github.com/kilic/bls12-381"
	"sync/atomic"
	"bytes"
	"context"
	"crypto/sha256"
	"encoding"
	"fmt"
	"sort"
	"time"

	"github.com/relab/hotstuff"
	"github.com/relab/hotstuff/core"
	"github.com/relab/hotstuff/core/eventloop"
	"github.com/relab/hotstuff/internal/proto/clientpb"
	"github.com/relab/hotstuff/internal/tree"
	"github.com/relab/hotstuff/protocol"
	"github.com/relab/hotstuff/protocol/comm"
	"github.com/relab/hotstuff/protocol/consensus"
	"github.com/relab/hotstuff/protocol/rules"
	"github.com/relab/hotstuff/protocol/synchronizer"
	"github.com/relab/hotstuff/protocol/votingmachine"
	"github.com/relab/hotstuff/security/blockchain"
	"github.com/relab/hotstuff/security/cert"
	"github.com/relab/hotstuff/security/crypto"
	"github.com/relab/hotstuff/server"
	"github.com/relab/hotstuff/verifx/kit"
)

// Config describes a cluster and its faults.
type Config struct {
	N       int    // number of replica ids
	Rules   string // chainedhotstuff | simplehotstuff | fasthotstuff (the latter with aggregate QCs, as in production)
	Crypto  string // fast | ecdsa | eddsa
	Cache   int    // signature cache capacity (0 = off)
	Twins   []int  // replica ids that run as two honest stacks sharing id and key
	Actors  []int  // replica ids controlled by the scripted Byzantine actor (no honest stack)
	Crashed []int  // replica ids that are silent from the start
	Leaders []int  // leader of view v is Leaders[(v-1) mod len]; empty = the repository's round robin
	Batch   int    // commands per block
	NoFetch    bool // block requests get no answer (the peers that hold the block are slow or unreachable just then)
	AsyncVotes bool // votes are verified concurrently (the production default) instead of synchronously
	ActorReuseCmds bool // every other block of the actor re-proposes the commands of an earlier block
	ActorBridges bool // a partition separates honest replicas only: the Byzantine actor reaches, and is reached by, both sides
	LoopCap   int  // capacity of every replica's event queue (0: 65536, so that nothing is ever dropped; the repository's wiring uses 100)
	Latency   bool // every server has a latency matrix (all replicas at one location: zero delay), as experiments with locations have
	ActorAuto bool // the actor behaves honestly by default (votes, collects, proposes); scripted actions are the deviations
	ByView  []ViewSpec // optional Twins-style scenario: partitions (and leader) chosen by the SENDER's view, messages dropped at send time
	KauriTree bool // the replicas' configurations carry a Kauri tree (branch factor 2, default positions); only the server's receive path looks at it here
	RogueVictims []int // bls12 with one actor: the actor REGISTERS the public key x*G1 - sum(keys of these honest replicas) with a junk proof of possession and signs with x (rogue-key attack on aggregate verification)
}

// ViewSpec is one view of a Twins-style scenario.
type ViewSpec struct {
	Leader     int
	Partitions [][]int // node indices
}

// Step is one schedule action; fields are interpreted modulo the current state (a step that names nothing is a no-op).
type Step struct {
	K int // see the K* constants
	A int
	B int
	C int
}

// schedule action kinds
const (
	KDeliver   = iota // deliver the (A mod #deliverable)-th deliverable in-flight message
	KDrop             // drop the (A mod #pool)-th in-flight message
	KDup              // deliver a copy of the (A mod #deliverable)-th deliverable message, keeping the original in flight
	KTimeout          // the (B mod #stacks)-th live stack's timer fires for its current view
	KPartition        // new partition assignment derived from A (3 groups); messages across groups are held
	KHeal             // all nodes in one partition
	KBurst            // deliver everything deliverable in FIFO order until quiescent (at most C+1 rounds of the current pool)
	KActor            // scripted Byzantine action (A = kind, B, C = parameters)
	KTimeoutAll       // every live honest stack's timer fires
	KDeliverTo        // deliver the oldest deliverable message addressed to stack (B mod #stacks)
	KDropCross        // every in-flight message that crosses the current partition is lost (a partition that drops instead of holding)
	KTimeoutPart      // the timers of all live stacks in partition group (B mod 3) fire
	KDropAll          // every in-flight message is lost
	kCount
)

// Msg is an in-flight message.
type Msg struct {
	From, To int // stack indices (From may be an actor)
	Payload  any
	Step     int
}

// Recv is a delivered payload.
type Recv struct {
	Payload any
	Step    int
	From    int
}

// SignRec is one signature produced through the tap.
type SignRec struct {
	Stack int
	ID    hotstuff.ID
	Step  int
	Kind  string // vote | view-timeout | agg-timeout | other
	Block *hotstuff.Block
	View  hotstuff.View // vote: block view; view-timeout: signed view; agg-timeout: message view
	Msg   []byte
}

// Stack is one replica stack (an honest replica, one of two twins, or a placeholder for an actor / crashed replica).
type Stack struct {
	Idx     int
	ID      hotstuff.ID
	Twin    int    // 0 = no twin, 1/2 = twin number
	Kind    string // honest | twin | actor | crashed
	Cl      *Cluster
	Cfg     *core.RuntimeConfig
	EL      *eventloop.EventLoop
	BC      *blockchain.Blockchain
	Auth    *cert.Authority
	VS      *protocol.ViewStates
	Cache   *clientpb.CommandCache
	Prop    *consensus.Proposer
	Voter   *consensus.Voter
	Synch   *synchronizer.Synchronizer
	CIO     *server.ClientIO
	Srv     *server.Server
	Rules   consensus.Ruleset
	base    crypto.Base
	// monitors
	Commits     []*hotstuff.Block
	ViewChanges []hotstuff.ViewChangeEvent
	Execs       []*clientpb.Batch
	Aborts      []*clientpb.Batch
	Applied     []*clientpb.Command // commands the application really applied, recovered from the digest (see execMonitor)
	AppliedErr  string
	preHash     []byte
	Received    []Recv // payloads delivered to this stack
	proposals   int
}

// Live reports whether the stack runs replica code.
func (s *Stack) Live() bool { return s.Kind == "honest" || s.Kind == "twin" }

// Cluster is the simulated system.
type Cluster struct {
	c08QCs []hotstuff.QuorumCert // C08: genuine certificates for two blocks everybody holds
	Cfg     Config
	Stacks  []*Stack
	ByID    map[hotstuff.ID][]*Stack
	Pool    []Msg
	Log     []Msg // every message ever sent (the network adversary's knowledge)
	Part    []int // partition of each stack
	StepNo  int
	Signs   []SignRec
	ActorSigns map[string]map[hotstuff.ID]bool // message bytes -> actor ids that signed them
	Blocks  map[string]*hotstuff.Block // registry of block bytes -> block (for classifying signatures)
	AllBlk  []*hotstuff.Block          // all blocks ever proposed by anyone, in first-appearance order
	Actor   *Actor
	Faults  map[string]int // counters of fault events (drop, partition, timeout, dup, actor message accepted ...)
	cmdSeq  [3]uint64
	maxProposed [3]uint64 // highest sequence number per client that appears in any proposed block
	Starved int       // times the watchdog had to cancel a blocked CommandCache.Get (harness guard)
	Fetches int
	Held    int
	keys    map[hotstuff.ID]hotstuff.PrivateKey
	Inconclusive string
	wdStack atomic.Value
	wdSince atomic.Int64
	wdFired atomic.Int64
	wdStop  chan struct{}
	closed  bool
}

// Leader returns the leader of a view under the configured schedule.
func (cfg *Config) Leader(v hotstuff.View) hotstuff.ID {
	if len(cfg.Leaders) > 0 {
		return hotstuff.ID(cfg.Leaders[int((uint64(v)+uint64(len(cfg.Leaders))-1)%uint64(len(cfg.Leaders)))])
	}
	return hotstuff.ID(uint64(v)%uint64(cfg.N) + 1)
}

type leaderRot struct{ cl *Cluster; st *Stack }

func (l leaderRot) GetLeader(v hotstuff.View) hotstuff.ID {
	cfg := &l.cl.Cfg
	if len(cfg.ByView) > 0 {
		i := int(v) - 1
		if i >= 0 && i < len(cfg.ByView) {
			return hotstuff.ID(cfg.ByView[i].Leader)
		}
	}
	return cfg.Leader(v)
}

func contains(l []int, x int) bool {
	for _, y := range l {
		if y == x {
			return true
		}
	}
	return false
}

// chainLength of a ruleset name.
func ChainLength(rulesName string) int {
	if rulesName == rules.NameFastHotStuff {
		return 2
	}
	return 3
}

// New builds a cluster.
func New(cfg Config) (*Cluster, error) {
	if cfg.Batch < 1 {
		cfg.Batch = 1
	}
	cl := &Cluster{Cfg: cfg, ByID: map[hotstuff.ID][]*Stack{}, Blocks: map[string]*hotstuff.Block{}, Faults: map[string]int{}, keys: map[hotstuff.ID]hotstuff.PrivateKey{}, ActorSigns: map[string]map[hotstuff.ID]bool{}}
	scheme := cfg.Crypto
	if scheme == "fast" {
		scheme = "" // keys are not needed
	}
	var ks []hotstuff.PrivateKey
	if scheme != "" {
		ks = kit.Keys(scheme, cfg.N)
	}
	for id := 1; id <= cfg.N; id++ {
		var key hotstuff.PrivateKey
		if scheme != "" {
			key = ks[id-1]
		} else {
			key = fastKey{id: hotstuff.ID(id)}
		}
		cl.keys[hotstuff.ID(id)] = key
		kinds := []string{"honest"}
		switch {
		case contains(cfg.Actors, id):
			kinds = []string{"actor"}
		case contains(cfg.Crashed, id):
			kinds = []string{"crashed"}
		case contains(cfg.Twins, id):
			kinds = []string{"twin", "twin"}
		}
		for t, kind := range kinds {
			st := &Stack{Idx: len(cl.Stacks), ID: hotstuff.ID(id), Kind: kind, Cl: cl}
			if kind == "twin" {
				st.Twin = t + 1
			}
			cl.Stacks = append(cl.Stacks, st)
			cl.ByID[st.ID] = append(cl.ByID[st.ID], st)
		}
	}
	cl.Part = make([]int, len(cl.Stacks))
	for _, st := range cl.Stacks {
		if err := cl.wire(st); err != nil {
			return nil, err
		}
	}
	var roguePub hotstuff.PublicKey
	var rogueMeta map[string]string
	if len(cfg.RogueVictims) > 0 && cfg.Crypto == "bls12" && len(cfg.Actors) > 0 {
		g1 := bls12.NewG1()
		x := new(big.Int).SetBytes(cl.keys[hotstuff.ID(cfg.Actors[0])].(*crypto.BLS12PrivateKey).ToBytes())
		pk := g1.MulScalarBig(&bls12.PointG1{}, &bls12.G1One, x)
		for _, v := range cfg.RogueVictims {
			vp, err := g1.FromCompressed(cl.keys[hotstuff.ID(v)].Public().(*crypto.BLS12PublicKey).ToBytes())
			if err != nil {
				return nil, err
			}
			g1.Sub(pk, pk, vp)
		}
		rp := &crypto.BLS12PublicKey{}
		if err := rp.FromBytes(g1.ToCompressed(pk)); err != nil {
			return nil, err
		}
		roguePub = rp
		// a well-formed point that is not a proof of possession of the rogue key: the proof of an honest replica
		rogueMeta = map[string]string{"bls12-pop-bin": cl.ByID[hotstuff.ID(cfg.RogueVictims[0])][0].Cfg.ConnectionMetadata()["bls12-pop-bin"]}
	}
	for _, st := range cl.Stacks {
		for id := 1; id <= cfg.N; id++ {
			info := &hotstuff.ReplicaInfo{ID: hotstuff.ID(id), PubKey: cl.keys[hotstuff.ID(id)].Public(), Metadata: cl.ByID[hotstuff.ID(id)][0].Cfg.ConnectionMetadata()}
			if roguePub != nil && id == cfg.Actors[0] {
				info.PubKey, info.Metadata = roguePub, rogueMeta
			}
			st.Cfg.AddReplica(info)
		}
	}
	if len(cfg.Actors) > 0 {
		cl.Actor = newActor(cl)
	}
	cl.register(hotstuff.GetGenesis())
	cl.wdStop = make(chan struct{})
	go cl.watchdog(cl.wdStop)
	return cl, nil
}

func (cl *Cluster) newBase(cfg *core.RuntimeConfig) crypto.Base {
	switch cl.Cfg.Crypto {
	case "ecdsa":
		return crypto.NewECDSA(cfg)
	case "eddsa":
		return crypto.NewEDDSA(cfg)
	case "bls12":
		b, err := crypto.NewBLS12(cfg)
		if err != nil {
			panic(err)
		}
		return b
	}
	return &fastBase{cfg: cfg}
}

func (cl *Cluster) wire(st *Stack) error {
	var opts []core.RuntimeOption
	if !cl.Cfg.AsyncVotes {
		opts = append(opts, core.WithSyncVerification())
	}
	if cl.Cfg.Rules == rules.NameFastHotStuff {
		opts = append(opts, core.WithAggregateQC())
	}
	if cl.Cfg.Cache > 0 {
		opts = append(opts, core.WithCache(uint(cl.Cfg.Cache)))
	}
	if cl.Cfg.KauriTree {
		opts = append(opts, core.WithKauriTree(tree.NewSimple(st.ID, 2, tree.DefaultTreePos(cl.Cfg.N))))
	}
	st.Cfg = core.NewRuntimeConfig(st.ID, cl.keys[st.ID], opts...)
	lg := kit.Logger(fmt.Sprintf("s%d", st.Idx))
	lc := uint(1 << 16)
	if cl.Cfg.LoopCap > 0 {
		lc = uint(cl.Cfg.LoopCap)
	}
	st.EL = eventloop.New(lg, lc)
	snd := &sender{st: st}
	st.BC = blockchain.New(st.EL, lg, snd)
	st.base = cl.newBase(st.Cfg)
	st.Auth = cert.NewAuthority(st.Cfg, st.BC, &tap{Base: st.base, st: st})
	if !st.Live() {
		return nil
	}
	rs, err := rules.New(lg, st.Cfg, st.BC, cl.Cfg.Rules)
	if err != nil {
		return err
	}
	st.Rules = rs
	st.VS, err = protocol.NewViewStates(st.BC, st.Auth)
	if err != nil {
		return err
	}
	lr := leaderRot{cl, st}
	cm := consensus.NewCommitter(st.EL, lg, st.BC, st.VS, rs)
	vm := votingmachine.New(lg, st.EL, st.Cfg, st.BC, st.Auth, st.VS)
	cq := comm.NewClique(st.Cfg, vm, lr, snd)
	st.Voter = consensus.NewVoter(st.Cfg, lr, rs, cq, st.Auth, cm)
	st.Cache = clientpb.NewCommandCache(uint32(cl.Cfg.Batch))
	st.Prop = consensus.NewProposer(st.EL, st.Cfg, st.BC, st.VS, rs, cq, st.Voter, st.Cache, cm)
	st.Synch = synchronizer.New(st.EL, lg, st.Cfg, st.Auth, lr, synchronizer.NewFixedDuration(1000*time.Hour),
		synchronizer.NewTimeoutRuler(st.Cfg, st.Auth), st.Prop, st.Voter, st.VS, snd)
	// C06 monitor, part 1 (runs BEFORE ClientIO handles the batch): remember the application digest state. ClientIO may
	// execute a batch when the event is added or when it is taken off the queue; both moments are observed, and the one
	// at which the digest moves is the execution.
	snap := func(e clientpb.ExecuteEvent) {
		if m, ok := st.CIO.Hash().(encoding.BinaryMarshaler); ok {
			st.preHash, _ = m.MarshalBinary()
		}
	}
	eventloop.Register(st.EL, snap, eventloop.Prioritize(), eventloop.UnsafeRunInAddEvent())
	eventloop.Register(st.EL, snap, eventloop.Prioritize())
	st.CIO = server.NewClientIO(st.EL, lg, st.Cache)
	var sopts []server.ServerOption
	if cl.Cfg.Latency {
		locs := make([]string, cl.Cfg.N)
		for i := range locs {
			locs[i] = "Oslo"
		}
		sopts = append(sopts, server.WithLatencies(st.ID, locs))
	}
	st.Srv = server.NewServer(st.EL, lg, st.Cfg, st.BC, sopts...)
	// part 2 (registered after ClientIO's own handler, so it runs after it): which commands of the batch were applied?
	eventloop.Register(st.EL, func(e clientpb.ExecuteEvent) { st.recoverApplied(e.Batch) }, eventloop.UnsafeRunInAddEvent())
	eventloop.Register(st.EL, func(e clientpb.ExecuteEvent) { st.recoverApplied(e.Batch) })
	// the replica's decisions are observed where they are made (when the event is added): the queue between the components
	// is bounded and drops its oldest entries when full, which is the queue's documented behaviour and not what these
	// monitors are about
	eventloop.Register(st.EL, func(c hotstuff.CommitEvent) { st.Commits = append(st.Commits, c.Block) }, eventloop.UnsafeRunInAddEvent())
	eventloop.Register(st.EL, func(e hotstuff.ViewChangeEvent) { st.ViewChanges = append(st.ViewChanges, e) }, eventloop.UnsafeRunInAddEvent())
	eventloop.Register(st.EL, func(e clientpb.ExecuteEvent) { st.Execs = append(st.Execs, e.Batch) }, eventloop.UnsafeRunInAddEvent())
	eventloop.Register(st.EL, func(e clientpb.AbortEvent) { st.Aborts = append(st.Aborts, e.Batch) }, eventloop.UnsafeRunInAddEvent())
	return nil
}

// Close stops the timers of all stacks (each advanceView arms an hours-long timer that would keep the cluster reachable).
func (cl *Cluster) Close() {
	if !cl.closed {
		cl.closed = true
		close(cl.wdStop)
	}
	for _, st := range cl.Stacks {
		if st.Live() {
			st.Synch.VerifStopTimer()
		}
	}
}

func (cl *Cluster) register(b *hotstuff.Block) {
	k := string(b.ToBytes())
	if _, ok := cl.Blocks[k]; !ok {
		cl.Blocks[k] = b
		cl.AllBlk = append(cl.AllBlk, b)
		// a proposer signs its own block before the block is disseminated (and thereby registered): classify late
		for i := len(cl.Signs) - 1; i >= 0 && i >= len(cl.Signs)-8; i-- {
			if r := &cl.Signs[i]; r.Kind != "vote" && string(r.Msg) == k {
				r.Kind, r.Block, r.View = "vote", b, b.View()
			}
		}
		for _, c := range b.Commands().GetCommands() {
			if c.ClientID >= 1 && c.ClientID <= 3 && c.SequenceNumber > cl.maxProposed[c.ClientID-1] {
				cl.maxProposed[c.ClientID-1] = c.SequenceNumber
			}
		}
	}
}

// ---- commands -------------------------------------------------------------------------------------------------

// topUp keeps every live stack's command cache far enough ahead that CommandCache.Get never blocks: the same client
// commands (3 clients, increasing sequence numbers, unique data) go to every stack.
func (cl *Cluster) topUp() {
	margin := uint64(12 * cl.Cfg.Batch)
	for {
		// commands that no proposed block contains yet are fresh for every stack, whatever part of the chain it knows
		var fresh uint64
		for c := 0; c < 3; c++ {
			fresh += cl.cmdSeq[c] - cl.maxProposed[c]
		}
		if fresh >= margin {
			return
		}
		for k := 0; k < int(margin); k++ {
			c := k % 3
			cl.cmdSeq[c]++
			seq := cl.cmdSeq[c]
			for _, st := range cl.Stacks {
				if st.Live() {
					st.Cache.Add(&clientpb.Command{ClientID: uint32(c + 1), SequenceNumber: seq, Data: []byte(fmt.Sprintf("c%d-%d;", c+1, seq))})
				}
			}
		}
	}
}

// ---- sender ---------------------------------------------------------------------------------------------------

type sender struct{ st *Stack }

func (s *sender) view() hotstuff.View {
	if s.st.VS != nil {
		return s.st.VS.View()
	}
	return 0
}

func (s *sender) post(to *Stack, payload any) {
	cl := s.st.Cl
	m := Msg{From: s.st.Idx, To: to.Idx, Payload: payload, Step: cl.StepNo}
	cl.Log = append(cl.Log, m)
	if to.Kind == "crashed" {
		return
	}
	if len(cl.Cfg.ByView) > 0 && !cl.sameByView(s.st.Idx, to.Idx, s.view()) {
		cl.Faults["dropped-by-scenario"]++
		return
	}
	cl.Pool = append(cl.Pool, m)
}

func (cl *Cluster) sameByView(a, b int, v hotstuff.View) bool {
	i := int(v) - 1
	if i < 0 {
		return true
	}
	if i >= len(cl.Cfg.ByView) {
		return true // beyond the scenario the network is whole again
	}
	for _, p := range cl.Cfg.ByView[i].Partitions {
		if contains(p, a) && contains(p, b) {
			return true
		}
	}
	return false
}

func (s *sender) bcast(payload any) {
	for _, to := range s.st.Cl.Stacks {
		if to.ID != s.st.ID { // not to self or twin
			s.post(to, payload)
		}
	}
}

func (s *sender) NewView(id hotstuff.ID, si hotstuff.SyncInfo) error {
	tos, ok := s.st.Cl.ByID[id]
	if !ok {
		return fmt.Errorf("replica %d not found", id)
	}
	for _, to := range tos {
		s.post(to, hotstuff.NewViewMsg{ID: s.st.ID, SyncInfo: si, FromNetwork: true})
	}
	return nil
}

func (s *sender) Vote(id hotstuff.ID, c hotstuff.PartialCert) error {
	tos, ok := s.st.Cl.ByID[id]
	if !ok {
		return fmt.Errorf("replica %d not found", id)
	}
	for _, to := range tos {
		s.post(to, hotstuff.VoteMsg{ID: s.st.ID, PartialCert: c})
	}
	return nil
}

func (s *sender) Timeout(m hotstuff.TimeoutMsg) { s.bcast(m) }

func (s *sender) Propose(p *hotstuff.ProposeMsg) {
	s.st.Cl.register(p.Block)
	s.st.proposals++
	s.bcast(*p)
}

func (s *sender) Sub([]hotstuff.ID) (core.Sender, error) { return s, nil }

// RequestBlock is answered synchronously from the stores of the stacks currently reachable from the caller; the actor
// answers from everything it knows, or refuses, as the schedule decided beforehand.
func (s *sender) RequestBlock(_ context.Context, h hotstuff.Hash) (*hotstuff.Block, bool) {
	cl := s.st.Cl
	cl.Fetches++
	if cl.Cfg.NoFetch {
		cl.Faults["fetch-unanswered"]++
		return nil, false
	}
	for _, o := range cl.Stacks {
		if o.Idx == s.st.Idx || !cl.reachable(s.st.Idx, o.Idx) {
			continue
		}
		switch o.Kind {
		case "honest", "twin":
			if b, ok := o.BC.LocalGet(h); ok {
				cl.Faults["fetch-served"]++
				return b, true
			}
		case "actor":
			if cl.Actor != nil && cl.Actor.ServeFetch {
				if cl.Actor.ServeEvery > 1 {
					cl.Actor.fetchSeen++
					if cl.Actor.fetchSeen%cl.Actor.ServeEvery != 0 {
						cl.Faults["fetch-unanswered-by-actor"]++
						continue
					}
				}
				if t, ok := cl.Actor.Twin[h]; ok {
					cl.Faults["fetch-served-other-block-with-same-hash"]++
					return t, true
				}
				for _, b := range cl.AllBlk {
					if b.Hash() == h && b.View() >= cl.Actor.ServeFrom {
						cl.Faults["fetch-served-by-actor"]++
						return b, true
					}
				}
			}
		}
	}
	return nil, false
}

func (cl *Cluster) reachable(a, b int) bool {
	if len(cl.Cfg.ByView) > 0 {
		var v hotstuff.View
		if cl.Stacks[a].VS != nil {
			v = cl.Stacks[a].VS.View()
		}
		return cl.sameByView(a, b, v)
	}
	return cl.Part[a] == cl.Part[b] || cl.bridged(a, b)
}

// bridged: with Config.ActorBridges a partition does not separate anybody from the Byzantine actor.
func (cl *Cluster) bridged(a, b int) bool {
	return cl.Cfg.ActorBridges && (cl.Stacks[a].Kind == "actor" || cl.Stacks[b].Kind == "actor")
}

// ---- tap ------------------------------------------------------------------------------------------------------

type tap struct {
	crypto.Base
	st *Stack
}

func (t *tap) Sign(m []byte) (hotstuff.QuorumSignature, error) {
	cl := t.st.Cl
	rec := SignRec{Stack: t.st.Idx, ID: t.st.ID, Step: cl.StepNo, Kind: "other", Msg: append([]byte(nil), m...)}
	if b, ok := cl.Blocks[string(m)]; ok {
		rec.Kind, rec.Block, rec.View = "vote", b, b.View()
	} else if len(m) == 8 {
		var v uint64
		for i := 7; i >= 0; i-- {
			v = v<<8 | uint64(m[i])
		}
		rec.Kind, rec.View = "view-timeout", hotstuff.View(v)
	} else if len(m) >= 12 {
		var v uint64
		for i := 11; i >= 4; i-- {
			v = v<<8 | uint64(m[i])
		}
		rec.Kind, rec.View = "agg-timeout", hotstuff.View(v)
	}
	cl.Signs = append(cl.Signs, rec)
	return t.Base.Sign(m)
}

// Verdict is what a property function returns: a failure found in a run that a harness guard cut short (an event loop that
// did not quiesce within the tick guard, a proposer released by the wall-clock watchdog on a loaded machine) decides nothing.
func (cl *Cluster) Verdict(prop string, r common.Result) common.Result {
	if cl != nil && cl.Inconclusive != "" && r.Err != "" {
		common.Get(prop).Inconclusive(cl.Inconclusive)
		return common.OK(false, "", "inconclusive")
	}
	return r
}

// ---- running --------------------------------------------------------------------------------------------------

const maxTicks = 20000

func (cl *Cluster) drain(st *Stack) {
	// Harness guard only: should CommandCache.Get ever block inside the single-threaded run (the top-up rule is meant
	// to make that impossible), the cluster's watchdog cancels the proposer's context through the event loop so that
	// the run goes on; the run is then reported as inconclusive, never as a violation.
	cl.wdStack.Store(st)
	cl.wdSince.Store(time.Now().UnixNano())
	defer cl.wdSince.Store(0)
	for i := 0; i < maxTicks; i++ {
		if !st.EL.Tick(context.Background()) {
			if cl.wdFired.Load() > 0 {
				cl.Starved = int(cl.wdFired.Load())
				cl.Inconclusive = "harness: a proposer waited for client commands (watchdog released it)"
			}
			return
		}
	}
	cl.Inconclusive = "event loop did not quiesce within the tick guard"
}

func (cl *Cluster) watchdog(stop chan struct{}) {
	t := time.NewTicker(2 * time.Second)
	defer t.Stop()
	for {
		select {
		case <-stop:
			return
		case <-t.C:
			since := cl.wdSince.Load()
			if since != 0 && time.Now().UnixNano()-since > int64(10*time.Second) {
				if st, ok := cl.wdStack.Load().(*Stack); ok && st != nil {
					cl.wdFired.Add(1)
					st.EL.AddEvent(hotstuff.TimeoutEvent{View: 0})
					cl.wdSince.Store(time.Now().UnixNano())
				}
			}
		}
	}
}

// Start lets the leader(s) of view 1 propose, as Synchronizer.Start / twins.Network.run do.
func (cl *Cluster) Start() {
	cl.topUp()
	for _, st := range cl.Stacks {
		if st.Live() && (leaderRot{cl, st}).GetLeader(1) == st.ID {
			p, err := st.Prop.CreateProposal(st.VS.SyncInfo())
			if err == nil {
				_ = st.Prop.Propose(&p)
			}
			cl.drain(st)
		}
	}
}

func (cl *Cluster) deliverable() []int {
	var idx []int
	for i, m := range cl.Pool {
		if len(cl.Cfg.ByView) > 0 || cl.Part[m.From] == cl.Part[m.To] || cl.bridged(m.From, m.To) {
			idx = append(idx, i)
		}
	}
	return idx
}

func (cl *Cluster) remove(i int) Msg {
	m := cl.Pool[i]
	cl.Pool = append(cl.Pool[:i:i], cl.Pool[i+1:]...)
	return m
}

// Deliver hands a payload to a stack and runs it to quiescence.
func (cl *Cluster) Deliver(m Msg) {
	to := cl.Stacks[m.To]
	switch to.Kind {
	case "actor":
		return // the actor already knows every message (cl.Log)
	case "crashed":
		return
	}
	if cl.Inconclusive != "" {
		return // the run is over (an event loop did not quiesce or a proposer starved): do not pile more work on it
	}
	cl.topUp()
	to.Received = append(to.Received, Recv{Payload: m.Payload, Step: cl.StepNo, From: m.From})
	to.EL.AddEvent(m.Payload)
	cl.drain(to)
}

// FireTimeout makes a stack's view timer fire for its current view.
func (cl *Cluster) FireTimeout(st *Stack) {
	if !st.Live() {
		return
	}
	if cl.Inconclusive != "" {
		return
	}
	cl.topUp()
	st.Synch.VerifStopTimer() // OnLocalTimeout re-arms the timer without stopping the previous one
	st.EL.AddEvent(hotstuff.TimeoutEvent{View: st.VS.View()})
	cl.drain(st)
	cl.Faults["timeout"]++
}

func (cl *Cluster) liveStacks() []*Stack {
	var l []*Stack
	for _, st := range cl.Stacks {
		if st.Live() {
			l = append(l, st)
		}
	}
	return l
}

func mod(a, n int) int {
	if n <= 0 {
		return 0
	}
	return ((a % n) + n) % n
}

// Apply interprets one schedule step.
func (cl *Cluster) Apply(s Step) {
	cl.StepNo++
	if cl.Actor != nil && cl.Cfg.ActorAuto {
		cl.Actor.AutoPilot()
	}
	switch mod(s.K, kCount) {
	case KDeliver:
		if d := cl.deliverable(); len(d) > 0 {
			cl.Deliver(cl.remove(d[mod(s.A, len(d))]))
		}
	case KDeliverTo:
		live := cl.liveStacks()
		if len(live) == 0 {
			return
		}
		target := live[mod(s.B, len(live))].Idx
		for _, i := range cl.deliverable() {
			if cl.Pool[i].To == target {
				cl.Deliver(cl.remove(i))
				break
			}
		}
	case KDrop:
		if len(cl.Pool) > 0 {
			cl.remove(mod(s.A, len(cl.Pool)))
			cl.Faults["drop"]++
		}
	case KDup:
		if d := cl.deliverable(); len(d) > 0 {
			cl.Deliver(cl.Pool[d[mod(s.A, len(d))]])
			cl.Faults["dup"]++
		}
	case KTimeout:
		if live := cl.liveStacks(); len(live) > 0 {
			cl.FireTimeout(live[mod(s.B, len(live))])
		}
	case KTimeoutAll:
		for _, st := range cl.liveStacks() {
			cl.FireTimeout(st)
		}
	case KPartition:
		if len(cl.Cfg.ByView) > 0 {
			return
		}
		a := mod(s.A, 1<<30)
		for i := range cl.Part {
			cl.Part[i] = a % 3
			a /= 3
		}
		cl.Faults["partition"]++
	case KHeal:
		for i := range cl.Part {
			cl.Part[i] = 0
		}
	case KBurst:
		cl.Burst(1 + mod(s.C, 6))
	case KDropCross:
		if len(cl.Cfg.ByView) > 0 {
			return
		}
		for i := len(cl.Pool) - 1; i >= 0; i-- {
			if m := cl.Pool[i]; cl.Part[m.From] != cl.Part[m.To] && !cl.bridged(m.From, m.To) {
				cl.remove(i)
				cl.Faults["drop"]++
			}
		}
	case KDropAll:
		cl.Faults["drop"] += len(cl.Pool)
		cl.Pool = nil
	case KTimeoutPart:
		for _, st := range cl.liveStacks() {
			if cl.Part[st.Idx] == mod(s.B, 3) {
				cl.FireTimeout(st)
			}
		}
	case KActor:
		if cl.Actor != nil {
			cl.Actor.Act(s.A, s.B, s.C)
		}
	}
}

// Burst delivers everything deliverable in FIFO order, for `rounds` generations of the pool (messages produced while a
// generation is delivered belong to the next one), or until nothing is deliverable.
func (cl *Cluster) Burst(rounds int) {
	for r := 0; r < rounds; r++ {
		d := cl.deliverable()
		if len(d) == 0 {
			return
		}
		// take the generation out of the pool first, keeping FIFO order
		gen := make([]Msg, 0, len(d))
		for k := len(d) - 1; k >= 0; k-- {
			gen = append(gen, cl.remove(d[k]))
		}
		for k := len(gen) - 1; k >= 0; k-- {
			cl.Deliver(gen[k])
		}
	}
}

// Run applies a whole schedule (calling after each step the observer, which may stop the run by returning false).
func (cl *Cluster) Run(steps []Step, after func() bool) {
	for _, s := range steps {
		cl.Apply(s)
		if after != nil && !after() {
			return
		}
		if cl.Inconclusive != "" {
			return
		}
	}
}

// HonestStacks returns the stacks of non-faulty replicas (neither twin, actor nor crashed).
func (cl *Cluster) HonestStacks() []*Stack {
	var l []*Stack
	for _, st := range cl.Stacks {
		if st.Kind == "honest" {
			l = append(l, st)
		}
	}
	return l
}

// Quorum is the quorum size of the cluster.
func (cl *Cluster) Quorum() int { return hotstuff.QuorumSize(cl.Cfg.N) }

// SortedIDs is a small helper for deterministic output.
func SortedIDs(m map[hotstuff.ID]bool) []int {
	var l []int
	for id := range m {
		l = append(l, int(id))
	}
	sort.Ints(l)
	return l
}


// recoverApplied finds the in-order subset of the batch whose data, written to the digest state saved before the batch
// was handled, yields the application's new digest. The duplicate filter of the code under test is thereby observed, not
// re-implemented. Commands carry unique data, so the subset is unique.
func (st *Stack) recoverApplied(batch *clientpb.Batch) {
	cmds := batch.GetCommands()
	if st.preHash == nil || len(cmds) > 12 {
		st.AppliedErr = "cannot observe the digest state"
		return
	}
	now := st.CIO.Hash().Sum(nil)
	for mask := 0; mask < 1<<uint(len(cmds)); mask++ {
		h := sha256.New()
		if err := h.(encoding.BinaryUnmarshaler).UnmarshalBinary(st.preHash); err != nil {
			st.AppliedErr = err.Error()
			return
		}
		for i, c := range cmds {
			if mask&(1<<uint(i)) != 0 {
				_, _ = h.Write(c.Data)
			}
		}
		if bytes.Equal(h.Sum(nil), now) {
			for i, c := range cmds {
				if mask&(1<<uint(i)) != 0 {
					st.Applied = append(st.Applied, c)
				}
			}
			return
		}
	}
	st.AppliedErr = fmt.Sprintf("after a batch of %d commands the digest equals no in-order subset of the batch applied to the previous state", len(cmds))
}
