package sim

// C12 (receive path) — "a receiver certifies, votes on and stores exactly what the sender created": the objects an honest
// replica creates travel through marshal, unmarshal, the REAL service handlers of server/server.go (with the peer's id in the
// connection metadata) and the conversion, and what the handlers put on the receiver's event loop must be the sender's object:
// same block hash, same bytes-to-sign, same signatures. With a Kauri tree a proposal is relayed by an inner node: it must still
// be the proposer's block.

import (
	"bytes"
	"fmt"
	"testing"

	"github.com/relab/gorums"
	"github.com/relab/hotstuff"
	"github.com/relab/hotstuff/core/eventloop"
	"github.com/relab/hotstuff/internal/proto/clientpb"
	"github.com/relab/hotstuff/internal/proto/hotstuffpb"
	"github.com/relab/hotstuff/verifx/common"
	"github.com/relab/hotstuff/verifx/kit"
	"google.golang.org/protobuf/proto"
	"pgregory.net/rapid"
)

type recvCase struct {
	Kauri   bool
	Crypto  string
	RPC     string // propose | vote | newview | timeout
	Creator int    // id of the replica that created the object (2..4; a proposal with a tree: 1..3)
	Via     int    // id of the peer the message arrives from (== Creator unless relayed down the tree)
	View    int
	NCmds   int
	WithTC  bool
}

func recvProp(c recvCase) (verdict common.Result) {
	cl, err := New(Config{N: 4, Rules: "chainedhotstuff", Crypto: c.Crypto, Batch: 1, KauriTree: c.Kauri})
	if err != nil {
		return common.Fail("harness", "cluster: %v", err)
	}
	defer cl.Close()
	defer func() { verdict = cl.Verdict("C12", verdict) }()
	cl.topUp() // the receiver may become leader through what it receives: its proposer must find client commands
	sub := cl.Stacks[0]
	if c.Kauri && c.RPC == "propose" {
		// with a tree, proposals travel from parent to child: the receiver is replica 4, whose parent is replica 2
		// (the root, replica 1, leads and never receives one)
		sub = cl.Stacks[3]
	}
	creator := cl.Stacks[c.Creator-1]
	svc := sub.Srv.VerifService()
	ctx := gorums.ServerCtx{Context: peerCtx(c.Via, 4)}
	desc := fmt.Sprintf("%s kauri=%v %s created by replica %d, arriving from replica %d", c.Crypto, c.Kauri, c.RPC, c.Creator, c.Via)
	// a certified parent so that certificates with real signatures travel along
	g := hotstuff.GetGenesis()
	b1 := kit.NewBlock(g.Hash(), kit.GenesisQC(), &clientpb.Batch{Commands: []*clientpb.Command{{ClientID: 1, SequenceNumber: 1, Data: []byte("x")}}}, 1, 2)
	var votes []hotstuff.QuorumSignature
	for _, st := range cl.Stacks[1:] {
		st.BC.Store(b1)
		votes = append(votes, sigOf(st, b1.ToBytes()))
	}
	sub.BC.Store(b1)
	qsig, err := creator.base.Combine(votes...)
	if err != nil {
		return common.Fail("harness", "combine: %v", err)
	}
	qc := hotstuff.NewQuorumCert(qsig, 1, b1.Hash())
	var tsigs []hotstuff.QuorumSignature
	for _, st := range cl.Stacks[1:] {
		tsigs = append(tsigs, sigOf(st, hotstuff.View(c.View).ToBytes()))
	}
	tsig, _ := creator.base.Combine(tsigs...)
	tc := hotstuff.NewTimeoutCert(tsig, hotstuff.View(c.View))
	rt := func(m proto.Message, into proto.Message) error {
		wire, err := proto.Marshal(m)
		if err != nil {
			return err
		}
		return proto.Unmarshal(wire, into)
	}
	switch c.RPC {
	case "propose":
		batch := &clientpb.Batch{}
		for i := 0; i < c.NCmds; i++ {
			batch.Commands = append(batch.Commands, &clientpb.Command{ClientID: 2, SequenceNumber: uint64(i + 1), Data: []byte{byte(i)}})
		}
		blk := kit.NewBlock(b1.Hash(), qc, batch, hotstuff.View(c.View+2), creator.ID)
		var got *hotstuff.ProposeMsg
		eventloop.Register(sub.EL, func(p hotstuff.ProposeMsg) { got = &p }, eventloop.Prioritize())
		var pb hotstuffpb.Proposal
		if err := rt(hotstuffpb.ProposalToProto(hotstuff.ProposeMsg{ID: creator.ID, Block: blk}), &pb); err != nil {
			return common.Fail("harness", "wire: %v", err)
		}
		svc.Propose(ctx, &pb)
		cl.drain(sub)
		if got == nil {
			return common.Fail("recv:proposal-lost", "the proposal did not reach the event loop\n%s", desc)
		}
		if got.Block.Hash() != blk.Hash() || !bytes.Equal(got.Block.ToBytes(), blk.ToBytes()) {
			return common.Fail("recv:block-changed", "the receiver holds block %s (proposer %d), the proposer created %s (proposer %d)\n%s", got.Block.Hash().SmallString(), got.Block.Proposer(), blk.Hash().SmallString(), blk.Proposer(), desc)
		}
		if got.ID != creator.ID {
			return common.Fail("recv:proposal-sender", "the proposal is attributed to replica %d, it was created by replica %d\n%s", got.ID, creator.ID, desc)
		}
		if !bytes.Equal(got.Block.QuorumCert().ToBytes(), qc.ToBytes()) {
			return common.Fail("recv:block-certificate-changed", "the block's certificate changed on the way\n%s", desc)
		}
	case "vote":
		pc := hotstuff.NewPartialCert(sigOf(creator, b1.ToBytes()), b1.Hash())
		var got *hotstuff.VoteMsg
		eventloop.Register(sub.EL, func(v hotstuff.VoteMsg) { got = &v }, eventloop.Prioritize())
		var pb hotstuffpb.PartialCert
		if err := rt(hotstuffpb.PartialCertToProto(pc), &pb); err != nil {
			return common.Fail("harness", "wire: %v", err)
		}
		svc.Vote(ctx, &pb)
		cl.drain(sub)
		if got == nil {
			return common.Fail("recv:vote-lost", "the vote did not reach the event loop\n%s", desc)
		}
		if got.ID != creator.ID || got.PartialCert.BlockHash() != b1.Hash() || got.PartialCert.Signer() != creator.ID || !bytes.Equal(got.PartialCert.ToBytes(), pc.ToBytes()) {
			return common.Fail("recv:vote-changed", "the vote arrived as (from %d, signer %d, block %s), sent (from %d, signer %d, block %s)\n%s", got.ID, got.PartialCert.Signer(), got.PartialCert.BlockHash().SmallString(), creator.ID, pc.Signer(), b1.Hash().SmallString(), desc)
		}
	case "newview", "timeout":
		si := hotstuff.NewSyncInfoWith(qc)
		if c.WithTC {
			si.SetTC(tc)
		}
		check := func(gsi hotstuff.SyncInfo) *common.Result {
			gq, ok := gsi.QC()
			if !ok || !bytes.Equal(gq.ToBytes(), qc.ToBytes()) || gq.View() != qc.View() || gq.BlockHash() != qc.BlockHash() {
				r := common.Fail("recv:syncinfo-qc-changed", "the certificate inside the sync info changed on the way\n%s", desc)
				return &r
			}
			gt, ok := gsi.TC()
			if ok != c.WithTC || (ok && (!bytes.Equal(gt.ToBytes(), tc.ToBytes()) || gt.View() != tc.View())) {
				r := common.Fail("recv:syncinfo-tc-changed", "the timeout certificate inside the sync info changed on the way (present %v, sent %v)\n%s", ok, c.WithTC, desc)
				return &r
			}
			return nil
		}
		if c.RPC == "newview" {
			var got *hotstuff.NewViewMsg
			eventloop.Register(sub.EL, func(v hotstuff.NewViewMsg) { got = &v }, eventloop.Prioritize())
			var pb hotstuffpb.SyncInfo
			if err := rt(hotstuffpb.SyncInfoToProto(si), &pb); err != nil {
				return common.Fail("harness", "wire: %v", err)
			}
			svc.NewView(ctx, &pb)
			cl.drain(sub)
			if got == nil || got.ID != creator.ID {
				return common.Fail("recv:newview-lost", "the new-view message did not arrive as sent by replica %d\n%s", creator.ID, desc)
			}
			if r := check(got.SyncInfo); r != nil {
				return *r
			}
		} else {
			tm := hotstuff.TimeoutMsg{ID: creator.ID, View: hotstuff.View(c.View), SyncInfo: si, ViewSignature: sigOf(creator, hotstuff.View(c.View).ToBytes())}
			var got *hotstuff.TimeoutMsg
			eventloop.Register(sub.EL, func(v hotstuff.TimeoutMsg) { got = &v }, eventloop.Prioritize())
			var pb hotstuffpb.TimeoutMsg
			if err := rt(hotstuffpb.TimeoutMsgToProto(tm), &pb); err != nil {
				return common.Fail("harness", "wire: %v", err)
			}
			svc.Timeout(ctx, &pb)
			cl.drain(sub)
			if got == nil || got.ID != creator.ID || got.View != tm.View || !bytes.Equal(got.ToBytes(), tm.ToBytes()) || got.ViewSignature == nil || !bytes.Equal(got.ViewSignature.ToBytes(), tm.ViewSignature.ToBytes()) {
				return common.Fail("recv:timeout-changed", "the timeout message did not arrive as sent by replica %d\n%s", creator.ID, desc)
			}
			if r := check(got.SyncInfo); r != nil {
				return *r
			}
		}
	}
	cls := []string{"recv " + c.RPC, "recv crypto=" + c.Crypto}
	if c.Kauri {
		cls = append(cls, "recv kauri")
		if c.Via != c.Creator {
			cls = append(cls, "recv relayed-down-the-tree")
		}
	}
	return common.OK(true, fmt.Sprintf("%+v", c), cls...)
}

func TestC12ReceivePath(t *testing.T) {
	common.Check(t, "C12", "TestC12ReceivePath", 1500, 30000, func(rt *rapid.T) recvCase {
		c := recvCase{Kauri: rapid.Bool().Draw(rt, "kauri")}
		c.Crypto = rapid.SampledFrom([]string{"ecdsa", "eddsa", "ecdsa", "eddsa", "bls12"}).Draw(rt, "crypto")
		c.RPC = rapid.SampledFrom([]string{"propose", "propose", "vote", "newview", "timeout"}).Draw(rt, "rpc")
		c.Creator = rapid.IntRange(2, 4).Draw(rt, "creator")
		c.Via = c.Creator
		if c.Kauri && c.RPC == "propose" {
			c.Creator = rapid.IntRange(1, 3).Draw(rt, "proposer") // the root's block passed on by the inner node, or the inner node's own
			c.Via = 2                                            // the receiver's parent in the tree
		}
		c.View = rapid.IntRange(1, 1000).Draw(rt, "view")
		c.NCmds = rapid.IntRange(0, 3).Draw(rt, "ncmds")
		c.WithTC = rapid.Bool().Draw(rt, "withtc")
		return c
	}, recvProp)
}
