package sim

// C03, origin of a proposal: "an honest replica signs a vote only for a proposal that comes from the designated leader of
// the block's view". At the replica's network entry point (server.Propose) the sender of a proposal is the authenticated
// peer of the connection; the block's Proposer field is whatever the sender wrote. Cases: a well-formed block for the
// replica's current view whose Proposer field names any replica, arriving over the connection of any peer (a member, a
// non-member, no id), with and without a Kauri tree configured. With a tree, proposals legitimately arrive from the
// tree parent (relayed), so the oracle only judges what no reading of the protocol allows: the replica signed the block
// although the peer that sent it is neither the leader of the view nor the replica's parent in the tree.

import (
	"fmt"
	"testing"

	"github.com/relab/gorums"
	"github.com/relab/hotstuff"
	"github.com/relab/hotstuff/internal/proto/clientpb"
	"github.com/relab/hotstuff/internal/proto/hotstuffpb"
	"github.com/relab/hotstuff/internal/tree"
	"github.com/relab/hotstuff/verifx/common"
	"github.com/relab/hotstuff/verifx/kit"
	"pgregory.net/rapid"
)

// With a Kauri tree the proposer of a proposal is whoever the message says. From a peer that is neither the leader nor the
// replica's parent that is finding 42 (fixed); from the parent itself it stays possible as long as proposals carry no
// signature of the leader: the open finding with the fingerprint knownKauriParent.
const (
	kauriOrigin      = "kauri-vote-for-proposal-of-unauthenticated-origin"
	knownKauriParent = "kauri-vote-for-proposal-forged-by-tree-parent"
)

type originCase struct {
	N       int
	Crypto  string
	Kauri   bool
	Subject int // 1..N: the replica that receives the proposal
	Via     int // authenticated peer id of the connection: 1..N member, N+5 non-member, 0, -1 no id
	Claimed int // the block's Proposer field
	Leader  int // leader of view 1
}

func originProp(c originCase) (verdict common.Result) {
	cl, err := New(Config{N: c.N, Rules: "chainedhotstuff", Crypto: c.Crypto, Batch: 1, KauriTree: c.Kauri, Leaders: []int{c.Leader}})
	if err != nil {
		return common.Fail("harness", "cluster: %v", err)
	}
	defer cl.Close()
	defer func() { verdict = cl.Verdict("C03", verdict) }()
	cl.Start()
	cl.topUp()
	sub := cl.Stacks[c.Subject-1]
	if sub.VS.View() != 1 {
		return common.Fail("harness", "the subject starts in view %d", sub.VS.View())
	}
	svc := sub.Srv.VerifService()
	b := kit.NewBlock(hotstuff.GetGenesis().Hash(), kit.GenesisQC(), &clientpb.Batch{Commands: []*clientpb.Command{{ClientID: 7, SequenceNumber: 1, Data: []byte("origin")}}}, 1, hotstuff.ID(c.Claimed))
	pb := hotstuffpb.BlockToProto(b)
	signsBefore := len(cl.Signs)
	votedBefore := sub.Voter.VerifLastVotedView()
	cl.StepNo++
	svc.Propose(gorums.ServerCtx{Context: peerCtx(c.Via, c.N)}, &hotstuffpb.Proposal{Block: pb})
	cl.drain(sub)
	signed := false
	for _, r := range cl.Signs[signsBefore:] {
		if r.Stack == sub.Idx && r.View == 1 && len(r.Msg) > 40 {
			signed = true
		}
	}
	if sub.Voter.VerifLastVotedView() > votedBefore {
		signed = true
	}
	parent := 0
	if c.Kauri {
		t := tree.NewSimple(sub.ID, 2, tree.DefaultTreePos(c.N))
		if p, ok := t.Parent(); ok {
			parent = int(p)
		}
	}
	desc := fmt.Sprintf("n=%d %s kauri-tree=%v: replica %d (tree parent %d) in view 1, leader of view 1 is replica %d; a well-formed block with Proposer field %d arrives over the connection of peer %d; the replica signed a vote: %v",
		c.N, c.Crypto, c.Kauri, c.Subject, parent, c.Leader, c.Claimed, c.Via, signed)
	fromLeader := c.Via == c.Leader
	fromParent := c.Kauri && parent != 0 && c.Via == parent
	if signed && !fromLeader && !fromParent {
		if c.Kauri {
			return common.Fail(kauriOrigin, "an honest replica voted for a proposal that came neither from the leader of the view nor from its parent in the tree\n%s", desc)
		}
		return common.Fail("vote-for-proposal-not-from-leader", "an honest replica voted for a proposal that did not come from the leader of the view\n%s", desc)
	}
	// the block was made by the peer that sent it; the leader never proposed it. A parent that is not the leader forged it.
	if signed && fromParent && !fromLeader {
		return common.Fail(knownKauriParent, "an honest replica voted for a block that its tree parent (not the leader) made up under the leader's name: relayed proposals carry nothing that ties them to the leader\n%s", desc)
	}
	// completeness of the normal path: the leader's own proposal, sent by the leader, is voted for
	// (with a tree the leader's proposal reaches a replica through its parent, nobody else sends it one)
	usualPath := (!c.Kauri && fromLeader) || (c.Kauri && fromParent)
	if !signed && usualPath && c.Claimed == c.Leader && c.Subject != c.Leader {
		return common.Fail("leader-proposal-not-voted", "the leader's well-formed proposal for the current view was not voted for\n%s", desc)
	}
	cls := []string{fmt.Sprintf("origin kauri=%v", c.Kauri), fmt.Sprintf("origin signed=%v", signed)}
	if c.Via != c.Claimed {
		cls = append(cls, "origin sender!=proposer-field")
	}
	return common.OK(c.Via != c.Claimed || c.Via != c.Leader, fmt.Sprintf("%+v", c), cls...)
}

func genOrigin(rt *rapid.T) originCase {
	c := originCase{N: rapid.SampledFrom([]int{4, 7}).Draw(rt, "n"), Crypto: rapid.SampledFrom([]string{"fast", "fast", "eddsa"}).Draw(rt, "crypto"), Kauri: rapid.Bool().Draw(rt, "kauri")}
	c.Leader = 1 // with a tree the root (position 0 = replica 1) leads
	if !c.Kauri {
		c.Leader = rapid.IntRange(1, c.N).Draw(rt, "leader")
	}
	c.Subject = rapid.IntRange(1, c.N).Draw(rt, "subject")
	c.Via = rapid.SampledFrom([]int{1, 2, 3, 4, 5, 6, 7, c.N + 5, 0, -1}).Draw(rt, "via")
	if c.Via > c.N && c.Via != c.N+5 {
		c.Via = 1 + c.Via%c.N
	}
	c.Claimed = rapid.SampledFrom([]int{c.Leader, c.Leader, c.Via, rapid.IntRange(0, c.N+1).Draw(rt, "any")}).Draw(rt, "claimed")
	if c.Claimed < 0 {
		c.Claimed = 0
	}
	return c
}

func TestC03ProposalOrigin(t *testing.T) {
	common.Check(t, "C03", "TestC03ProposalOrigin", 1500, 20000, genOrigin, originProp)
}
