package sim

import (
	"crypto/sha256"
	"fmt"

	"github.com/relab/hotstuff"
	"github.com/relab/hotstuff/core"
	"github.com/relab/hotstuff/security/crypto"
)

// fastBase is a keyed-hash multi-signature: sig_i(m) = SHA-256("k" || i || m)[:16]. It is a CORRECT crypto.Base for the
// simulator's threat model (the harness never lets the actor compute another replica's tag): Verify rejects unknown and
// repeated signers, empty signatures and wrong messages; Combine rejects overlaps. It only exists to make deep runs
// cheap (about 1 microsecond per operation); part of every run uses the repository's ECDSA/EdDSA instead.
type fastBase struct{ cfg *core.RuntimeConfig }

type fastKey struct{ id hotstuff.ID }

func (k fastKey) Public() hotstuff.PublicKey { return k.id }

type fastSig struct {
	signer hotstuff.ID
	tag    []byte
}

func (s *fastSig) Signer() hotstuff.ID { return s.signer }
func (s *fastSig) ToBytes() []byte     { return s.tag }

func fastTag(id hotstuff.ID, m []byte) []byte {
	h := sha256.New()
	_, _ = h.Write([]byte{'k'})
	_, _ = h.Write(id.ToBytes())
	_, _ = h.Write(m)
	return h.Sum(nil)[:16]
}

func (f *fastBase) Sign(m []byte) (hotstuff.QuorumSignature, error) {
	return crypto.NewMulti(&fastSig{f.cfg.ID(), fastTag(f.cfg.ID(), m)}), nil
}

func (f *fastBase) Combine(sigs ...hotstuff.QuorumSignature) (hotstuff.QuorumSignature, error) {
	if len(sigs) < 2 {
		return nil, crypto.ErrCombineMultiple
	}
	var out crypto.Multi[*fastSig]
	for _, s := range sigs {
		m, ok := s.(crypto.Multi[*fastSig])
		if !ok {
			return nil, fmt.Errorf("fast: cannot combine %T", s)
		}
		for _, p := range m {
			if out.Contains(p.Signer()) {
				return nil, crypto.ErrCombineOverlap
			}
			out = append(out, p)
		}
	}
	return out, nil
}

func (f *fastBase) verifyOne(p *fastSig, m []byte) error {
	if _, ok := f.cfg.ReplicaInfo(p.signer); !ok {
		return fmt.Errorf("fast: unknown replica %d", p.signer)
	}
	if string(fastTag(p.signer, m)) != string(p.tag) {
		return fmt.Errorf("fast: bad signature from %d", p.signer)
	}
	return nil
}

func (f *fastBase) Verify(sig hotstuff.QuorumSignature, m []byte) error {
	s, ok := sig.(crypto.Multi[*fastSig])
	if !ok {
		return fmt.Errorf("fast: cannot verify %T", sig)
	}
	if len(s) == 0 {
		return fmt.Errorf("fast: no participants")
	}
	seen := map[hotstuff.ID]bool{}
	for _, p := range s {
		if p == nil || seen[p.signer] {
			return fmt.Errorf("fast: repeated signer")
		}
		seen[p.signer] = true
		if err := f.verifyOne(p, m); err != nil {
			return err
		}
	}
	return nil
}

func (f *fastBase) BatchVerify(sig hotstuff.QuorumSignature, batch map[hotstuff.ID][]byte) error {
	s, ok := sig.(crypto.Multi[*fastSig])
	if !ok {
		return fmt.Errorf("fast: cannot verify %T", sig)
	}
	if len(s) == 0 || len(s) != len(batch) {
		return fmt.Errorf("fast: signers and batch differ")
	}
	seen := map[hotstuff.ID]bool{}
	for _, p := range s {
		if p == nil || seen[p.signer] {
			return fmt.Errorf("fast: repeated signer")
		}
		seen[p.signer] = true
		m, ok := batch[p.signer]
		if !ok {
			return fmt.Errorf("fast: message not found")
		}
		if err := f.verifyOne(p, m); err != nil {
			return err
		}
	}
	return nil
}

var _ crypto.Base = (*fastBase)(nil)
