package sim

// C07 — views and certified state only move forward, and only on evidence.

import (
	"fmt"
	"testing"

	"github.com/relab/hotstuff"
	"github.com/relab/hotstuff/verifx/common"
	"pgregory.net/rapid"
)

type paceState struct {
	view, qcStated, qcBlock, tc, committed hotstuff.View
	nvc                                    int // number of ViewChangeEvents seen
}

type paceMonitor struct {
	cl    *Cluster
	prev  map[int]paceState
	steps map[int]int // legitimate view steps per stack
}

func (m *paceMonitor) read(st *Stack) paceState {
	s := paceState{view: st.VS.View(), qcStated: st.VS.HighQC().View(), tc: st.VS.HighTC().View(), committed: st.VS.CommittedBlock().View(), nvc: len(st.ViewChanges)}
	if b := m.cl.blockByHash(st.VS.HighQC().BlockHash()); b != nil {
		s.qcBlock = b.View()
	}
	return s
}

// evidence counts, by ground truth, the replicas that really signed a block of view >= v, and those that really signed a
// timeout (view signature or aggregate timeout message) for a view >= v.
func (cl *Cluster) evidence(v hotstuff.View) (voters, timers map[hotstuff.ID]bool) {
	voters, timers = map[hotstuff.ID]bool{}, map[hotstuff.ID]bool{}
	for _, r := range cl.Signs {
		if r.View < v {
			continue
		}
		switch r.Kind {
		case "vote":
			voters[r.ID] = true
		case "view-timeout", "agg-timeout":
			timers[r.ID] = true
		}
	}
	for msg, ids := range cl.ActorSigns {
		m := []byte(msg)
		var view hotstuff.View
		kind := ""
		if b, ok := cl.Blocks[msg]; ok {
			kind, view = "vote", b.View()
		} else if len(m) == 8 {
			kind = "timeout"
			for i := 7; i >= 0; i-- {
				view = view<<8 | hotstuff.View(m[i])
			}
		} else if len(m) >= 12 {
			kind = "timeout"
			for i := 11; i >= 4; i-- {
				view = view<<8 | hotstuff.View(m[i])
			}
		}
		if view < v {
			continue
		}
		for id := range ids {
			if kind == "vote" {
				voters[id] = true
			} else if kind == "timeout" {
				timers[id] = true
			}
		}
	}
	return
}

func (m *paceMonitor) check() (string, string) {
	q := m.cl.Quorum()
	for _, st := range m.cl.HonestStacks() {
		p, ok := m.prev[st.Idx]
		c := m.read(st)
		m.prev[st.Idx] = c
		if !ok {
			continue
		}
		who := fmt.Sprintf("replica %d (stack %d) at step %d", st.ID, st.Idx, m.cl.StepNo)
		switch {
		case c.view < p.view:
			return "pace:view-decreased", fmt.Sprintf("%s: view went from %d to %d", who, p.view, c.view)
		case c.qcStated < p.qcStated:
			return "pace:highqc-decreased", fmt.Sprintf("%s: high QC view went from %d to %d", who, p.qcStated, c.qcStated)
		case c.qcBlock < p.qcBlock:
			return "pace:highqc-block-decreased", fmt.Sprintf("%s: the view of the block certified by the high QC went from %d to %d", who, p.qcBlock, c.qcBlock)
		case c.tc < p.tc:
			return "pace:hightc-decreased", fmt.Sprintf("%s: high TC view went from %d to %d", who, p.tc, c.tc)
		case c.committed < p.committed:
			return "pace:committed-decreased", fmt.Sprintf("%s: committed view went from %d to %d", who, p.committed, c.committed)
		}
		if c.qcStated != c.qcBlock {
			return "pace:highqc-relabelled", fmt.Sprintf("%s: the high QC states view %d but certifies a block of view %d", who, c.qcStated, c.qcBlock)
		}
		// certified state moves only on evidence: a new high QC needs a real quorum of votes for exactly that block, a new
		// high TC a real quorum of timeout signatures for exactly that view (ground truth from the signing log)
		if qc := st.VS.HighQC(); c.qcBlock > p.qcBlock {
			if b := m.cl.blockByHash(qc.BlockHash()); b != nil {
				if real := m.cl.realSigners(b.ToBytes(), m.cl.StepNo); len(real) < q {
					return "pace:highqc-without-evidence", fmt.Sprintf("%s: the high QC moved to %s, which only %v really signed (quorum %d)", who, blockName(b), SortedIDs(real), q)
				} else if why := m.cl.certificateInvalid(qc, b, real); why != "" {
					return "pace:highqc-invalid", fmt.Sprintf("%s: the high QC moved to a certificate for %s that is not valid: %s", who, blockName(b), why)
				}
			}
		}
		if c.tc > p.tc {
			if real := m.cl.realSigners(c.tc.ToBytes(), m.cl.StepNo); len(real) < q {
				return "pace:hightc-without-evidence", fmt.Sprintf("%s: the high TC moved from view %d to view %d, but only %v really signed a timeout for view %d (quorum %d)", who, p.tc, c.tc, SortedIDs(real), c.tc, q)
			}
		}
		if c.view > p.view {
			// evidence for leaving view c.view-1 (and therefore for every earlier view of this jump)
			v := c.view - 1
			voters, timers := m.cl.evidence(v)
			if len(voters) < q && len(timers) < q {
				return "pace:view-step-without-evidence", fmt.Sprintf("%s: moved from view %d to %d, but only %v really voted for a block of view >= %d and only %v really signed a timeout for a view >= %d (quorum %d)",
					who, p.view, c.view, SortedIDs(voters), v, SortedIDs(timers), v, q)
			}
			m.steps[st.Idx] += int(c.view - p.view)
		}
		// every change of the view is signalled: the ViewChangeEvents since the last observation announce strictly rising
		// views above the old one and end with the view the replica is in now (a replica may enter the view after its
		// certificate directly, so one event can cover several views); no event without a change
		if (c.view > p.view) != (c.nvc > p.nvc) {
			return "pace:viewchange-events", fmt.Sprintf("%s: view went from %d to %d but %d ViewChangeEvents were signalled", who, p.view, c.view, c.nvc-p.nvc)
		}
		last := p.view
		for i := p.nvc; i < c.nvc; i++ {
			if v := st.ViewChanges[i].View; v <= last || v > c.view {
				return "pace:viewchange-events", fmt.Sprintf("%s: ViewChangeEvent #%d announces view %d after view %d while the replica went from view %d to %d", who, i, v, last, p.view, c.view)
			}
			last = st.ViewChanges[i].View
		}
		if last != c.view {
			return "pace:viewchange-events", fmt.Sprintf("%s: the replica is in view %d but the last view change it signalled is to view %d", who, c.view, last)
		}
	}
	return "", ""
}

// bogusCertsReceived counts deliveries to honest replicas that carried a certificate the actor fabricated or a stale one.
func (cl *Cluster) bogusCertsReceived() map[int]int {
	out := map[int]int{}
	if cl.Actor == nil {
		return out
	}
	forged := func(si hotstuff.SyncInfo) bool {
		if qc, ok := si.QC(); ok {
			if _, f := cl.Actor.Forged[string(qc.ToBytes())]; f {
				return true
			}
		}
		if tc, ok := si.TC(); ok && tc.Signature() != nil {
			if _, f := cl.Actor.Forged["tc:"+string(tc.ToBytes())]; f {
				return true
			}
		}
		if agg, ok := si.AggQC(); ok {
			if _, f := cl.Actor.Forged[fmt.Sprintf("agg:%d:%p", agg.View(), agg.Sig())]; f {
				return true
			}
		}
		return false
	}
	for _, st := range cl.HonestStacks() {
		for _, rc := range st.Received {
			if cl.Stacks[rc.From].Kind != "actor" {
				continue
			}
			switch p := rc.Payload.(type) {
			case hotstuff.ProposeMsg:
				if _, f := cl.Actor.Forged[string(p.Block.QuorumCert().ToBytes())]; f {
					out[st.Idx]++
				}
			case hotstuff.NewViewMsg:
				if forged(p.SyncInfo) {
					out[st.Idx]++
				}
			case hotstuff.TimeoutMsg:
				if forged(p.SyncInfo) {
					out[st.Idx]++
				}
			}
		}
	}
	return out
}

func c07Prop(c Case) common.Result {
	cl, err := New(c.Cfg)
	if err != nil {
		return common.Fail("harness", "cluster: %v", err)
	}
	defer cl.Close()
	mon := &paceMonitor{cl: cl, prev: map[int]paceState{}, steps: map[int]int{}}
	cl.Start()
	mon.check()
	var fp, msg string
	cl.Run(c.Steps, func() bool {
		fp, msg = mon.check()
		return fp == ""
	})
	if fp != "" {
		return common.Fail(fp+":"+c.Cfg.Rules, "%s\nconfig: %s", msg, c.Cfg.Describe())
	}
	bogus := cl.bogusCertsReceived()
	nontrivial := false
	for _, st := range cl.HonestStacks() {
		if bogus[st.Idx] > 0 && mon.steps[st.Idx] > 0 {
			nontrivial = true
		}
	}
	_, _, classes := cl.runStats()
	if nontrivial {
		classes = append(classes, "bogus-cert-received+legit-step")
	}
	if cl.Inconclusive != "" {
		common.Get("C07").Inconclusive(cl.Inconclusive)
	}
	return common.OK(nontrivial, fmt.Sprintf("%s|%v", c.Cfg.Describe(), c.Steps), classes...)
}

func genC07(rt *rapid.T) Case {
	o := GenOpts{Actor: true, Twins: true, ByView: true, MaxSteps: 140, MinFaulty: 1, ActorBias: 30,
		ActorWeights: map[int]int{AProposeHonest: 3, AProposeWeird: 2, AVote: 1, AAssembleQC: 5, ARelabelQC: 7, ATimeout: 7, ANewView: 10, AProposeRelabelledSigners: 4,
			ARepeatQC: 4, AReplay: 5, AEquivocate: 1, AToggleFetch: 1, AVoteHonestly: 3, AForgedTC: 7, AProposeSkip: 1, AProposeStaleQC: 2, AProposeOnForged: 3}}
	cfg := GenConfig(rt, o)
	return Case{Cfg: cfg, Steps: GenSchedule(rt, cfg, o)}
}

func TestC07Pacemaker(t *testing.T) {
	common.Check(t, "C07", "TestC07Pacemaker", 8000, 160000, genC07, c07Prop)
}

// TestC07PacemakerCatchUp: the catch-up shape (a lagging replica alone with a Byzantine leader that hands out only the newest blocks, then the
// network heals; see genC06CatchUp) under this property's oracle.
func TestC07PacemakerCatchUp(t *testing.T) {
	common.Check(t, "C07", "TestC07PacemakerCatchUp", 1200, 30000, genC06CatchUp, c07Prop)
}
