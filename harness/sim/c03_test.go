package sim

// C03 — honest replicas vote once per view, only for well-formed leader proposals.

import (
	"fmt"
	"testing"

	"github.com/relab/hotstuff"
	"github.com/relab/hotstuff/security/crypto"
	"github.com/relab/hotstuff/verifx/common"
	"pgregory.net/rapid"
)

// realSigners returns the replicas that REALLY produced a signature over msg before `step` (honest replicas through the tap,
// the actor through its own signing function): ground truth, independent of any certificate.
func (cl *Cluster) realSigners(msg []byte, step int) map[hotstuff.ID]bool {
	out := map[hotstuff.ID]bool{}
	for _, r := range cl.Signs {
		if r.Step <= step && string(r.Msg) == string(msg) {
			out[r.ID] = true
		}
	}
	for id := range cl.ActorSigns[string(msg)] {
		out[id] = true
	}
	return out
}

func (cl *Cluster) blockByHash(h hotstuff.Hash) *hotstuff.Block {
	for _, b := range cl.AllBlk {
		if b.Hash() == h {
			return b
		}
	}
	return nil
}

// certificateInvalid decides from ground truth whether a quorum certificate for block cb is valid (empty string) or says why
// not: the claimed signers are distinct, at least a quorum, each really signed cb, and each signature verifies under the
// claimed signer's key (recomputed for the keyed-hash base; one signature at a time through the scheme for ECDSA/EdDSA).
func (cl *Cluster) certificateInvalid(qc hotstuff.QuorumCert, cb *hotstuff.Block, real map[hotstuff.ID]bool) string {
	sig := qc.Signature()
	if sig == nil {
		return "no signature"
	}
	seen := map[hotstuff.ID]bool{}
	check := func(id hotstuff.ID, one hotstuff.QuorumSignature, tag []byte) string {
		if seen[id] {
			return fmt.Sprintf("signer %d appears twice", id)
		}
		seen[id] = true
		if !real[id] {
			return fmt.Sprintf("it names replica %d, which never signed that block", id)
		}
		if tag != nil {
			if string(tag) != string(fastTag(id, cb.ToBytes())) {
				return fmt.Sprintf("the signature attributed to replica %d is not replica %d's signature", id, id)
			}
			return ""
		}
		if err := cl.HonestStacks()[0].base.Verify(one, cb.ToBytes()); err != nil {
			return fmt.Sprintf("the signature attributed to replica %d does not verify: %v", id, err)
		}
		return ""
	}
	switch m := sig.(type) {
	case crypto.Multi[*fastSig]:
		for _, p := range m {
			if why := check(p.signer, nil, p.tag); why != "" {
				return why
			}
		}
	case crypto.Multi[*crypto.ECDSASignature]:
		for _, p := range m {
			if why := check(p.Signer(), crypto.NewMulti(p), nil); why != "" {
				return why
			}
		}
	case crypto.Multi[*crypto.EDDSASignature]:
		for _, p := range m {
			if why := check(p.Signer(), crypto.NewMulti(p), nil); why != "" {
				return why
			}
		}
	default:
		return "" // other schemes are not used by this check's generator
	}
	if len(seen) < cl.Quorum() {
		return fmt.Sprintf("only %d distinct signers (quorum %d)", len(seen), cl.Quorum())
	}
	return ""
}

// voteOracle checks every block signature of every honest stack.
func (cl *Cluster) voteOracle() (fp, msg string, refused, signed map[int]int) {
	refused, signed = map[int]int{}, map[int]int{}
	q := cl.Quorum()
	lastVote := map[int]hotstuff.View{}
	lastTimeout := map[int]hotstuff.View{}
	hadTimeout := map[int]bool{}
	for _, r := range cl.Signs {
		st := cl.Stacks[r.Stack]
		if st.Kind != "honest" {
			continue
		}
		switch r.Kind {
		case "view-timeout":
			if !hadTimeout[st.Idx] || r.View > lastTimeout[st.Idx] {
				lastTimeout[st.Idx] = r.View
			}
			hadTimeout[st.Idx] = true
		case "vote":
			b := r.Block
			signed[st.Idx]++
			where := fmt.Sprintf("replica %d (stack %d) signed %s at step %d", st.ID, st.Idx, blockName(b), r.Step)
			// (4) strictly increasing views
			if lv, ok := lastVote[st.Idx]; ok && b.View() <= lv {
				return "vote:not-increasing", fmt.Sprintf("%s after it had already signed a block of view %d", where, lv), refused, signed
			}
			lastVote[st.Idx] = b.View()
			// (5) never in or below a view it timed out of
			if hadTimeout[st.Idx] && b.View() <= lastTimeout[st.Idx] {
				return "vote:after-timeout", fmt.Sprintf("%s although it had signed a timeout for view %d", where, lastTimeout[st.Idx]), refused, signed
			}
			// (1) from the designated leader
			leader := (leaderRot{cl, st}).GetLeader(b.View())
			if b.Proposer() != leader {
				return "vote:wrong-leader", fmt.Sprintf("%s, but the leader of view %d is replica %d", where, b.View(), leader), refused, signed
			}
			if leader != st.ID {
				got := false
				for _, rc := range st.Received {
					if p, ok := rc.Payload.(hotstuff.ProposeMsg); ok && rc.Step <= r.Step && p.Block.Hash() == b.Hash() && p.ID == leader {
						got = true
					}
				}
				if !got {
					return "vote:no-proposal-from-leader", fmt.Sprintf("%s without having received that proposal from the leader %d", where, leader), refused, signed
				}
			}
			// (3) directly extends the certified block
			qc := b.QuorumCert()
			if b.Parent() != qc.BlockHash() {
				return "vote:parent-not-certified-block", fmt.Sprintf("%s whose parent %s is not the block its certificate certifies (%s)", where, b.Parent().SmallString(), qc.BlockHash().SmallString()), refused, signed
			}
			cb := cl.blockByHash(qc.BlockHash())
			if cb == nil {
				return "vote:certified-block-unknown", fmt.Sprintf("%s whose certificate names a block nobody ever proposed", where), refused, signed
			}
			if b.View() <= cb.View() {
				return "vote:view-not-higher", fmt.Sprintf("%s whose view is not higher than the view %d of the block it extends", where, cb.View()), refused, signed
			}
			// (2) the certificate is real
			if cb.View() > 0 {
				if qc.View() != cb.View() {
					return "vote:certificate-relabelled", fmt.Sprintf("%s whose certificate states view %d for a block of view %d", where, qc.View(), cb.View()), refused, signed
				}
				real := cl.realSigners(cb.ToBytes(), r.Step)
				if len(real) < q {
					return "vote:certificate-without-quorum", fmt.Sprintf("%s whose certificate certifies %s, which only %v really signed (quorum %d)", where, blockName(cb), SortedIDs(real), q), refused, signed
				}
				// the certificate ITSELF is valid: a quorum of distinct replicas, each of which really signed the certified
				// block, and every signature is the one of the replica it is attributed to
				if why := cl.certificateInvalid(qc, cb, real); why != "" {
					return "vote:certificate-invalid", fmt.Sprintf("%s whose certificate for %s is not valid: %s", where, blockName(cb), why), refused, signed
				}
			} else if qc.View() != 0 {
				return "vote:certificate-relabelled", fmt.Sprintf("%s whose genesis certificate states view %d", where, qc.View()), refused, signed
			}
		}
	}
	// proposals that had to be refused (for the non-triviality rule)
	for _, st := range cl.HonestStacks() {
		votedHash := map[hotstuff.Hash]bool{}
		for _, r := range cl.Signs {
			if r.Stack == st.Idx && r.Kind == "vote" {
				votedHash[r.Block.Hash()] = true
			}
		}
		for _, rc := range st.Received {
			p, ok := rc.Payload.(hotstuff.ProposeMsg)
			if !ok || votedHash[p.Block.Hash()] {
				continue
			}
			b := p.Block
			bad := b.Proposer() != (leaderRot{cl, st}).GetLeader(b.View()) || b.Parent() != b.QuorumCert().BlockHash()
			if cb := cl.blockByHash(b.QuorumCert().BlockHash()); cb == nil || b.View() <= cb.View() || b.QuorumCert().View() != cb.View() ||
				(cb.View() > 0 && len(cl.realSigners(cb.ToBytes(), rc.Step)) < q) {
				bad = true
			}
			for _, r := range cl.Signs {
				if r.Stack == st.Idx && r.Step < rc.Step && (r.Kind == "vote" || r.Kind == "view-timeout") && r.View >= b.View() {
					bad = true // already voted or timed out in that view or a later one
				}
			}
			if bad {
				refused[st.Idx]++
			}
		}
	}
	return "", "", refused, signed
}

func c03Prop(c Case) common.Result {
	cl, err := New(c.Cfg)
	if err != nil {
		return common.Fail("harness", "cluster: %v", err)
	}
	defer cl.Close()
	cl.Start()
	cl.Run(c.Steps, nil)
	fp, msg, refused, signed := cl.voteOracle()
	if fp != "" {
		return common.Fail(fp+":"+c.Cfg.Rules, "%s\nconfig: %s", msg, c.Cfg.Describe())
	}
	nontrivial := false
	for _, st := range cl.HonestStacks() {
		if refused[st.Idx] > 0 && signed[st.Idx] > 0 {
			nontrivial = true
		}
	}
	_, _, classes := cl.runStats()
	if nontrivial {
		classes = append(classes, "refused+signed")
	}
	if cl.Inconclusive != "" {
		common.Get("C03").Inconclusive(cl.Inconclusive)
	}
	return common.OK(nontrivial, fmt.Sprintf("%s|%v", c.Cfg.Describe(), c.Steps), classes...)
}

func genC03(rt *rapid.T) Case {
	o := GenOpts{Actor: true, Twins: true, ByView: true, MaxSteps: 140, MinFaulty: 1, ActorBias: 28,
		ActorWeights: map[int]int{AProposeHonest: 4, AProposeWeird: 8, AVote: 1, AAssembleQC: 3, ARelabelQC: 4, ATimeout: 2, ANewView: 2,
			ARepeatQC: 2, AReplay: 3, AEquivocate: 6, AToggleFetch: 1, AVoteHonestly: 4, AForgedTC: 1, AProposeSkip: 6, AProposeStaleQC: 5, AProposeOnForged: 6, AProposeRelabelledSigners: 6}}
	cfg := GenConfig(rt, o)
	return Case{Cfg: cfg, Steps: GenSteps(rt, cfg, o)}
}

func TestC03Votes(t *testing.T) {
	common.Check(t, "C03", "TestC03Votes", 8000, 160000, genC03, c03Prop)
}

// genC03Lag: replicas that fall behind and catch up (partitions that lose messages, timeouts per group), with crashed
// replicas and optionally the Byzantine actor: the votes of the replica that returns are the interesting ones.
func genC03Lag(rt *rapid.T) Case {
	o := GenOpts{Actor: rapid.IntRange(0, 2).Draw(rt, "with-actor") == 0, Crash: true, ActorBias: 12}
	cfg := GenConfig(rt, o)
	return Case{Cfg: cfg, Steps: GenLagSteps(rt, cfg, o)}
}

func TestC03VotesLagging(t *testing.T) {
	common.Check(t, "C03", "TestC03VotesLagging", 4000, 80000, genC03Lag, c03Prop)
}

// TestC03VotesCatchUp: the catch-up shape (a lagging replica alone with a Byzantine leader that hands out only the newest blocks, then the
// network heals; see genC06CatchUp) under this property's oracle.
func TestC03VotesCatchUp(t *testing.T) {
	common.Check(t, "C03", "TestC03VotesCatchUp", 1200, 30000, genC06CatchUp, c03Prop)
}
