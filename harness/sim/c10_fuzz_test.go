package sim

// Native coverage-guided fuzzing of the wire surface (thorough tier only): arbitrary bytes are decoded as one of the four
// request types and handed to the real service handlers of a fresh replica that has run a few honest views.

import (
	"fmt"
	"runtime/debug"
	"testing"

	"github.com/relab/gorums"
	"github.com/relab/hotstuff"
	"github.com/relab/hotstuff/internal/proto/hotstuffpb"
	"google.golang.org/protobuf/proto"
)

func fuzzCluster(rules string) (*Cluster, *Stack) {
	cl, err := New(Config{N: 4, Rules: rules, Crypto: "ecdsa", Batch: 1})
	if err != nil {
		panic(err)
	}
	cl.Start()
	for i := 0; i < 7; i++ {
		if len(cl.deliverable()) > 0 {
			cl.Burst(1)
		} else {
			for _, st := range cl.liveStacks() {
				cl.FireTimeout(st)
			}
		}
	}
	return cl, cl.Stacks[0]
}

func FuzzC10Wire(f *testing.F) {
	// corpus: the honest messages of a short run, marshalled
	for _, rs := range []string{"chainedhotstuff", "fasthotstuff"} {
		cl, _ := fuzzCluster(rs)
		seen := map[string]bool{}
		for _, m := range cl.Log {
			var b []byte
			var kind byte
			switch p := m.Payload.(type) {
			case hotstuff.ProposeMsg:
				kind = 0
				b, _ = proto.Marshal(hotstuffpb.ProposalToProto(p))
			case hotstuff.VoteMsg:
				kind = 1
				b, _ = proto.Marshal(hotstuffpb.PartialCertToProto(p.PartialCert))
			case hotstuff.NewViewMsg:
				kind = 2
				b, _ = proto.Marshal(hotstuffpb.SyncInfoToProto(p.SyncInfo))
			case hotstuff.TimeoutMsg:
				kind = 3
				b, _ = proto.Marshal(hotstuffpb.TimeoutMsgToProto(p))
			}
			k := fmt.Sprint(kind, len(b))
			if b != nil && !seen[k] {
				seen[k] = true
				f.Add(kind, byte(m.From+1), rs == "fasthotstuff", b)
			}
		}
		cl.Close()
	}
	f.Add(byte(0), byte(2), false, []byte{})
	f.Add(byte(3), byte(0), true, []byte{0x08, 0x01})
	f.Fuzz(func(t *testing.T, kind, sender byte, fast bool, data []byte) {
		rs := "chainedhotstuff"
		if fast {
			rs = "fasthotstuff"
		}
		cl, sub := fuzzCluster(rs)
		defer cl.Close()
		svc := sub.Srv.VerifService()
		before := sub.protoState()
		defer func() {
			if r := recover(); r != nil {
				t.Fatalf("PANIC in the replica while handling fuzzed peer input (kind %d, sender %d, %s): %v\n%s", kind%5, sender%8, rs, r, trimTo(string(debug.Stack()), 3000))
			}
		}()
		ctx := gorums.ServerCtx{Context: peerCtx(int(sender%8), 4)}
		switch kind % 5 {
		case 0:
			m := &hotstuffpb.Proposal{}
			if proto.Unmarshal(data, m) != nil {
				return
			}
			svc.Propose(ctx, m)
		case 1:
			m := &hotstuffpb.PartialCert{}
			if proto.Unmarshal(data, m) != nil {
				return
			}
			svc.Vote(ctx, m)
		case 2:
			m := &hotstuffpb.SyncInfo{}
			if proto.Unmarshal(data, m) != nil {
				return
			}
			svc.NewView(ctx, m)
		case 3:
			m := &hotstuffpb.TimeoutMsg{}
			if proto.Unmarshal(data, m) != nil {
				return
			}
			svc.Timeout(ctx, m)
		case 4:
			m := &hotstuffpb.BlockHash{}
			if proto.Unmarshal(data, m) != nil {
				return
			}
			_, _ = svc.RequestBlock(ctx, m)
		}
		cl.drain(sub)
		after := sub.protoState()
		if after.View < before.View || after.HighQC < before.HighQC || after.HighTC < before.HighTC || after.Committed < before.Committed || after.Commits < before.Commits {
			t.Fatalf("protocol state moved backwards: before %+v after %+v", before, after)
		}
	})
}
