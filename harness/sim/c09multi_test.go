package sim

// C09 (all-to-one collector), several blocks at once: the collector holds votes for more than one block that is newer
// than its high QC (an equivocating leader, a replica that has moved on, pipelined views), and each block gets its
// certificate exactly when ITS quorum is complete. Votes for one block never disturb the votes collected for another.

import (
	"fmt"
	"testing"

	"github.com/relab/hotstuff"
	"github.com/relab/hotstuff/core/eventloop"
	"github.com/relab/hotstuff/internal/proto/clientpb"
	"github.com/relab/hotstuff/verifx/common"
	"github.com/relab/hotstuff/verifx/kit"
	"pgregory.net/rapid"
)

type mvote struct {
	K    string // vote | dup | garbage
	From int    // 1..N (1 is the collector itself)
	Blk  int    // index into the case's blocks
}

type mblock struct {
	View   int // 1..4
	Parent int // -1 genesis, otherwise index of an earlier block
}

type c09MultiCase struct {
	N      int
	Crypto string
	Async  bool
	Blocks []mblock
	Msgs   []mvote
}

func c09MultiProp(c c09MultiCase) (verdict common.Result) {
	cfg := Config{N: c.N, Rules: "chainedhotstuff", Crypto: c.Crypto, Batch: 1, Leaders: []int{2, 3, 2, 3, 2, 3, 2, 3}, AsyncVotes: c.Async}
	base := 0
	if c.Async {
		base = stableGoroutines() + 1
	}
	cl, err := New(cfg)
	if err != nil {
		return common.Fail("harness", "cluster: %v", err)
	}
	defer cl.Close()
	defer func() { verdict = cl.Verdict("C09", verdict) }()
	sub := cl.Stacks[0]
	q := cl.Quorum()
	g := hotstuff.GetGenesis()
	var blocks []*hotstuff.Block
	byHash := map[hotstuff.Hash]int{}
	for i, mb := range c.Blocks {
		parent := g
		if mb.Parent >= 0 && mb.Parent < len(blocks) {
			parent = blocks[mb.Parent]
		}
		b := kit.NewBlock(parent.Hash(), kit.GenesisQC(), &clientpb.Batch{Commands: []*clientpb.Command{{ClientID: 7, SequenceNumber: uint64(i + 1), Data: []byte(fmt.Sprintf("blk%d", i))}}}, hotstuff.View(mb.View), 2)
		blocks = append(blocks, b)
		byHash[b.Hash()] = i
		for _, st := range cl.Stacks {
			st.BC.Store(b)
		}
		cl.register(b)
	}
	var qcs []hotstuff.QuorumCert
	eventloop.Register(sub.EL, func(m hotstuff.NewViewMsg) {
		if qc, ok := m.SyncInfo.QC(); ok && !m.FromNetwork {
			qcs = append(qcs, qc)
		}
	}, eventloop.Prioritize())
	S := make([]map[int]bool, len(blocks))
	for i := range S {
		S[i] = map[int]bool{}
	}
	formed := make([]int, len(blocks))
	interleaved, seen := 0, 0
	lastBlk := -1
	nontrivial := false
	for step, m := range c.Msgs {
		if m.From < 1 || m.From > c.N || m.Blk < 0 || m.Blk >= len(blocks) {
			continue
		}
		st, b := cl.Stacks[m.From-1], blocks[m.Blk]
		hq := sub.VS.HighQC().View()
		live := b.View() > hq // the premise of the property: the block is newer than the collector's high QC
		var msg []byte
		switch m.K {
		case "vote", "dup":
			msg = b.ToBytes()
		case "garbage":
			msg = []byte("garbage")
		default:
			continue
		}
		vm := hotstuff.VoteMsg{ID: st.ID, PartialCert: hotstuff.NewPartialCert(sigOf(st, msg), b.Hash())}
		before := len(qcs)
		n := 1
		if m.K == "dup" {
			n = 2
		}
		for k := 0; k < n; k++ {
			cl.StepNo++
			cl.Deliver(Msg{From: m.From - 1, To: 0, Payload: vm})
			if !cl.settle(sub, base) {
				common.Get("C09").Inconclusive("asynchronous verification did not settle within the wait guard")
				return common.OK(false, "", "inconclusive")
			}
		}
		if lastBlk >= 0 && lastBlk != m.Blk {
			interleaved++
		}
		lastBlk = m.Blk
		seen++
		expect := false
		if live && m.K != "garbage" {
			S[m.Blk][m.From] = true
			expect = len(S[m.Blk]) >= q
		}
		desc := fmt.Sprintf("n=%d %s async=%v step %d %+v (block %d of view %d, collector's high QC view %d before the vote); valid voters per block %v, quorum %d\nblocks %+v\nhistory %+v",
			c.N, c.Crypto, c.Async, step, m, m.Blk, b.View(), hq, fmtSets(S), q, c.Blocks, c.Msgs[:step+1])
		emitted := qcs[before:]
		for _, qc := range emitted {
			i, ok := byHash[qc.BlockHash()]
			if !ok {
				return common.Fail("multi:qc-for-wrong-block", "a certificate for %s was emitted\n%s", qc.BlockHash().SmallString(), desc)
			}
			if i != m.Blk {
				return common.Fail("multi:qc-for-other-block", "a vote for block %d produced a certificate for block %d\n%s", m.Blk, i, desc)
			}
			if qc.View() != b.View() {
				return common.Fail("multi:qc-wrong-view", "the certificate states view %d for a block of view %d\n%s", qc.View(), b.View(), desc)
			}
			bad := false
			qc.Signature().Participants().ForEach(func(id hotstuff.ID) {
				if !S[i][int(id)] {
					bad = true
				}
			})
			if bad || qc.Signature().Participants().Len() < q {
				return common.Fail("multi:qc-foreign-signers", "the certificate for block %d has signers %s, valid votes for it came from %v\n%s", i, hotstuff.IDSetToString(qc.Signature().Participants()), keys(S[i]), desc)
			}
			if err := cl.Stacks[len(cl.Stacks)-1].Auth.VerifyQuorumCert(qc); err != nil {
				if v := cl.Stacks[len(cl.Stacks)-1]; kit.QuirkSig(v.Cfg, v.base, qc.Signature(), b.ToBytes()) {
					return common.Fail(kit.KnownBLS, "the certificate for block %d is rejected at another replica (%v) although its signature satisfies the verification equation in other arrangements\n%s", i, err, desc)
				}
				return common.Fail("multi:qc-does-not-verify", "the certificate for block %d does not verify at another replica: %v\n%s", i, err, desc)
			}
		}
		if len(emitted) > 0 && !expect {
			return common.Fail("multi:qc-before-quorum", "a certificate for block %d was emitted although only %v validly voted for it while it was newer than the high QC\n%s", m.Blk, keys(S[m.Blk]), desc)
		}
		if expect && len(emitted) == 0 && cl.blsQuirkAmong(sub, S[m.Blk], b.ToBytes()) {
			return common.Fail(kit.KnownBLS, "a quorum of valid votes for block %d has arrived but no certificate was produced: the collector's scheme rejects one of the valid BLS votes although the signature satisfies the verification equation in other arrangements\n%s", m.Blk, desc)
		}
		if expect && len(emitted) == 0 {
			return common.Fail("multi:qc-missing", "a quorum of valid votes for block %d (view %d, newer than the high QC of view %d) has arrived but no certificate was produced\n%s", m.Blk, b.View(), hq, desc)
		}
		if expect {
			formed[m.Blk]++
			if interleaved > 0 {
				nontrivial = true
			}
			S[m.Blk] = map[int]bool{} // the certificate is out; the collector starts over (and the block stops being newer than the high QC)
		}
		// blocks that are no longer newer than the collector's high QC leave the premise together with their votes
		now := sub.VS.HighQC().View()
		for i, bl := range blocks {
			if bl.View() <= now {
				S[i] = map[int]bool{}
			}
		}
	}
	cls := []string{fmt.Sprintf("multi n=%d", c.N), "multi crypto=" + c.Crypto}
	nf := 0
	for _, f := range formed {
		if f > 0 {
			nf++
		}
	}
	cls = append(cls, fmt.Sprintf("multi qcs-formed=%d", nf))
	if interleaved > 0 {
		cls = append(cls, "multi interleaved")
	}
	return common.OK(nontrivial, "", cls...)
}

func fmtSets(s []map[int]bool) string {
	out := "["
	for i, m := range s {
		if i > 0 {
			out += " "
		}
		out += fmt.Sprintf("%d:%v", i, keys(m))
	}
	return out + "]"
}

func genC09Multi(async bool) func(rt *rapid.T) c09MultiCase {
	return func(rt *rapid.T) c09MultiCase {
		c := c09MultiCase{N: rapid.SampledFrom([]int{4, 4, 7}).Draw(rt, "n"), Async: async}
		c.Crypto = rapid.SampledFrom([]string{"fast", "fast", "fast", "ecdsa", "eddsa", "bls12"}).Draw(rt, "crypto")
		if c.Crypto == "bls12" {
			c.N = 4
		}
		nb := rapid.IntRange(2, 4).Draw(rt, "nblocks")
		for i := 0; i < nb; i++ {
			c.Blocks = append(c.Blocks, mblock{View: rapid.IntRange(1, 4).Draw(rt, "view"), Parent: rapid.IntRange(-1, i-1).Draw(rt, "parent")})
		}
		n := rapid.IntRange(2, 30).Draw(rt, "n")
		for i := 0; i < n; i++ {
			c.Msgs = append(c.Msgs, mvote{
				K:    rapid.SampledFrom([]string{"vote", "vote", "vote", "vote", "vote", "vote", "dup", "garbage"}).Draw(rt, "k"),
				From: rapid.IntRange(1, c.N).Draw(rt, "from"),
				Blk:  rapid.IntRange(0, nb-1).Draw(rt, "blk"),
			})
		}
		return c
	}
}

func TestC09VotingMachineMultiBlock(t *testing.T) {
	common.Check(t, "C09", "TestC09VotingMachineMultiBlock", 6000, 150000, genC09Multi(false), c09MultiProp)
}

func TestC09RaceVotingMachineMultiBlock(t *testing.T) {
	common.Check(t, "C09", "TestC09RaceVotingMachineMultiBlock", 500, 8000, genC09Multi(true), c09MultiProp)
}
