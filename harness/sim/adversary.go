package sim

import (
	"crypto/sha256"
	"encoding/binary"
	"fmt"

	"github.com/relab/hotstuff"
	"github.com/relab/hotstuff/internal/proto/clientpb"
	"github.com/relab/hotstuff/security/crypto"
)

// Actor is the scripted Byzantine replica set. It owns only its own keys, but (network adversary) knows every message
// ever sent and every block ever proposed. Everything it sends is authenticated as coming from one of its own ids:
// message sender ids and block proposers are its own (server.go overwrites both from the connection).
type Actor struct {
	cl         *Cluster
	stacks     []*Stack // placeholder stacks (for keys and as network endpoints)
	scanned    int
	QCs        []hotstuff.QuorumCert
	TCs        []hotstuff.TimeoutCert
	AggQCs     []hotstuff.AggregateQC
	Votes      map[hotstuff.Hash][]hotstuff.PartialCert
	Timeouts   []hotstuff.TimeoutMsg
	ServeFetch bool
	ServeFrom  hotstuff.View // blocks below this view are withheld from fetches
	ServeEvery int               // > 1: only every ServeEvery-th block request is answered (the first ones of a burst go unanswered)
	fetchSeen  int
	Twin       map[hotstuff.Hash]*hotstuff.Block // second blocks that hash like a proposal of the actor: served instead of it
	AmbiguousProposals int
	ambSeq     int
	Sent       int
	cmdSeq     uint64
	seenQC     map[string]bool
	Forged     map[string]string // description of certificates the actor fabricated: key -> how
	voted      map[string]bool   // autopilot: stack/blockhash already voted
	proposed   map[string]bool   // autopilot: stack/view already proposed
	ForgedQCs  []hotstuff.QuorumCert
	ForgedTCs  []hotstuff.TimeoutCert
	hold       bool              // autopilot: withhold the next proposal
	held       []hotstuff.ProposeMsg
	armed      *Step             // autopilot: deviation to apply to the next proposal the actor would make honestly
	Deviations int
	batches    int
}

func newActor(cl *Cluster) *Actor {
	a := &Actor{cl: cl, Votes: map[hotstuff.Hash][]hotstuff.PartialCert{}, ServeFetch: true, seenQC: map[string]bool{}, Forged: map[string]string{}, voted: map[string]bool{}, proposed: map[string]bool{}}
	for _, st := range cl.Stacks {
		if st.Kind == "actor" {
			a.stacks = append(a.stacks, st)
		}
	}
	a.addQC(hotstuff.NewQuorumCert(nil, 0, hotstuff.GetGenesis().Hash()))
	a.TCs = append(a.TCs, hotstuff.NewTimeoutCert(nil, 0))
	return a
}

func (a *Actor) addQC(qc hotstuff.QuorumCert) {
	k := string(qc.ToBytes())
	if !a.seenQC[k] {
		a.seenQC[k] = true
		a.QCs = append(a.QCs, qc)
	}
}

func (a *Actor) learnSI(si hotstuff.SyncInfo) {
	if qc, ok := si.QC(); ok {
		a.addQC(qc)
	}
	if tc, ok := si.TC(); ok && tc.Signature() != nil {
		a.TCs = append(a.TCs, tc)
	}
	if agg, ok := si.AggQC(); ok {
		a.AggQCs = append(a.AggQCs, agg)
		for _, qc := range agg.QCs() {
			a.addQC(qc)
		}
	}
}

// learn scans the global message log.
func (a *Actor) learn() {
	for ; a.scanned < len(a.cl.Log); a.scanned++ {
		switch p := a.cl.Log[a.scanned].Payload.(type) {
		case hotstuff.ProposeMsg:
			a.addQC(p.Block.QuorumCert())
			if p.AggregateQC != nil {
				a.AggQCs = append(a.AggQCs, *p.AggregateQC)
			}
		case hotstuff.VoteMsg:
			h := p.PartialCert.BlockHash()
			dup := false
			for _, v := range a.Votes[h] {
				if v.Signer() == p.PartialCert.Signer() {
					dup = true
				}
			}
			if !dup {
				a.Votes[h] = append(a.Votes[h], p.PartialCert)
			}
		case hotstuff.TimeoutMsg:
			a.Timeouts = append(a.Timeouts, p)
			a.learnSI(p.SyncInfo)
		case hotstuff.NewViewMsg:
			a.learnSI(p.SyncInfo)
		}
	}
}

func (a *Actor) self(i int) *Stack { return a.stacks[mod(i, len(a.stacks))] }

func (a *Actor) send(from *Stack, to *Stack, payload any) {
	if to.Idx == from.Idx {
		return
	}
	cl := a.cl
	m := Msg{From: from.Idx, To: to.Idx, Payload: payload, Step: cl.StepNo}
	cl.Log = append(cl.Log, m)
	if to.Kind == "crashed" || to.Kind == "actor" {
		return
	}
	cl.Pool = append(cl.Pool, m)
	a.Sent++
}

func (a *Actor) targets(mask int) []*Stack {
	var l []*Stack
	for i, st := range a.cl.Stacks {
		if st.Live() && (mask == 0 || mask&(1<<uint(i%16)) != 0) {
			l = append(l, st)
		}
	}
	return l
}

func (a *Actor) batch() *clientpb.Batch {
	b := &clientpb.Batch{}
	a.batches++
	if a.cl.Cfg.ActorReuseCmds && a.batches%2 == 0 && len(a.cl.AllBlk) > 1 {
		// re-propose the commands of an earlier block (clients' commands can appear in several committed blocks)
		src := a.cl.AllBlk[1+mod(a.batches*7, len(a.cl.AllBlk)-1)]
		for _, c := range src.Commands().GetCommands() {
			b.Commands = append(b.Commands, c)
		}
		if len(b.Commands) > 0 {
			return b
		}
	}
	for i := 0; i < a.cl.Cfg.Batch; i++ {
		a.cmdSeq++
		b.Commands = append(b.Commands, &clientpb.Command{ClientID: 9, SequenceNumber: a.cmdSeq, Data: []byte(fmt.Sprintf("byz-%d;", a.cmdSeq))})
	}
	return b
}

func (a *Actor) maxView() hotstuff.View {
	var v hotstuff.View
	for _, st := range a.cl.Stacks {
		if st.Live() && st.VS.View() > v {
			v = st.VS.View()
		}
	}
	return v
}

// leaderViewNear returns a view near the cluster's frontier in which `me` is the scheduled leader (or the frontier view).
func (a *Actor) leaderViewNear(me *Stack, off int) hotstuff.View {
	base := a.maxView()
	lr := leaderRot{a.cl, me}
	start := int64(base) - 2 + int64(mod(off, 5))
	if start < 1 {
		start = 1
	}
	for d := int64(0); d < 12; d++ {
		if lr.GetLeader(hotstuff.View(start+d)) == me.ID {
			return hotstuff.View(start + d)
		}
	}
	return hotstuff.View(start)
}

func (a *Actor) blockOf(h hotstuff.Hash) *hotstuff.Block {
	for _, b := range a.cl.AllBlk {
		if b.Hash() == h {
			return b
		}
	}
	return nil
}

// highestKnownQC returns the QC (as seen on the wire, unforged) that certifies the highest-view block.
func (a *Actor) highestKnownQC() hotstuff.QuorumCert {
	best := a.QCs[0]
	var bv hotstuff.View
	for _, qc := range a.QCs {
		if _, forged := a.Forged[string(qc.ToBytes())]; forged {
			continue
		}
		if b := a.blockOf(qc.BlockHash()); b != nil && b.View() == qc.View() && b.View() >= bv {
			best, bv = qc, b.View()
		}
	}
	return best
}

func (a *Actor) sign(me *Stack, m []byte) hotstuff.QuorumSignature {
	if a.cl.ActorSigns[string(m)] == nil {
		a.cl.ActorSigns[string(m)] = map[hotstuff.ID]bool{}
	}
	a.cl.ActorSigns[string(m)][me.ID] = true
	s, err := me.base.Sign(m) // not through the tap: the actor's signatures are not honest signatures
	if err != nil {
		panic(err)
	}
	return s
}

// repeat builds a signature object that repeats one signature k times (multi-signature schemes).
func repeat(s hotstuff.QuorumSignature, k int) hotstuff.QuorumSignature {
	switch m := s.(type) {
	case crypto.Multi[*fastSig]:
		var out crypto.Multi[*fastSig]
		for i := 0; i < k; i++ {
			out = append(out, m[0])
		}
		return out
	case crypto.Multi[*crypto.ECDSASignature]:
		var out crypto.Multi[*crypto.ECDSASignature]
		for i := 0; i < k; i++ {
			out = append(out, m[0])
		}
		return out
	case crypto.Multi[*crypto.EDDSASignature]:
		var out crypto.Multi[*crypto.EDDSASignature]
		for i := 0; i < k; i++ {
			out = append(out, m[0])
		}
		return out
	}
	return s
}

// interleave builds a multi-signature of length n that alternates own with the given other signatures (own, o1, own, o2,
// own, ...): the repeated signer never sits next to itself. ok is false when there is nothing to interleave with.
func interleave(own hotstuff.QuorumSignature, others []hotstuff.QuorumSignature, n int) (hotstuff.QuorumSignature, bool) {
	if len(others) == 0 || n < 3 {
		return nil, false
	}
	pick := func(i int) hotstuff.QuorumSignature {
		if i%2 == 0 {
			return own
		}
		return others[(i/2)%len(others)]
	}
	switch own.(type) {
	case crypto.Multi[*fastSig]:
		var out crypto.Multi[*fastSig]
		for i := 0; i < n; i++ {
			m, ok := pick(i).(crypto.Multi[*fastSig])
			if !ok || len(m) == 0 {
				return nil, false
			}
			out = append(out, m[0])
		}
		return out, true
	case crypto.Multi[*crypto.ECDSASignature]:
		var out crypto.Multi[*crypto.ECDSASignature]
		for i := 0; i < n; i++ {
			m, ok := pick(i).(crypto.Multi[*crypto.ECDSASignature])
			if !ok || len(m) == 0 {
				return nil, false
			}
			out = append(out, m[0])
		}
		return out, true
	case crypto.Multi[*crypto.EDDSASignature]:
		var out crypto.Multi[*crypto.EDDSASignature]
		for i := 0; i < n; i++ {
			m, ok := pick(i).(crypto.Multi[*crypto.EDDSASignature])
			if !ok || len(m) == 0 {
				return nil, false
			}
			out = append(out, m[0])
		}
		return out, true
	}
	return nil, false
}

// Actor action kinds.
const (
	AProposeHonest = iota // a well-formed proposal extending the highest known QC, in a view the actor leads
	AProposeWeird         // independently chosen parent and QC (and view), to a subset of replicas
	AVote                 // the actor's vote for any known block, to any replica
	AAssembleQC           // combine the votes seen for a block (plus the actor's own); possibly a sub-quorum
	ARelabelQC            // a known QC with another stated view
	ATimeout              // the actor's timeout message for some view with any known certificates
	ANewView              // a new-view message with any known / forged certificates
	ARepeatQC             // a QC made of the actor's own vote repeated q times
	AReplay               // re-send any message ever seen, now attributed to the actor
	AEquivocate           // two different blocks for one view, to two disjoint sets of replicas
	AToggleFetch          // serve / refuse block fetches from now on
	AVoteHonestly         // vote for the newest proposal, to the next leader
	AForgedTC             // a timeout certificate from the timeout signatures seen for a view (possibly a sub-quorum), or relabelled
	AProposeSkip          // template: in a view the actor leads, certificate = the highest known QC, parent = an OLDER block (an ancestor of the certified block, or any other block)
	AProposeStaleQC       // template: in a view the actor leads, parent = the newest block, certificate = an older valid QC (fork from an ancestor, like byzantine.Fork)
	AProposeOnForged      // template: a hidden block X (old parent, real old certificate) that nobody votes for, a FORGED certificate for X (repeated signer / the actor's signatures only / another block's signatures), and the proposal Y = (parent X, forged certificate)
	AHoldNext             // template: the next proposal the actor would make is created but withheld
	ARelease              // template: a withheld proposal is sent (late) to the replicas selected by B
	AProposeOldAgg        // template (aggregate QCs): a proposal justified by an OLD, genuine aggregate QC: certificate = that aggregate's high QC, parent = its block
	AProposeRelabelledSigners // template: the proposal the actor would make honestly, but the block's certificate attributes the genuine signatures to other replicas (same view, hash and signature bytes); with aggregate QCs the genuine aggregate goes along
	AServeRecentOnly // block fetches are answered only for blocks of the last 1+B%5 views (older ones are withheld)
	AProposeAmbiguous // template: the proposal the actor would make honestly, with ONE client command whose 40 data bytes read like the head of a certificate encoding; the actor also prepares a second block (no commands, a made-up certificate that swallows the real one as "signature bytes") with the same parent, view, proposer and time, and answers fetches for the proposal's hash with that second block whenever the two blocks hash alike
	aCount
)

// Act performs one scripted action.
func (a *Actor) Act(A, B, C int) {
	a.learn()
	cl := a.cl
	me := a.self(C)
	switch mod(A, aCount) {
	case AHoldNext:
		a.hold = true
		return
	case ARelease:
		if len(a.held) == 0 {
			return
		}
		p := a.held[mod(C, len(a.held))]
		for _, to := range a.targets(B) {
			a.send(me, to, p)
		}
		return
	}
	if cl.Cfg.ActorAuto {
		switch mod(A, aCount) {
		case AProposeSkip, AProposeStaleQC, AEquivocate, AProposeWeird, AProposeOnForged, AProposeOldAgg, AProposeRelabelledSigners, AProposeAmbiguous:
			a.armed = &Step{K: KActor, A: mod(A, aCount), B: B, C: C}
			return
		}
	}
	switch mod(A, aCount) {
	case AProposeHonest:
		v := a.leaderViewNear(me, B)
		qc := a.highestKnownQC()
		if b := a.blockOf(qc.BlockHash()); b != nil && b.View() >= v {
			v = b.View() + 1
		}
		blk := hotstuff.NewBlock(qc.BlockHash(), qc, a.batch(), v, me.ID)
		cl.register(blk)
		p := hotstuff.ProposeMsg{ID: me.ID, Block: blk}
		if cl.Cfg.Rules == "fasthotstuff" && len(a.AggQCs) > 0 && mod(B, 2) == 1 {
			agg := a.AggQCs[len(a.AggQCs)-1]
			p.AggregateQC = &agg
		}
		for _, to := range a.targets(0) {
			a.send(me, to, p)
		}
	case AProposeWeird:
		parent := cl.AllBlk[mod(B, len(cl.AllBlk))]
		qc := a.QCs[mod(C, len(a.QCs))]
		v := a.leaderViewNear(me, B+C)
		if mod(B+C, 4) == 0 {
			v = parent.View() + hotstuff.View(mod(C, 3)) // possibly not above the parent / certified view
		}
		blk := hotstuff.NewBlock(parent.Hash(), qc, a.batch(), v, me.ID)
		cl.register(blk)
		for _, to := range a.targets(B / 7) {
			a.send(me, to, hotstuff.ProposeMsg{ID: me.ID, Block: blk})
		}
	case AVote:
		blk := cl.AllBlk[mod(B, len(cl.AllBlk))]
		pc := hotstuff.NewPartialCert(a.sign(me, blk.ToBytes()), blk.Hash())
		tos := a.targets(0)
		if len(tos) > 0 {
			a.send(me, tos[mod(C, len(tos))], hotstuff.VoteMsg{ID: me.ID, PartialCert: pc})
		}
	case AVoteHonestly:
		if len(cl.AllBlk) < 2 {
			return
		}
		blk := cl.AllBlk[len(cl.AllBlk)-1-mod(B, min(3, len(cl.AllBlk)-1))]
		pc := hotstuff.NewPartialCert(a.sign(me, blk.ToBytes()), blk.Hash())
		next := (leaderRot{cl, me}).GetLeader(blk.View() + 1)
		for _, to := range cl.ByID[next] {
			a.send(me, to, hotstuff.VoteMsg{ID: me.ID, PartialCert: pc})
		}
	case AAssembleQC:
		blk := cl.AllBlk[mod(B, len(cl.AllBlk))]
		if blk.View() == 0 {
			return
		}
		var sigs []hotstuff.QuorumSignature
		own := false
		for _, v := range a.Votes[blk.Hash()] {
			if v.Signer() == me.ID {
				own = true
			}
			sigs = append(sigs, v.Signature())
		}
		if !own {
			sigs = append(sigs, a.sign(me, blk.ToBytes()))
		}
		if keep := mod(C, len(sigs)+1); keep >= 2 && keep < len(sigs) {
			sigs = sigs[len(sigs)-keep:] // a sub-set (possibly a sub-quorum)
		}
		if len(sigs) < 2 {
			return
		}
		sig, err := me.base.Combine(sigs...)
		if err != nil {
			return
		}
		qc := hotstuff.NewQuorumCert(sig, blk.View(), blk.Hash())
		if sig.Participants().Len() < cl.Quorum() {
			a.Forged[string(qc.ToBytes())] = "sub-quorum"
			a.ForgedQCs = append(a.ForgedQCs, qc)
		}
		a.addQC(qc)
	case ARelabelQC:
		qc := a.QCs[mod(B, len(a.QCs))]
		nv := qc.View() + hotstuff.View(1+mod(C, 4))
		if mod(C, 2) == 0 {
			nv = a.maxView() + hotstuff.View(mod(C/2, 3)) // a view that would move the receivers
		}
		if nv == qc.View() {
			nv++
		}
		rq := hotstuff.NewQuorumCert(qc.Signature(), nv, qc.BlockHash())
		a.Forged[string(rq.ToBytes())] = "relabelled-view"
		a.ForgedQCs = append(a.ForgedQCs, rq)
		a.addQC(rq)
	case ARepeatQC:
		blk := cl.AllBlk[mod(B, len(cl.AllBlk))]
		if mod(C, 2) == 1 {
			// prefer a recent block somebody else voted for: the repeated signature can then be interleaved with a genuine one
			for i := len(cl.AllBlk) - 1; i >= 0 && i >= len(cl.AllBlk)-6; i-- {
				if len(a.Votes[cl.AllBlk[i].Hash()]) > 0 {
					blk = cl.AllBlk[i]
					break
				}
			}
		}
		if blk.View() == 0 {
			return
		}
		own := a.sign(me, blk.ToBytes())
		fs := repeat(own, cl.Quorum())
		if mod(C, 2) == 1 {
			// copies of the actor's signature that are NOT adjacent: own, other, own, ... (fewer distinct signers than a quorum)
			var others []hotstuff.QuorumSignature
			for _, v := range a.Votes[blk.Hash()] {
				if v.Signer() != me.ID && len(others) < (cl.Quorum()-1)/2 {
					others = append(others, v.Signature())
				}
			}
			if il, ok := interleave(own, others, cl.Quorum()); ok {
				fs = il
			}
		}
		qc := hotstuff.NewQuorumCert(fs, blk.View(), blk.Hash())
		a.Forged[string(qc.ToBytes())] = "repeated-signer"
		a.ForgedQCs = append(a.ForgedQCs, qc)
		a.addQC(qc)
	case AForgedTC:
		// combine the view-timeout signatures seen for the most common recent view; optionally relabel
		byView := map[hotstuff.View][]hotstuff.TimeoutMsg{}
		for _, t := range a.Timeouts {
			byView[t.View] = append(byView[t.View], t)
		}
		var best hotstuff.View
		for v, l := range byView {
			if len(l) > len(byView[best]) || (len(l) == len(byView[best]) && v > best) {
				best = v
			}
		}
		var sigs []hotstuff.QuorumSignature
		seen := map[hotstuff.ID]bool{}
		for _, t := range byView[best] {
			if t.ViewSignature != nil && !seen[t.ID] {
				seen[t.ID] = true
				sigs = append(sigs, t.ViewSignature)
			}
		}
		if !seen[me.ID] {
			sigs = append(sigs, a.sign(me, best.ToBytes()))
		}
		if mod(C, 5) == 4 && len(sigs) >= 2 && len(sigs) < cl.Quorum() {
			// too few distinct timeouts: pad with copies of the actor's signature that are not adjacent to each other
			own := a.sign(me, best.ToBytes())
			var others []hotstuff.QuorumSignature
			for _, t := range byView[best] {
				if t.ID != me.ID && t.ViewSignature != nil && len(others) < (cl.Quorum()-1)/2 {
					others = append(others, t.ViewSignature)
				}
			}
			if il, ok := interleave(own, others, cl.Quorum()); ok {
				tc := hotstuff.NewTimeoutCert(il, best)
				a.Forged["tc:"+string(tc.ToBytes())] = "repeated-signer-interleaved"
				a.ForgedTCs = append(a.ForgedTCs, tc)
				a.TCs = append(a.TCs, tc)
				return
			}
		}
		if len(sigs) < 2 || mod(C, 4) == 3 {
			// nothing to combine (or by choice): a "certificate" carrying only the actor's own, valid, signature for the frontier view
			v := a.maxView() + hotstuff.View(mod(B, 2))
			tc := hotstuff.NewTimeoutCert(a.sign(me, v.ToBytes()), v)
			a.Forged["tc:"+string(tc.ToBytes())] = "single-signature"
			a.ForgedTCs = append(a.ForgedTCs, tc)
			a.TCs = append(a.TCs, tc)
			return
		}
		sig, err := me.base.Combine(sigs...)
		if err != nil {
			return
		}
		v := best
		switch mod(B, 3) {
		case 0:
			v = best + hotstuff.View(1+mod(C, 3)) // relabelled
		case 1:
			v = a.maxView() + hotstuff.View(mod(C, 2)) // relabelled to the frontier
		case 2:
			if hv := a.highestKnownQC().View(); hv > 0 && mod(C, 2) == 0 {
				v = 1 + hotstuff.View(mod(C/2, int(hv))) // relabelled to a view at or below the highest certified view
			}
		}
		tc := hotstuff.NewTimeoutCert(sig, v)
		if v != best || sig.Participants().Len() < cl.Quorum() {
			a.Forged["tc:"+string(tc.ToBytes())] = "relabelled-or-sub-quorum"
			a.ForgedTCs = append(a.ForgedTCs, tc)
		}
		a.TCs = append(a.TCs, tc)
	case ATimeout:
		if mod(C, 2) == 1 && (len(a.ForgedQCs) > 0 || len(a.ForgedTCs) > 0) {
			// a timeout message of the actor (validly signed) that carries the newest fabricated certificates
			v := a.maxView()
			si := hotstuff.NewSyncInfo()
			if len(a.ForgedQCs) > 0 {
				si.SetQC(a.ForgedQCs[len(a.ForgedQCs)-1-mod(B, min(2, len(a.ForgedQCs)))])
			}
			if len(a.ForgedTCs) > 0 {
				si.SetTC(a.ForgedTCs[len(a.ForgedTCs)-1])
			}
			tm := hotstuff.TimeoutMsg{ID: me.ID, View: v, SyncInfo: si, ViewSignature: a.sign(me, v.ToBytes())}
			if cl.Cfg.Rules == "fasthotstuff" {
				tm.MsgSignature = a.sign(me, tm.ToBytes())
			}
			for _, to := range a.targets(0) {
				a.send(me, to, tm)
			}
			return
		}
		v := a.maxView() - 1 + hotstuff.View(mod(B, 4))
		if mod(B, 11) == 0 {
			v = a.maxView() + 1000
		}
		si := hotstuff.NewSyncInfo()
		si.SetQC(a.QCs[mod(C, len(a.QCs))])
		if mod(C, 3) != 0 {
			si.SetTC(a.TCs[mod(C/3, len(a.TCs))])
		}
		tm := hotstuff.TimeoutMsg{ID: me.ID, View: v, SyncInfo: si, ViewSignature: a.sign(me, v.ToBytes())}
		if cl.Cfg.Rules == "fasthotstuff" {
			tm.MsgSignature = a.sign(me, tm.ToBytes())
		}
		for _, to := range a.targets(B / 5) {
			a.send(me, to, tm)
		}
	case ANewView:
		si := hotstuff.NewSyncInfo()
		if mod(C, 2) == 1 && (len(a.ForgedQCs) > 0 || len(a.ForgedTCs) > 0) {
			// the newest fabricated certificate(s), to every replica
			if len(a.ForgedQCs) > 0 && mod(B, 3) != 2 {
				si.SetQC(a.ForgedQCs[len(a.ForgedQCs)-1-mod(B, min(2, len(a.ForgedQCs)))])
			}
			if mod(B, 4) == 3 {
				si.SetQC(a.highestKnownQC()) // a genuine certificate next to a fabricated one
			}
			if len(a.ForgedTCs) > 0 && mod(B, 3) != 1 {
				si.SetTC(a.ForgedTCs[len(a.ForgedTCs)-1-mod(B, min(2, len(a.ForgedTCs)))])
			}
			for _, to := range a.targets(0) {
				a.send(me, to, hotstuff.NewViewMsg{ID: me.ID, SyncInfo: si, FromNetwork: true})
			}
			return
		}
		switch mod(B, 4) {
		case 0:
			si.SetQC(a.QCs[mod(C, len(a.QCs))])
		case 1:
			si.SetTC(a.TCs[mod(C, len(a.TCs))])
			si.SetQC(a.highestKnownQC())
		case 2:
			si.SetQC(a.QCs[mod(C, len(a.QCs))])
			si.SetTC(a.TCs[mod(C/5, len(a.TCs))])
		case 3:
			if len(a.AggQCs) > 0 {
				agg := a.AggQCs[mod(C, len(a.AggQCs))]
				if mod(C, 2) == 0 {
					agg = hotstuff.NewAggregateQC(agg.QCs(), agg.Sig(), agg.View()+1) // relabelled
					a.Forged[fmt.Sprintf("agg:%d:%p", agg.View(), agg.Sig())] = "relabelled"
				}
				si.SetAggQC(agg)
				si.SetTC(a.TCs[mod(C/5, len(a.TCs))])
			} else {
				si.SetQC(a.QCs[mod(C, len(a.QCs))])
			}
		}
		tos := a.targets(0)
		if len(tos) > 0 {
			a.send(me, tos[mod(B/4, len(tos))], hotstuff.NewViewMsg{ID: me.ID, SyncInfo: si, FromNetwork: true})
		}
	case AReplay:
		if len(cl.Log) == 0 {
			return
		}
		m := cl.Log[mod(B, len(cl.Log))]
		tos := a.targets(0)
		if len(tos) == 0 {
			return
		}
		to := tos[mod(C, len(tos))]
		switch p := m.Payload.(type) {
		case hotstuff.VoteMsg:
			p.ID = me.ID
			a.send(me, to, p)
		case hotstuff.TimeoutMsg:
			p.ID = me.ID // somebody else's signatures under the actor's sender id
			a.send(me, to, p)
		case hotstuff.NewViewMsg:
			p.ID = me.ID
			a.send(me, to, p)
		case hotstuff.ProposeMsg:
			// the receiving server overwrites the proposer with the connection's id: a different block
			blk := hotstuff.NewBlock(p.Block.Parent(), p.Block.QuorumCert(), p.Block.Commands(), p.Block.View(), me.ID)
			cl.register(blk)
			a.send(me, to, hotstuff.ProposeMsg{ID: me.ID, Block: blk, AggregateQC: p.AggregateQC})
		}
	case AEquivocate:
		v := a.leaderViewNear(me, B)
		qc := a.highestKnownQC()
		if b := a.blockOf(qc.BlockHash()); b != nil && b.View() >= v {
			v = b.View() + 1
		}
		tos := a.targets(0)
		b1 := hotstuff.NewBlock(qc.BlockHash(), qc, a.batch(), v, me.ID)
		b2 := hotstuff.NewBlock(qc.BlockHash(), qc, a.batch(), v, me.ID)
		cl.register(b1)
		cl.register(b2)
		for i, to := range tos {
			if (mod(C, 1<<16)>>uint(i%16))&1 == 0 {
				a.send(me, to, hotstuff.ProposeMsg{ID: me.ID, Block: b1})
			} else {
				a.send(me, to, hotstuff.ProposeMsg{ID: me.ID, Block: b2})
			}
		}
	case AProposeSkip:
		v := a.leaderViewNear(me, B)
		qc := a.highestKnownQC()
		cb := a.blockOf(qc.BlockHash())
		if cb == nil {
			return
		}
		if cb.View() >= v {
			v = cb.View() + 1
		}
		parent := cb
		for k := 1 + mod(C, 3); k > 0; k-- {
			if p := a.blockOf(parent.Parent()); p != nil {
				parent = p
			}
		}
		if mod(C, 5) == 4 {
			parent = cl.AllBlk[mod(B, len(cl.AllBlk))]
		}
		blk := hotstuff.NewBlock(parent.Hash(), qc, a.batch(), v, me.ID)
		cl.register(blk)
		for _, to := range a.targets(0) {
			a.send(me, to, hotstuff.ProposeMsg{ID: me.ID, Block: blk})
		}
	case AProposeStaleQC:
		v := a.leaderViewNear(me, B)
		qc := a.highestKnownQC()
		cb := a.blockOf(qc.BlockHash())
		if cb == nil {
			return
		}
		if cb.View() >= v {
			v = cb.View() + 1
		}
		// walk down the certified chain
		old := cb
		for k := 1 + mod(C, 3); k > 0; k-- {
			if p := a.blockOf(old.QuorumCert().BlockHash()); p != nil {
				old = p
			}
		}
		blk := hotstuff.NewBlock(old.QuorumCert().BlockHash(), old.QuorumCert(), a.batch(), v, me.ID)
		cl.register(blk)
		for _, to := range a.targets(0) {
			a.send(me, to, hotstuff.ProposeMsg{ID: me.ID, Block: blk})
		}
	case AProposeOldAgg:
		if len(a.AggQCs) == 0 {
			return
		}
		old := a.AggQCs[mod(B, len(a.AggQCs))]
		var best hotstuff.QuorumCert
		found := false
		for _, c := range old.QCs() {
			if b := a.blockOf(c.BlockHash()); b != nil && b.View() == c.View() && (!found || c.View() > best.View()) {
				best, found = c, true
			}
		}
		if !found {
			return
		}
		v := a.leaderViewNear(me, C)
		if best.View() >= v {
			v = best.View() + 1
		}
		blk := hotstuff.NewBlock(best.BlockHash(), best, a.batch(), v, me.ID)
		cl.register(blk)
		for _, to := range a.targets(0) {
			a.send(me, to, hotstuff.ProposeMsg{ID: me.ID, Block: blk, AggregateQC: &old})
		}
	case AProposeRelabelledSigners:
		v := a.leaderViewNear(me, B)
		qc := a.highestKnownQC()
		if b := a.blockOf(qc.BlockHash()); b != nil && b.View() >= v {
			v = b.View() + 1
		}
		var agg *hotstuff.AggregateQC
		if cl.Cfg.Rules == "fasthotstuff" && len(a.AggQCs) > 0 {
			x := a.AggQCs[len(a.AggQCs)-1]
			agg = &x
			if best, ok := highestIn(x); ok {
				qc = best
				if best.View() >= v {
					v = best.View() + 1
				}
			}
		}
		rq, ok := a.relabelSigners(qc, C)
		if !ok {
			return
		}
		blk := hotstuff.NewBlock(rq.BlockHash(), rq, a.batch(), v, me.ID)
		cl.register(blk)
		for _, to := range a.targets(0) {
			a.send(me, to, hotstuff.ProposeMsg{ID: me.ID, Block: blk, AggregateQC: agg})
		}
	case AToggleFetch:
		a.ServeFetch = !a.ServeFetch
		a.ServeFrom = 0
	case AServeRecentOnly:
		a.ServeFetch = true
		if mv, k := a.maxView(), hotstuff.View(1+mod(B, 5)); mv > k {
			a.ServeFrom = mv - k
		}
	}
}

// ambiguousBatch is a batch of one client command (client 99, a fresh sequence number below 128) whose data is
// hash(32) | signer id(4) | length of the certificate's encoding(4): appended to it, the encoding of the block's real
// certificate reads like the single signature of another certificate.
func (a *Actor) ambiguousBatch(qc hotstuff.QuorumCert, B int) *clientpb.Batch {
	a.ambSeq++
	data := make([]byte, 0, 40)
	h := sha256.Sum256([]byte(fmt.Sprintf("ambiguous %d", B)))
	data = append(data, h[:]...)
	data = binary.LittleEndian.AppendUint32(data, uint32(1+mod(B, a.cl.Cfg.N)))
	data = binary.LittleEndian.AppendUint32(data, uint32(len(qc.ToBytes())))
	return &clientpb.Batch{Commands: []*clientpb.Command{{ClientID: 99, SequenceNumber: uint64(a.ambSeq % 128), Data: data}}}
}

// prepareTwin builds the second reading of blk's bytes: same parent, proposer, view and time, NO commands, and a
// certificate whose view is the 8 bytes of protobuf framing of blk's batch, whose block hash is the first 32 data bytes,
// and whose one "signature" (signer = the next 4 bytes) is the encoding of blk's real certificate. It is kept (and served
// to fetches) only if it really hashes like blk, i.e. if a block hash does not determine the block.
func (a *Actor) prepareTwin(blk *hotstuff.Block, C int) {
	raw := blk.Commands().Marshal()
	cmds := blk.Commands().GetCommands()
	if len(cmds) != 1 || len(cmds[0].Data) != 40 || len(raw) != 48 {
		return
	}
	data := cmds[0].Data
	var h hotstuff.Hash
	copy(h[:], data[:32])
	signer := hotstuff.ID(binary.LittleEndian.Uint32(data[32:36]))
	view := hotstuff.View(binary.LittleEndian.Uint64(raw[:8]))
	inner := blk.QuorumCert().ToBytes()
	var sig hotstuff.QuorumSignature
	if mod(C, 2) == 0 {
		sig = crypto.Multi[*crypto.ECDSASignature]{crypto.RestoreECDSASignature(inner, signer)}
	} else {
		sig = crypto.Multi[*crypto.EDDSASignature]{crypto.RestoreEDDSASignature(inner, signer)}
	}
	twin := hotstuff.NewBlock(blk.Parent(), hotstuff.NewQuorumCert(sig, view, h), &clientpb.Batch{}, blk.View(), blk.Proposer())
	twin.SetTimestamp(blk.Timestamp())
	a.AmbiguousProposals++
	if twin.Hash() != blk.Hash() {
		return
	}
	if a.Twin == nil {
		a.Twin = map[hotstuff.Hash]*hotstuff.Block{}
	}
	a.Twin[blk.Hash()] = twin
}

// highestIn returns the certificate of the highest view attested inside an aggregate QC.
func highestIn(agg hotstuff.AggregateQC) (best hotstuff.QuorumCert, found bool) {
	for _, c := range agg.QCs() {
		if !found || c.View() > best.View() {
			best, found = c, true
		}
	}
	return
}

// relabelSigners keeps view, block hash and signature bytes of a certificate and attributes the individual signatures to
// other replicas: labels rotated among the signers (even sel) or one label replaced by a replica that did not sign (odd sel).
func (a *Actor) relabelSigners(qc hotstuff.QuorumCert, sel int) (hotstuff.QuorumCert, bool) {
	sig := qc.Signature()
	if sig == nil || sig.Participants().Len() < 2 {
		return qc, false
	}
	var ids []hotstuff.ID
	sig.Participants().ForEach(func(id hotstuff.ID) { ids = append(ids, id) })
	labels := make([]hotstuff.ID, len(ids))
	if mod(sel, 2) == 0 {
		rot := 1 + mod(sel/2, len(ids)-1)
		for i := range ids {
			labels[i] = ids[(i+rot)%len(ids)]
		}
	} else {
		copy(labels, ids)
		var outsider hotstuff.ID
		for id := 1; id <= a.cl.Cfg.N; id++ {
			if !sig.Participants().Contains(hotstuff.ID(id)) {
				outsider = hotstuff.ID(id)
			}
		}
		if outsider == 0 {
			return qc, false
		}
		labels[mod(sel/2, len(labels))] = outsider
	}
	var out hotstuff.QuorumSignature
	switch m := sig.(type) {
	case crypto.Multi[*fastSig]:
		var l crypto.Multi[*fastSig]
		for i, p := range m {
			l = append(l, &fastSig{labels[i], p.tag})
		}
		out = l
	case crypto.Multi[*crypto.ECDSASignature]:
		l := make([]*crypto.ECDSASignature, len(m))
		for i, p := range m {
			l[i] = crypto.RestoreECDSASignature(p.ToBytes(), labels[i])
		}
		out = crypto.NewMulti(l...)
	case crypto.Multi[*crypto.EDDSASignature]:
		l := make([]*crypto.EDDSASignature, len(m))
		for i, p := range m {
			l[i] = crypto.RestoreEDDSASignature(p.ToBytes(), labels[i])
		}
		out = crypto.NewMulti(l...)
	default:
		return qc, false
	}
	rq := hotstuff.NewQuorumCert(out, qc.View(), qc.BlockHash())
	a.Forged[string(rq.ToBytes())+fmt.Sprint(labels)] = "relabelled-signers"
	a.ForgedQCs = append(a.ForgedQCs, rq) // new-view and timeout messages carry the newest fabricated certificates
	return rq, true
}


// AutoPilot makes the actor behave like an honest replica by default (vote for well-formed proposals of the scheduled
// leader, assemble the QC and propose when it leads the next view, propose after a view change it leads), so that runs
// with a Byzantine replica get deep; the scripted actions are the deviations. Enabled by Config.ActorAuto.
func (a *Actor) AutoPilot() {
	a.learn()
	cl := a.cl
	q := cl.Quorum()
	for _, me := range a.stacks {
		lr := leaderRot{cl, me}
		// vote
		lo := len(cl.AllBlk) - 6
		if lo < 0 {
			lo = 0
		}
		for _, b := range cl.AllBlk[lo:] {
			k := fmt.Sprintf("%d/%s", me.Idx, b.Hash())
			if b.View() == 0 || a.voted[k] || b.Proposer() != lr.GetLeader(b.View()) || b.Parent() != b.QuorumCert().BlockHash() {
				continue
			}
			if b.View()+3 < a.maxView() {
				continue
			}
			a.voted[k] = true
			pc := hotstuff.NewPartialCert(a.sign(me, b.ToBytes()), b.Hash())
			next := lr.GetLeader(b.View() + 1)
			if next == me.ID {
				a.Votes[b.Hash()] = append(a.Votes[b.Hash()], pc)
			}
			for _, to := range cl.ByID[next] {
				a.send(me, to, hotstuff.VoteMsg{ID: me.ID, PartialCert: pc})
			}
		}
		// propose on a quorum of votes
		for _, b := range cl.AllBlk[lo:] {
			nv := b.View() + 1
			pk := fmt.Sprintf("%d/%d", me.Idx, nv)
			if b.View() == 0 || lr.GetLeader(nv) != me.ID || a.proposed[pk] || len(a.Votes[b.Hash()]) < q {
				continue
			}
			var sigs []hotstuff.QuorumSignature
			seen := map[hotstuff.ID]bool{}
			for _, v := range a.Votes[b.Hash()] {
				if !seen[v.Signer()] && len(sigs) < q {
					seen[v.Signer()] = true
					sigs = append(sigs, v.Signature())
				}
			}
			if len(sigs) < q || len(sigs) < 2 {
				continue
			}
			sig, err := me.base.Combine(sigs...)
			if err != nil {
				continue
			}
			qc := hotstuff.NewQuorumCert(sig, b.View(), b.Hash())
			a.addQC(qc)
			a.proposed[pk] = true
			a.proposeMaybeDeviating(me, qc, nv, nil)
		}
		// propose after a view change (somebody is in a view the actor leads and waits for its proposal)
		v := a.maxView()
		pk := fmt.Sprintf("%d/%d", me.Idx, v)
		if v >= 1 && lr.GetLeader(v) == me.ID && !a.proposed[pk] {
			qc := a.highestKnownQC()
			if cb := a.blockOf(qc.BlockHash()); cb != nil && cb.View() < v {
				a.proposed[pk] = true
				var agg *hotstuff.AggregateQC
				if cl.Cfg.Rules == "fasthotstuff" && len(a.AggQCs) > 0 {
					x := a.AggQCs[len(a.AggQCs)-1]
					agg = &x
				}
				a.proposeMaybeDeviating(me, qc, v, agg)
			}
		}
	}
}


// proposeMaybeDeviating sends the proposal an honest leader would send for view v with certificate qc — unless a
// deviation is armed, in which case that proposal is bent at exactly this moment (fresh certificate, right view).
func (a *Actor) proposeMaybeDeviating(me *Stack, qc hotstuff.QuorumCert, v hotstuff.View, agg *hotstuff.AggregateQC) {
	cl := a.cl
	dev := a.armed
	a.armed = nil
	parent := qc.BlockHash()
	tos := a.targets(0)
	if dev != nil {
		a.Deviations++
		cb := a.blockOf(qc.BlockHash())
		switch dev.A {
		case AProposeSkip:
			// certificate fresh, parent older
			p := cb
			for k := 1 + mod(dev.C, 3); k > 0 && p != nil; k-- {
				if pp := a.blockOf(p.Parent()); pp != nil {
					p = pp
				}
			}
			if mod(dev.C, 5) == 4 {
				p = cl.AllBlk[mod(dev.B, len(cl.AllBlk))]
			}
			if p != nil {
				parent = p.Hash()
			}
		case AProposeStaleQC:
			old := cb
			for k := 1 + mod(dev.C, 3); k > 0 && old != nil; k-- {
				if p := a.blockOf(old.QuorumCert().BlockHash()); p != nil {
					old = p
				}
			}
			if old != nil {
				qc = old.QuorumCert()
				parent = qc.BlockHash()
			}
		case AProposeWeird:
			if mod(dev.C, 4) == 1 && cb != nil {
				v = cb.View() // a second block in the view of the certified block it extends
				break
			}
			parent = cl.AllBlk[mod(dev.B, len(cl.AllBlk))].Hash()
			qc = a.QCs[mod(dev.C, len(a.QCs))]
		case AProposeRelabelledSigners:
			if agg != nil {
				if best, ok := highestIn(*agg); ok && best.BlockHash() == qc.BlockHash() {
					qc = best // exactly the aggregate's high QC, then relabelled
				}
			}
			if rq, ok := a.relabelSigners(qc, dev.C); ok {
				qc = rq
			}
		case AProposeOldAgg:
			if len(a.AggQCs) == 0 {
				break
			}
			old := a.AggQCs[mod(dev.B, len(a.AggQCs))]
			// the highest certificate attested inside that aggregate
			var best hotstuff.QuorumCert
			found := false
			for _, c := range old.QCs() {
				if b := a.blockOf(c.BlockHash()); b != nil && b.View() == c.View() && (!found || c.View() > best.View()) {
					best, found = c, true
				}
			}
			if !found {
				break
			}
			qc, parent = best, best.BlockHash()
			agg = &old
		case AProposeOnForged:
			if cb == nil || v < 3 {
				break
			}
			// hidden block X on an old branch point
			old := cb
			for k := 1 + mod(dev.B, 4); k > 0; k-- {
				if p := a.blockOf(old.Parent()); p != nil {
					old = p
				}
			}
			oldQC := a.QCs[0]
			for _, c := range a.QCs {
				if _, forged := a.Forged[string(c.ToBytes())]; !forged && c.BlockHash() == old.Hash() && c.View() == old.View() {
					oldQC = c
				}
			}
			if oldQC.BlockHash() != old.Hash() {
				break
			}
			x := hotstuff.NewBlock(old.Hash(), oldQC, a.batch(), v-1, me.ID)
			cl.register(x)
			var fsig hotstuff.QuorumSignature
			switch mod(dev.C, 3) {
			case 0:
				fsig = repeat(a.sign(me, x.ToBytes()), cl.Quorum())
			case 1:
				var sigs []hotstuff.QuorumSignature
				for _, o := range a.stacks {
					sigs = append(sigs, a.sign(o, x.ToBytes()))
				}
				fsig = sigs[0]
				if len(sigs) >= 2 {
					if c, err := me.base.Combine(sigs...); err == nil {
						fsig = c
					}
				}
			default:
				fsig = qc.Signature() // a real quorum's signatures, over another block
			}
			fqc := hotstuff.NewQuorumCert(fsig, x.View(), x.Hash())
			a.Forged[string(fqc.ToBytes())] = "forged-for-hidden-block"
			a.addQC(fqc)
			qc, parent = fqc, x.Hash()
		case AEquivocate:
			b1 := hotstuff.NewBlock(parent, qc, a.batch(), v, me.ID)
			b2 := hotstuff.NewBlock(parent, qc, a.batch(), v, me.ID)
			cl.register(b1)
			cl.register(b2)
			for i, to := range tos {
				if (mod(dev.C, 1<<16)>>uint(i%16))&1 == 0 {
					a.send(me, to, hotstuff.ProposeMsg{ID: me.ID, Block: b1, AggregateQC: agg})
				} else {
					a.send(me, to, hotstuff.ProposeMsg{ID: me.ID, Block: b2, AggregateQC: agg})
				}
			}
			return
		}
	}
	batch := a.batch()
	if dev != nil && dev.A == AProposeAmbiguous {
		batch = a.ambiguousBatch(qc, dev.B)
	}
	blk := hotstuff.NewBlock(parent, qc, batch, v, me.ID)
	if dev != nil && dev.A == AProposeAmbiguous {
		a.prepareTwin(blk, dev.C)
	}
	cl.register(blk)
	if a.hold {
		a.hold = false
		a.held = append(a.held, hotstuff.ProposeMsg{ID: me.ID, Block: blk, AggregateQC: agg})
		return
	}
	for _, to := range tos {
		a.send(me, to, hotstuff.ProposeMsg{ID: me.ID, Block: blk, AggregateQC: agg})
	}
}
