package sim

import (
	"encoding/json"
	"fmt"
	"os"
	"testing"

	"github.com/relab/hotstuff"
)

// TestTraceReplay prints a compact trace of a simulator replay file (VERIF_TRACE_FILE); a debugging aid, not a check.
func TestTraceReplay(t *testing.T) {
	path := os.Getenv("VERIF_TRACE_FILE")
	if path == "" {
		t.Skip("no trace file")
	}
	raw, err := os.ReadFile(path)
	if err != nil {
		t.Fatal(err)
	}
	var rf struct {
		Case Case `json:"case"`
	}
	if err := json.Unmarshal(raw, &rf); err != nil {
		t.Fatal(err)
	}
	c := rf.Case
	cl, err := New(c.Cfg)
	if err != nil {
		t.Fatal(err)
	}
	defer cl.Close()
	name := map[hotstuff.Hash]string{hotstuff.GetGenesis().Hash(): "G"}
	bn := func(h hotstuff.Hash) string {
		if n, ok := name[h]; ok {
			return n
		}
		return h.SmallString()
	}
	seenBlk, seenLog := 0, 0
	commits := map[int]int{}
	views := map[int]hotstuff.View{}
	dump := func() {
		for ; seenBlk < len(cl.AllBlk); seenBlk++ {
			b := cl.AllBlk[seenBlk]
			if b.View() == 0 {
				continue
			}
			name[b.Hash()] = fmt.Sprintf("B%d.p%d.#%d", b.View(), b.Proposer(), seenBlk)
			fmt.Printf("    new block %s parent=%s qc=(%s,v%d)\n", name[b.Hash()], bn(b.Parent()), bn(b.QuorumCert().BlockHash()), b.QuorumCert().View())
		}
		for ; seenLog < len(cl.Log); seenLog++ {
			m := cl.Log[seenLog]
			d := ""
			switch p := m.Payload.(type) {
			case hotstuff.ProposeMsg:
				d = fmt.Sprintf("PROPOSE %s agg=%v", bn(p.Block.Hash()), p.AggregateQC != nil)
				if p.AggregateQC != nil {
					d += fmt.Sprintf("(aggview %d)", p.AggregateQC.View())
				}
			case hotstuff.VoteMsg:
				d = "VOTE " + bn(p.PartialCert.BlockHash())
			case hotstuff.TimeoutMsg:
				d = fmt.Sprintf("TIMEOUT v%d", p.View)
			case hotstuff.NewViewMsg:
				d = "NEWVIEW " + p.SyncInfo.String()
			}
			fmt.Printf("    sent s%d->s%d %s\n", m.From, m.To, d)
		}
		for _, st := range cl.Stacks {
			if !st.Live() {
				continue
			}
			if st.VS.View() != views[st.Idx] {
				fmt.Printf("    s%d (r%d) view %d -> %d  highQC=(%s,v%d)\n", st.Idx, st.ID, views[st.Idx], st.VS.View(), bn(st.VS.HighQC().BlockHash()), st.VS.HighQC().View())
				views[st.Idx] = st.VS.View()
			}
			for ; commits[st.Idx] < len(st.Commits); commits[st.Idx]++ {
				fmt.Printf("    s%d (r%d) COMMITS %s\n", st.Idx, st.ID, bn(st.Commits[commits[st.Idx]].Hash()))
			}
		}
	}
	fmt.Printf("config: %s auto=%v stacks:", c.Cfg.Describe(), c.Cfg.ActorAuto)
	for _, st := range cl.Stacks {
		fmt.Printf(" s%d=r%d/%s", st.Idx, st.ID, st.Kind)
	}
	fmt.Println()
	cl.Start()
	dump()
	mon := &ledgerMonitor{cl: cl, checked: map[int]int{}}
	for i, s := range c.Steps {
		fmt.Printf("step %d: %+v\n", i, s)
		cl.Apply(s)
		dump()
		if fp, msg := mon.check(); fp != "" {
			fmt.Println("VIOLATION", fp, msg)
			break
		}
	}
}
