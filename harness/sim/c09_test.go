package sim

// C09 (all-to-one collector) — votes form a QC exactly when a quorum voted for that block.

import (
	"sync"
	"bytes"
	"fmt"
	"os"
	"runtime"
	"sort"
	"testing"
	"time"

	"github.com/relab/hotstuff"
	"github.com/relab/hotstuff/core/eventloop"
	"github.com/relab/hotstuff/internal/proto/clientpb"
	"github.com/relab/hotstuff/security/crypto"
	"github.com/relab/hotstuff/verifx/common"
	"github.com/relab/hotstuff/verifx/kit"
	"pgregory.net/rapid"
)

// lockedLog collects a log that verification goroutines write concurrently.
type lockedLog struct {
	mu  sync.Mutex
	buf bytes.Buffer
}

func (l *lockedLog) Write(p []byte) (int, error) {
	l.mu.Lock()
	defer l.mu.Unlock()
	return l.buf.Write(p)
}

func (l *lockedLog) contains(s string) bool {
	l.mu.Lock()
	defer l.mu.Unlock()
	return bytes.Contains(l.buf.Bytes(), []byte(s))
}

// knownFlood is the fingerprint of open finding 40.
const knownFlood = "parked-votes-evicted-by-flood"

type vmsg struct {
	K    string // vote | dup | other-block | unknown-block | old-block | garbage | multi | non-member | empty-agg | propose | propose-other
	From int    // voter id 2..N
	Count int   `json:",omitempty"` // flood: that many votes for a block nobody stores, all from this replica
}

type c09Case struct {
	N      int
	Crypto string
	Async  bool
	Msgs   []vmsg
	LoopCap int `json:",omitempty"` // capacity of the collector's event queue (0: large; the repository's wiring uses 100)
}

func sigOf(st *Stack, m []byte) hotstuff.QuorumSignature {
	s, err := st.base.Sign(m)
	if err != nil {
		panic(err)
	}
	return s
}

// stableGoroutines waits until the goroutine count has stopped changing (goroutines of the previous case have exited).
func stableGoroutines() int {
	last, same := runtime.NumGoroutine(), 0
	for i := 0; i < 4000 && same < 20; i++ {
		time.Sleep(100 * time.Microsecond)
		if n := runtime.NumGoroutine(); n == last {
			same++
		} else {
			last, same = n, 0
		}
	}
	return last
}

// settle lets concurrent vote verification finish: time is used only to wait, never to decide.
func (cl *Cluster) settle(st *Stack, base int) bool {
	if !cl.Cfg.AsyncVotes {
		return true
	}
	for i := 0; i < 20000; i++ {
		if runtime.NumGoroutine() <= base {
			cl.drain(st)
			if runtime.NumGoroutine() <= base {
				return true
			}
		}
		time.Sleep(50 * time.Microsecond)
	}
	return false
}

// firstRunLog holds the debug log of the case being evaluated when VERIF_C09_LOG is set (hunting a load-dependent failure).
var firstRunLog *bytes.Buffer

func c09Prop(c c09Case) common.Result {
	if os.Getenv("VERIF_C09_LOG") != "" && !diagnosing && c.Crypto == "bls12" {
		firstRunLog = &bytes.Buffer{}
		kit.Capture = firstRunLog
		defer func() { kit.Capture = nil; firstRunLog = nil }()
	}
	// with a small event queue the loop's own report of dropped events is read from its log
	var dropLog *lockedLog
	if c.LoopCap > 0 && kit.Capture == nil {
		dropLog = &lockedLog{}
		kit.Capture = dropLog
		defer func() { kit.Capture = nil }()
	}
	// replica 1 (the subject) leads view 2 and therefore collects the votes for the block of view 1, proposed by replica 2
	cfg := Config{N: c.N, Rules: "chainedhotstuff", Crypto: c.Crypto, Batch: 1, Leaders: []int{2, 1, 3, 3, 3, 3, 3, 3}, AsyncVotes: c.Async, LoopCap: c.LoopCap}
	base := 0
	if c.Async {
		base = stableGoroutines() + 1 // + the cluster's watchdog
	}
	cl, err := New(cfg)
	if err != nil {
		return common.Fail("harness", "cluster: %v", err)
	}
	defer cl.Close()
	sub := cl.Stacks[0]
	q := cl.Quorum()
	g := hotstuff.GetGenesis()
	mk := func(tag string, view hotstuff.View, proposer hotstuff.ID) *hotstuff.Block {
		return kit.NewBlock(g.Hash(), kit.GenesisQC(), &clientpb.Batch{Commands: []*clientpb.Command{{ClientID: 7, SequenceNumber: 1, Data: []byte(tag)}}}, view, proposer)
	}
	b1 := mk("b1", 1, 2)
	other := mk("other", 1, 2)   // an equivocating sibling, known to everybody
	unknown := mk("nobody", 1, 2) // stored nowhere
	for _, st := range cl.Stacks[1:] {
		st.BC.Store(b1) // the voters hold the block they vote for: it can be fetched from them
		st.BC.Store(other)
	}
	cl.register(b1)
	cl.register(other)
	var qcs []hotstuff.QuorumCert
	eventloop.Register(sub.EL, func(m hotstuff.NewViewMsg) {
		if qc, ok := m.SyncInfo.QC(); ok && !m.FromNetwork {
			qcs = append(qcs, qc)
		}
	})
	deliver := func(from int, p any) bool {
		cl.StepNo++
		cl.Deliver(Msg{From: from - 1, To: 0, Payload: p})
		return cl.settle(sub, base)
	}
	vote := func(st *Stack, b *hotstuff.Block) hotstuff.VoteMsg {
		return hotstuff.VoteMsg{ID: st.ID, PartialCert: hotstuff.NewPartialCert(sigOf(st, b.ToBytes()), b.Hash())}
	}
	// reference
	S := map[int]bool{}        // effective valid voters for b1
	waiting := map[int]bool{}  // valid votes that arrived before the block and wait for the next proposal event
	otherS := map[int]bool{}
	otherWaiting := map[int]bool{}
	haveB1, haveOther := false, false
	expectQC, expectOtherQC := false, false
	hostileBefore, early := 0, 0
	floods := 0
	formedAt := -1
	for step, m := range c.Msgs {
		from := m.From
		if from < 2 || from > c.N {
			continue
		}
		st := cl.Stacks[from-1]
		if formedAt >= 0 {
			break // after the certificate is out, further votes are legitimately ignored or may legitimately re-form it
		}
		ok := true
		switch m.K {
		case "propose":
			if haveB1 {
				continue
			}
			ok = deliver(2, hotstuff.ProposeMsg{ID: 2, Block: b1})
			haveB1 = true
			if !haveOther {
				S[1] = true // the subject votes for the valid proposal itself (unless it already voted in this view)
			}
			for v := range waiting {
				S[v] = true
			}
			waiting = map[int]bool{}
			for v := range otherWaiting {
				otherS[v] = true
			}
			otherWaiting = map[int]bool{}
		case "propose-other":
			// an equivocating proposal for the same view arrives (the subject votes at most once per view)
			if haveOther {
				continue
			}
			ok = deliver(2, hotstuff.ProposeMsg{ID: 2, Block: other})
			haveOther = true
			if !haveB1 {
				otherS[1] = true
			}
			haveAny := true
			_ = haveAny
			for v := range waiting { // any proposal event releases deferred votes; b1 can be fetched from the voters
				S[v] = true
			}
			waiting = map[int]bool{}
			for v := range otherWaiting {
				otherS[v] = true
			}
			otherWaiting = map[int]bool{}
			if !haveB1 {
				// the subject has now voted in view 1: a later proposal of b1 is refused, but b1 is still fetched for the votes
			}
		case "vote", "dup":
			vm := vote(st, b1)
			ok = deliver(from, vm)
			if m.K == "dup" {
				ok = deliver(from, vm) && ok
			}
			if sub.hasBlock(b1) {
				S[from] = true
			} else {
				waiting[from] = true
				early++
			}
		case "other-block":
			ok = deliver(from, vote(st, other))
			if sub.hasBlock(other) {
				otherS[from] = true
			} else {
				otherWaiting[from] = true
			}
			hostileBefore++
		case "unknown-block":
			ok = deliver(from, vote(st, unknown))
			hostileBefore++
		case "flood":
			// one replica sends many votes for a block nobody stores (each is parked until the next proposal arrives)
			for k := 0; k < m.Count && ok; k++ {
				ok = deliver(from, vote(st, unknown))
			}
			hostileBefore++
			floods++
		case "old-block":
			ok = deliver(from, vote(st, g))
			hostileBefore++
		case "garbage":
			ok = deliver(from, hotstuff.VoteMsg{ID: st.ID, PartialCert: hotstuff.NewPartialCert(sigOf(st, []byte("garbage")), b1.Hash())})
			hostileBefore++
		case "multi":
			// a "vote" whose signature is a valid multi-signature of two replicas (both really signed the block)
			o := cl.Stacks[1+(from-1)%(c.N-1)]
			if o.Idx == st.Idx {
				o = cl.Stacks[1+from%(c.N-1)]
			}
			cmb, err := st.base.Combine(sigOf(st, b1.ToBytes()), sigOf(o, b1.ToBytes()))
			if err != nil {
				continue
			}
			ok = deliver(from, hotstuff.VoteMsg{ID: st.ID, PartialCert: hotstuff.NewPartialCert(cmb, b1.Hash())})
			hostileBefore++
		case "repeat-self":
			if c.Crypto == "bls12" {
				continue // an aggregate cannot repeat a signer in its bit-field
			}
			// a "vote" whose multi-signature repeats the sender's own signature
			ok = deliver(from, hotstuff.VoteMsg{ID: st.ID, PartialCert: hotstuff.NewPartialCert(repeat(sigOf(st, b1.ToBytes()), 2), b1.Hash())})
			hostileBefore++
		case "non-member":
			f := kit.NewForeignMember(map[string]string{"fast": "ecdsa"}[c.Crypto] + map[string]string{"ecdsa": "ecdsa", "eddsa": "eddsa", "bls12": "bls12"}[c.Crypto])
			var sig hotstuff.QuorumSignature
			if c.Crypto == "fast" {
				sig = crypto.NewMulti(&fastSig{hotstuff.ID(c.N + 1), fastTag(hotstuff.ID(c.N+1), b1.ToBytes())})
			} else {
				s, _ := f.Base.Sign(b1.ToBytes())
				sig = relabelTo(s, hotstuff.ID(c.N+1))
			}
			ok = deliver(from, hotstuff.VoteMsg{ID: st.ID, PartialCert: hotstuff.NewPartialCert(sig, b1.Hash())})
			hostileBefore++
		case "empty-agg":
			if c.Crypto != "bls12" {
				continue
			}
			ok = deliver(from, hotstuff.VoteMsg{ID: st.ID, PartialCert: hotstuff.NewPartialCert(kit.EmptySig("bls12"), b1.Hash())})
			hostileBefore++
		default:
			continue
		}
		if !ok {
			common.Get("C09").Inconclusive("asynchronous verification did not settle within the wait guard")
			return common.OK(false, "", "inconclusive")
		}
		if len(S) >= q {
			expectQC = true
		}
		if len(otherS) >= q {
			expectOtherQC = true
		}
		desc := fmt.Sprintf("n=%d %s async=%v step %d %+v; valid effective votes for the block: %v (waiting for the block: %v), quorum %d\nhistory: %+v", c.N, c.Crypto, c.Async, step, m, keys(S), keys(waiting), q, c.Msgs[:step+1])
		// (c) everything emitted verifies elsewhere, names the block and its view, and has only real voters
		for _, qc := range qcs {
			target, set := b1, S
			if qc.BlockHash() == other.Hash() {
				target, set = other, otherS
			} else if qc.BlockHash() != b1.Hash() {
				return common.Fail("qc-for-wrong-block", "a certificate for %s was emitted\n%s", qc.BlockHash().SmallString(), desc)
			}
			if qc.View() != target.View() {
				return common.Fail("qc-wrong-view", "the emitted certificate states view %d for a block of view %d\n%s", qc.View(), target.View(), desc)
			}
			bad := false
			qc.Signature().Participants().ForEach(func(id hotstuff.ID) {
				if !set[int(id)] {
					bad = true
				}
			})
			if bad {
				return common.Fail("qc-foreign-signers", "the emitted certificate has signers %s, valid votes came from %v\n%s", hotstuff.IDSetToString(qc.Signature().Participants()), keys(set), desc)
			}
			if err := cl.Stacks[len(cl.Stacks)-1].Auth.VerifyQuorumCert(qc); err != nil {
				if v := cl.Stacks[len(cl.Stacks)-1]; kit.QuirkSig(v.Cfg, v.base, qc.Signature(), target.ToBytes()) {
					return common.Fail(kit.KnownBLS, "the emitted certificate is rejected at replica %d (%v) although its signature satisfies the verification equation in other arrangements\n%s", v.ID, err, desc)
				}
				return common.Fail("qc-does-not-verify", "the emitted certificate (signers %s) does not verify at replica %d: %v\n%s", hotstuff.IDSetToString(qc.Signature().Participants()), cl.Stacks[len(cl.Stacks)-1].ID, err, desc)
			}
		}
		nB1, nOther := 0, 0
		for _, qc := range qcs {
			if qc.BlockHash() == b1.Hash() {
				nB1++
			} else {
				nOther++
			}
		}
		// (a) not before the quorum, (b) present once the quorum is complete
		if nB1 > 0 && !expectQC {
			return common.Fail("qc-before-quorum", "a certificate was emitted although only %v validly voted\n%s", keys(S), desc)
		}
		if nOther > 0 && !expectOtherQC {
			return common.Fail("qc-before-quorum", "a certificate for the sibling block was emitted although only %v validly voted for it\n%s", keys(otherS), desc)
		}
		if expectQC && nB1 == 0 && nOther == 0 && c.Async {
			// diagnostic: was the certificate merely late (a harness wait problem) or is it absent?
			time.Sleep(300 * time.Millisecond)
			cl.drain(sub)
			if len(qcs) > 0 {
				common.Get("C09").Inconclusive(fmt.Sprintf("harness: certificate arrived after settle() (goroutines %d, base %d)", runtime.NumGoroutine(), base))
				return common.OK(false, "", "inconclusive-late-qc")
			}
		}
		if expectQC && nB1 == 0 && nOther == 0 && cl.blsQuirkAmong(sub, S, b1.ToBytes()) {
			return common.Fail(kit.KnownBLS, "a quorum of valid votes has arrived but no certificate was produced: the collector's scheme rejects one of the valid BLS votes although the signature satisfies the verification equation in other arrangements\n%s", desc)
		}
		if expectQC && nB1 == 0 && nOther == 0 && floods > 0 && dropLog != nil && dropLog.contains("event queue is full, dropped event") {
			return common.Fail(knownFlood, "a quorum of valid votes for the block has arrived but no certificate was produced: votes that waited for the block were re-queued together with one replica's flood of votes for a block nobody stores, and the collector's event queue (capacity %d) dropped the oldest entries - the valid votes\n%s", c.LoopCap, desc)
		}
		if expectQC && nB1 == 0 && nOther == 0 {
			return common.Fail("qc-missing", "a quorum of valid votes for the block has arrived but no certificate was produced\n%s%s", desc, diagnoseC09(c))
		}
		if (expectQC || nOther > 0) && formedAt < 0 {
			formedAt = step // from here on the block is no longer newer than the collector's high QC: the premise of the property ends
		}
	}
	cls := []string{fmt.Sprintf("n=%d", c.N), "crypto=" + c.Crypto, fmt.Sprintf("async=%v", c.Async)}
	if formedAt >= 0 {
		cls = append(cls, "qc-formed")
	}
	if early > 0 {
		cls = append(cls, "vote-before-block")
	}
	if hostileBefore > 0 {
		cls = append(cls, "hostile-votes")
	}
	if floods > 0 {
		cls = append(cls, "flood-of-unknown-block-votes")
	}
	return common.OK(formedAt >= 0 && (hostileBefore > 0 || early > 0), "", cls...)
}

func (st *Stack) hasBlock(b *hotstuff.Block) bool {
	_, ok := st.BC.LocalGet(b.Hash())
	return ok
}

// relabelTo keeps the bytes of a single signature and changes its signer label.
func relabelTo(s hotstuff.QuorumSignature, id hotstuff.ID) hotstuff.QuorumSignature {
	switch m := s.(type) {
	case crypto.Multi[*crypto.ECDSASignature]:
		return crypto.NewMulti(crypto.RestoreECDSASignature(m[0].ToBytes(), id))
	case crypto.Multi[*crypto.EDDSASignature]:
		return crypto.NewMulti(crypto.RestoreEDDSASignature(m[0].ToBytes(), id))
	case *crypto.BLS12AggregateSignature:
		var bf crypto.Bitfield
		bf.Add(id)
		r, err := crypto.RestoreBLS12AggregateSignature(m.ToBytes(), bf)
		if err != nil {
			panic(err)
		}
		return r
	}
	return s
}

func genC09(async bool) func(rt *rapid.T) c09Case {
	return func(rt *rapid.T) c09Case {
		c := c09Case{N: rapid.SampledFrom([]int{4, 4, 7}).Draw(rt, "n"), Async: async}
		c.Crypto = rapid.SampledFrom([]string{"fast", "fast", "ecdsa", "eddsa", "bls12"}).Draw(rt, "crypto")
		if c.Crypto == "bls12" {
			c.N = 4
		}
		kinds := []string{"vote", "vote", "vote", "vote", "dup", "other-block", "unknown-block", "old-block", "garbage", "multi", "repeat-self", "non-member", "empty-agg", "propose", "propose", "propose-other"}
		n := rapid.IntRange(1, 24).Draw(rt, "n")
		for i := 0; i < n; i++ {
			c.Msgs = append(c.Msgs, vmsg{K: rapid.SampledFrom(kinds).Draw(rt, "k"), From: rapid.IntRange(2, c.N).Draw(rt, "from")})
		}
		sort.SliceStable(c.Msgs, func(i, j int) bool { return false })
		if rapid.IntRange(0, 5).Draw(rt, "flood") == 0 {
			// the collector's event queue is as small as the repository's wiring makes it, and one replica floods it
			c.LoopCap = 100
			at := rapid.IntRange(0, len(c.Msgs)).Draw(rt, "flood-at")
			f := vmsg{K: "flood", From: rapid.IntRange(2, c.N).Draw(rt, "flooder"), Count: rapid.IntRange(60, 140).Draw(rt, "flood-count")}
			c.Msgs = append(c.Msgs[:at], append([]vmsg{f}, c.Msgs[at:]...)...)
		}
		return c
	}
}

func TestC09VotingMachine(t *testing.T) {
	common.Check(t, "C09", "TestC09VotingMachine", 8000, 200000, genC09(false), c09Prop)
}

// TestC09RaceVotingMachine runs the same property with concurrent vote verification (the production default) under -race.
func TestC09RaceVotingMachine(t *testing.T) {
	common.Check(t, "C09", "TestC09RaceVotingMachine", 800, 12000, genC09(true), c09Prop)
}

var diagnosing bool

// diagnoseC09 re-runs a failing case once in the same process with the replicas' debug log captured: the report then says
// whether the failure repeats (state of the case) or not (state outside the case), and what the collector logged.
func diagnoseC09(c c09Case) string {
	if diagnosing {
		return ""
	}
	diagnosing = true
	defer func() { diagnosing = false }()
	first := ""
	if firstRunLog != nil {
		first = firstRunLog.String()
		if len(first) > 9000 {
			first = first[len(first)-9000:]
		}
		first = "\n--- debug log of the FAILING run (tail):\n" + first
	}
	var buf bytes.Buffer
	saved := kit.Capture
	kit.Capture = &buf
	r := c09Prop(c)
	kit.Capture = saved
	log := buf.String() + first
	if len(log) > 16000 {
		log = log[len(log)-16000:]
	}
	return fmt.Sprintf("\n--- diagnosis: the same case run again in this process: fails again=%v (%s); goroutines=%d\n--- debug log of that second run (tail):\n%s", r.Err != "", r.Fingerprint, runtime.NumGoroutine(), log)
}

// blsQuirkAmong: the collector's scheme rejects the (deterministic) BLS signature of one of the given voters over msg although
// that signature satisfies the verification equation in other arrangements (known finding, see kit/blsquirk.go).
func (cl *Cluster) blsQuirkAmong(sub *Stack, voters map[int]bool, msg []byte) bool {
	if cl.Cfg.Crypto != "bls12" {
		return false
	}
	for id := range voters {
		for _, st := range cl.ByID[hotstuff.ID(id)] {
			if kit.QuirkSig(sub.Cfg, sub.base, sigOf(st, msg), msg) {
				return true
			}
		}
	}
	return false
}
