package sim

// C01 — committed ledgers of honest replicas never diverge.

import (
	"fmt"
	"sort"
	"strings"
	"testing"

	"github.com/relab/hotstuff"
	"github.com/relab/hotstuff/twins"
	"github.com/relab/hotstuff/verifx/common"
	"github.com/relab/hotstuff/verifx/kit"
	"pgregory.net/rapid"
)

// ledgerMonitor checks, incrementally after every step, that each honest log is one hash-linked chain from genesis with
// strictly increasing views and no repetition, and that honest logs are pairwise prefix-related.
type ledgerMonitor struct {
	cl      *Cluster
	checked map[int]int // stack -> number of commits already checked
}

func blockName(b *hotstuff.Block) string {
	if b == nil {
		return "nil"
	}
	return fmt.Sprintf("b(view %d, proposer %d, %s)", b.View(), b.Proposer(), b.Hash().SmallString())
}

func logNames(l []*hotstuff.Block) string {
	var s []string
	for _, b := range l {
		s = append(s, fmt.Sprintf("v%d/p%d/%s", b.View(), b.Proposer(), b.Hash().SmallString()))
	}
	return "[" + strings.Join(s, " ") + "]"
}

func (m *ledgerMonitor) check() (fp, msg string) {
	hs := m.cl.HonestStacks()
	for _, st := range hs {
		from := m.checked[st.Idx]
		for i := from; i < len(st.Commits); i++ {
			b := st.Commits[i]
			prev := hotstuff.GetGenesis()
			if i > 0 {
				prev = st.Commits[i-1]
			}
			if b.Parent() != prev.Hash() {
				return "ledger:not-hash-linked", fmt.Sprintf("replica %d (stack %d): commit #%d %s has parent %s, but the block committed immediately before it is %s\nlog: %s",
					st.ID, st.Idx, i, blockName(b), b.Parent().SmallString(), blockName(prev), logNames(st.Commits))
			}
			if b.View() <= prev.View() {
				return "ledger:views-not-increasing", fmt.Sprintf("replica %d: commit #%d %s does not have a higher view than its predecessor %s", st.ID, i, blockName(b), blockName(prev))
			}
			for j := 0; j < i; j++ {
				if st.Commits[j].Hash() == b.Hash() {
					return "ledger:committed-twice", fmt.Sprintf("replica %d: block %s committed at positions %d and %d", st.ID, blockName(b), j, i)
				}
			}
		}
		m.checked[st.Idx] = len(st.Commits)
	}
	for i := 0; i < len(hs); i++ {
		for j := i + 1; j < len(hs); j++ {
			a, b := hs[i].Commits, hs[j].Commits
			n := len(a)
			if len(b) < n {
				n = len(b)
			}
			for k := 0; k < n; k++ {
				if a[k].Hash() != b[k].Hash() {
					return "ledger:diverge", fmt.Sprintf("replicas %d and %d committed different blocks at position %d: %s vs %s\nlog %d: %s\nlog %d: %s",
						hs[i].ID, hs[j].ID, k, blockName(a[k]), blockName(b[k]), hs[i].ID, logNames(a), hs[j].ID, logNames(b))
				}
			}
		}
	}
	return "", ""
}

// runStats summarises a run for the class histogram and the non-triviality rule.
func (cl *Cluster) runStats() (maxCommits int, faults int, classes []string) {
	for _, st := range cl.HonestStacks() {
		if len(st.Commits) > maxCommits {
			maxCommits = len(st.Commits)
		}
	}
	for k, v := range cl.Faults {
		if k == "drop" || k == "partition" || k == "timeout" || k == "dup" || k == "dropped-by-scenario" {
			faults += v
		}
	}
	if cl.Actor != nil {
		faults += cl.Actor.Sent
		if cl.Actor.Sent > 0 {
			classes = append(classes, "actor-active")
		}
	}
	if len(cl.Cfg.Twins) > 0 {
		faults++
		classes = append(classes, "twins")
	}
	classes = append(classes, cl.Cfg.Rules, "n="+fmt.Sprint(cl.Cfg.N), "crypto="+cl.Cfg.Crypto)
	if len(cl.Cfg.ByView) > 0 {
		classes = append(classes, "twins-scenario")
	}
	if maxCommits > 0 {
		classes = append(classes, "commits>0:"+cl.Cfg.Rules)
	}
	if maxCommits >= 5 {
		classes = append(classes, "commits>=5")
	}
	if cl.Faults["fetch-served"]+cl.Faults["fetch-served-by-actor"] > 0 {
		classes = append(classes, "catch-up-by-fetch")
	}
	// a faulty replica was the leader of a view in which some honest replica committed or voted
	faulty := map[hotstuff.ID]bool{}
	for _, id := range cl.Cfg.Actors {
		faulty[hotstuff.ID(id)] = true
	}
	for _, id := range cl.Cfg.Twins {
		faulty[hotstuff.ID(id)] = true
	}
	for _, st := range cl.HonestStacks() {
		for _, b := range st.Commits {
			if faulty[b.Proposer()] {
				classes = append(classes, "committed-block-of-faulty-leader")
				goto done
			}
		}
	}
done:
	// how far do Byzantine proposals get?
	votedActor, votedSkip := false, false
	for _, r := range cl.Signs {
		if r.Kind == "vote" && cl.Stacks[r.Stack].Kind == "honest" && faulty[r.Block.Proposer()] && len(cl.Cfg.Actors) > 0 {
			votedActor = true
			if r.Block.Parent() != r.Block.QuorumCert().BlockHash() {
				votedSkip = true
			}
		}
	}
	if votedActor {
		classes = append(classes, "honest-voted-for-actor-block")
	}
	if votedSkip {
		classes = append(classes, "honest-voted-for-parent!=certified-block")
	}
	for _, b := range cl.AllBlk {
		if cb, ok := cl.Blocks[string(b.ToBytes())]; ok && cb != nil {
			for _, o := range cl.AllBlk {
				if o.QuorumCert().BlockHash() == b.Hash() && faulty[b.Proposer()] && len(cl.Cfg.Actors) > 0 && b.View() > 0 {
					classes = append(classes, "actor-block-certified")
					goto forks
				}
			}
		}
	}
forks:
	// forks: two proposed blocks with the same parent
	children := map[hotstuff.Hash]int{}
	forks := 0
	for _, b := range cl.AllBlk {
		children[b.Parent()]++
		if children[b.Parent()] == 2 {
			forks++
		}
	}
	if forks >= 2 {
		classes = append(classes, "forks>=2")
	}
	return
}

func c01Prop(c Case) common.Result {
	cl, err := New(c.Cfg)
	if err != nil {
		return common.Fail("harness", "cluster: %v", err)
	}
	defer cl.Close()
	mon := &ledgerMonitor{cl: cl, checked: map[int]int{}}
	cl.Start()
	var fp, msg string
	step := 0
	cl.Run(c.Steps, func() bool {
		step++
		fp, msg = mon.check()
		return fp == ""
	})
	if fp != "" {
		return common.Fail(fp+":"+c.Cfg.Rules, "after step %d: %s\nconfig: %s", step, msg, c.Cfg.Describe())
	}
	commits, faults, classes := cl.runStats()
	if cl.Inconclusive != "" {
		common.Get("C01").Inconclusive(cl.Inconclusive)
	}
	key := fmt.Sprintf("%s|%v", c.Cfg.Describe(), c.Steps)
	return common.OK(commits > 0 && faults > 0, key, classes...)
}

func genC01(rt *rapid.T) Case {
	o := GenOpts{Actor: true, Twins: true, ByView: true, MaxSteps: 140}
	cfg := GenConfig(rt, o)
	return Case{Cfg: cfg, Steps: GenSchedule(rt, cfg, o)}
}

func TestC01Ledgers(t *testing.T) {
	common.Check(t, "C01", "TestC01Ledgers", 8000, 160000, genC01, c01Prop)
}

// TestC01FastAggregate focuses on Fast-HotStuff with a Byzantine leader that misuses aggregate QCs (replays an old one,
// equivocates after a view change, withholds and releases proposals): views often end by timeout, so aggregate QCs exist.
func TestC01FastAggregate(t *testing.T) {
	common.Check(t, "C01", "TestC01FastAggregate", 3000, 80000, func(rt *rapid.T) Case {
		o := GenOpts{Actor: true, MaxSteps: 160, MinFaulty: 1, Rules: []string{"fasthotstuff"}, ActorBias: 26,
			ActorWeights: map[int]int{AProposeHonest: 3, AProposeWeird: 2, AVote: 1, AAssembleQC: 2, ARelabelQC: 1, ATimeout: 3, ANewView: 2,
				ARepeatQC: 1, AReplay: 2, AEquivocate: 5, AToggleFetch: 1, AVoteHonestly: 4, AForgedTC: 1, AProposeSkip: 2, AProposeStaleQC: 4,
				AProposeOnForged: 2, AHoldNext: 3, ARelease: 4, AProposeOldAgg: 9}}
		cfg := GenConfig(rt, o)
		cfg.ActorAuto = rapid.IntRange(0, 4).Draw(rt, "auto") != 0
		steps := GenSteps(rt, cfg, o)
		// more timeouts than usual: every aggregate QC needs a timed-out view
		for i := range steps {
			if steps[i].K == KDrop || steps[i].K == KDup {
				steps[i].K = KTimeoutAll
			}
		}
		return Case{Cfg: cfg, Steps: steps}
	}, c01Prop)
}

// TestC01TwinsEnumerated drives the simulator with the repository's own Twins scenarios: ALL scenarios the generator
// yields for 4 replicas, 1 twin pair, 2 partitions and 3 views (quick) / 4 views (thorough), each with one (quick) /
// three (thorough) delivery schedules and each ruleset. Unlike twins.ExecuteScenario the delivery order is not
// lock-step FIFO, and an unsafe outcome fails the check.
func TestC01TwinsEnumerated(t *testing.T) {
	views, orders := uint8(3), 1 // quick: all 5832 scenarios of 3 views, one delivery schedule each
	if common.Tier() == "thorough" {
		views, orders = 4, 3 // thorough: all 104,976 scenarios of 4 views, three delivery schedules each
	}
	limit := 1 << 30
	common.Get("C01").Note("TestC01TwinsEnumerated", map[string]any{"settings": fmt.Sprintf("nodes=4 twins=1 partitions=2 views=%d (all scenarios of the repository's generator)", views), "orders_per_scenario": orders})
	common.Exhaustive(t, "C01", "TestC01TwinsEnumerated", func(yield func(Case) bool) {
		g := twins.NewGenerator(kit.Logger("gen"), twins.Settings{NumNodes: 4, NumTwins: 1, Partitions: 2, Views: views})
		idx := func(n twins.NodeID) int {
			if n.ReplicaID == 1 {
				return int(n.TwinID) - 1
			}
			return int(n.ReplicaID)
		}
		for s := 0; s < limit; s++ {
			sc, err := g.NextScenario()
			if err != nil {
				return
			}
			var bv []ViewSpec
			for _, v := range sc {
				vs := ViewSpec{Leader: int(v.Leader)}
				for _, p := range v.Partitions {
					var part []int
					for n := range p {
						part = append(part, idx(n))
					}
					sort.Ints(part)
					vs.Partitions = append(vs.Partitions, part)
				}
				sort.Slice(vs.Partitions, func(i, j int) bool { return fmt.Sprint(vs.Partitions[i]) < fmt.Sprint(vs.Partitions[j]) })
				bv = append(bv, vs)
			}
			for _, rs := range AllRules {
				for order := 0; order < orders; order++ {
					x := uint64(s*9+order*3) + 12345
					next := func(n int) int {
						x = x*6364136223846793005 + 1442695040888963407
						return int((x >> 33) % uint64(n))
					}
					var steps []Step
					for i := 0; i < 36; i++ {
						switch r := next(10); {
						case r < 5:
							steps = append(steps, Step{K: KDeliver, A: next(40)})
						case r < 8:
							steps = append(steps, Step{K: KBurst, C: next(3)})
						case r < 9:
							steps = append(steps, Step{K: KTimeoutAll})
						default:
							steps = append(steps, Step{K: KTimeout, B: next(5)})
						}
					}
					for i := 0; i < 5; i++ {
						steps = append(steps, Step{K: KBurst, C: 5}, Step{K: KTimeoutAll})
					}
					steps = append(steps, Step{K: KBurst, C: 5}, Step{K: KBurst, C: 5})
					cfg := Config{N: 4, Rules: rs, Crypto: "fast", Batch: 1, Twins: []int{1}, ByView: bv}
					if !yield(Case{Cfg: cfg, Steps: steps}) {
						return
					}
				}
			}
		}
	}, c01Prop)
}

// TestC01CatchUp: the catch-up shape (a lagging replica alone with a Byzantine leader that hands out only the newest blocks, then the
// network heals; see genC06CatchUp) under this property's oracle.
func TestC01CatchUp(t *testing.T) {
	common.Check(t, "C01", "TestC01CatchUp", 1200, 30000, genC06CatchUp, c01Prop)
}
