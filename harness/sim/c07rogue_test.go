package sim

// C07 with BLS and a rogue public key: a Byzantine replica that registered x*G1 - sum(honest keys) (with a "proof of
// possession" that is not one) presents, again and again, a timeout or quorum certificate it signed alone but that names the
// honest replicas too. Forged certificates never move an honest replica - also not at the second or third presentation.

import (
	"fmt"
	"math/big"
	"testing"

	bls12 "github.com/kilic/bls12-381"
	"github.com/relab/hotstuff"
	"github.com/relab/hotstuff/security/crypto"
	"github.com/relab/hotstuff/verifx/common"
	"pgregory.net/rapid"
)

type rogueC07Case struct {
	Rules   string
	Victims []int // two of the honest replicas 1..3
	Kind    string // tc | qc
	Via     string // newview | timeout
	Rounds  int
	Warm    int
	Ahead   int // the forged certificate's view is the frontier + Ahead
}

func rogueC07Prop(c rogueC07Case) common.Result {
	cl, err := New(Config{N: 4, Rules: c.Rules, Crypto: "bls12", Actors: []int{4}, RogueVictims: c.Victims, Batch: 1, Leaders: []int{1, 2, 3}})
	if err != nil {
		return common.Fail("harness", "cluster: %v", err)
	}
	defer cl.Close()
	mon := &paceMonitor{cl: cl, prev: map[int]paceState{}, steps: map[int]int{}}
	cl.Start()
	for i := 0; i < c.Warm; i++ {
		cl.StepNo++
		cl.Burst(2)
	}
	mon.check()
	a := cl.Actor
	me := a.stacks[0]
	x := new(big.Int).SetBytes(cl.keys[me.ID].(*crypto.BLS12PrivateKey).ToBytes())
	g2 := bls12.NewG2()
	var bf crypto.Bitfield
	for _, v := range c.Victims {
		bf.Add(hotstuff.ID(v))
	}
	bf.Add(me.ID)
	forge := func(msg []byte) hotstuff.QuorumSignature {
		h, _ := g2.HashToCurve(msg, []byte("BLS_SIG_BLS12381G2_XMD:SHA-256_SSWU_RO_POP_"))
		g2.MulScalarBig(h, h, x)
		s, err := crypto.RestoreBLS12AggregateSignature(g2.ToCompressed(h), bf)
		if err != nil {
			panic(err)
		}
		if cl.ActorSigns[string(msg)] == nil {
			cl.ActorSigns[string(msg)] = map[hotstuff.ID]bool{}
		}
		cl.ActorSigns[string(msg)][me.ID] = true // by ground truth only the actor signed
		return s
	}
	view := a.maxView() + hotstuff.View(c.Ahead)
	si := hotstuff.NewSyncInfo()
	switch c.Kind {
	case "tc":
		si.SetTC(hotstuff.NewTimeoutCert(forge(view.ToBytes()), view))
	default:
		// a block of the actor for that view that nobody else ever saw, "certified" by the forged aggregate
		blk := hotstuff.NewBlock(hotstuff.GetGenesis().Hash(), hotstuff.NewQuorumCert(nil, 0, hotstuff.GetGenesis().Hash()), a.batch(), view, me.ID)
		cl.register(blk)
		si.SetQC(hotstuff.NewQuorumCert(forge(blk.ToBytes()), view, blk.Hash()))
	}
	for round := 1; round <= c.Rounds; round++ {
		for _, st := range cl.HonestStacks() {
			cl.StepNo++
			var payload any = hotstuff.NewViewMsg{ID: me.ID, SyncInfo: si, FromNetwork: true}
			if c.Via == "timeout" {
				tv := st.VS.View()
				vs, _ := me.base.Sign(tv.ToBytes())
				payload = hotstuff.TimeoutMsg{ID: me.ID, View: tv, SyncInfo: si, ViewSignature: vs}
			}
			cl.Deliver(Msg{From: me.Idx, To: st.Idx, Payload: payload})
			if fp, msg := mon.check(); fp != "" {
				return common.Fail(fp+":rogue-key:"+c.Rules, "presentation #%d of a %s for view %d signed by the rogue key alone (names %v + %d), via %s: %s", round, c.Kind, view, c.Victims, me.ID, c.Via, msg)
			}
		}
	}
	if cl.Inconclusive != "" {
		common.Get("C07").Inconclusive(cl.Inconclusive)
		return common.OK(false, "", "rogue inconclusive")
	}
	return common.OK(c.Rounds >= 2, fmt.Sprintf("%+v", c), "rogue-key "+c.Kind, "rogue-key via "+c.Via)
}

func TestC07RogueKey(t *testing.T) {
	common.Check(t, "C07", "TestC07RogueKey", 240, 4000, func(rt *rapid.T) rogueC07Case {
		c := rogueC07Case{Rules: rapid.SampledFrom([]string{"chainedhotstuff", "simplehotstuff"}).Draw(rt, "rules")}
		c.Victims = rapid.Permutation([]int{1, 2, 3}).Draw(rt, "victims")[:2]
		c.Kind = rapid.SampledFrom([]string{"tc", "tc", "qc"}).Draw(rt, "kind")
		c.Via = rapid.SampledFrom([]string{"newview", "timeout"}).Draw(rt, "via")
		c.Rounds = rapid.IntRange(1, 3).Draw(rt, "rounds")
		c.Warm = rapid.IntRange(0, 2).Draw(rt, "warm")
		c.Ahead = rapid.IntRange(0, 40).Draw(rt, "ahead")
		return c
	}, rogueC07Prop)
}
