package sim

import (
	"fmt"

	"github.com/relab/hotstuff"
	"github.com/relab/hotstuff/protocol/rules"
	"pgregory.net/rapid"
)

// Case is a whole simulator run: the replay file of a failing run is exactly this.
type Case struct {
	Cfg   Config
	Steps []Step
}

// GenOpts steers the generators.
type GenOpts struct {
	Actor     bool // allow a scripted Byzantine actor
	Twins     bool // allow twins
	Crash     bool // allow crashed replicas
	ByView    bool // allow Twins-style per-view scenarios
	MaxSteps  int
	ActorBias int // weight of actor steps (default 15)
	Rules     []string
	RealCrypto bool
	MinFaulty int // at least this many faulty replicas (bounded by f)
	ActorWeights map[int]int // overrides the default weights of actor action kinds
	CutPrefer []int // GenLagSteps: stack indices that are preferably the ones cut off (e.g. members of a later quorum)
}

var AllRules = []string{rules.NameChainedHotStuff, rules.NameSimpleHotStuff, rules.NameFastHotStuff}

// GenConfig draws a cluster configuration with at most f faulty replicas.
func GenConfig(rt *rapid.T, o GenOpts) Config {
	cfg := Config{}
	cfg.N = rapid.SampledFrom([]int{4, 4, 4, 7}).Draw(rt, "n")
	rs := o.Rules
	if len(rs) == 0 {
		rs = AllRules
	}
	cfg.Rules = rapid.SampledFrom(rs).Draw(rt, "rules")
	cryptos := []string{"fast", "fast", "fast", "fast", "fast", "fast", "fast", "fast", "fast", "fast", "fast", "ecdsa", "eddsa"}
	if o.RealCrypto {
		cryptos = []string{"ecdsa", "eddsa"}
	}
	cfg.Crypto = rapid.SampledFrom(cryptos).Draw(rt, "crypto")
	if cfg.Crypto != "fast" {
		cfg.Cache = rapid.SampledFrom([]int{0, 100}).Draw(rt, "cache")
	}
	cfg.Batch = rapid.IntRange(1, 3).Draw(rt, "batch")
	f := hotstuff.NumFaulty(cfg.N)
	nf := rapid.IntRange(min(o.MinFaulty, f), f).Draw(rt, "nfaulty")
	ids := rapid.Permutation(seqInts(cfg.N)).Draw(rt, "faultyids")[:nf]
	for _, id := range ids {
		var kinds []string
		if o.Actor {
			kinds = append(kinds, "actor", "actor")
		}
		if o.Twins {
			kinds = append(kinds, "twin")
		}
		if o.Crash {
			kinds = append(kinds, "crash")
		}
		if len(kinds) == 0 {
			break
		}
		switch rapid.SampledFrom(kinds).Draw(rt, "fkind") {
		case "actor":
			cfg.Actors = append(cfg.Actors, id)
		case "twin":
			cfg.Twins = append(cfg.Twins, id)
		case "crash":
			cfg.Crashed = append(cfg.Crashed, id)
		}
	}
	if len(cfg.Actors) > 0 {
		cfg.ActorAuto = rapid.IntRange(0, 3).Draw(rt, "autopilot") != 0
	}
	switch rapid.IntRange(0, 3).Draw(rt, "leadermode") {
	case 0: // the repository's round robin
	case 1: // fixed leader
		cfg.Leaders = []int{rapid.IntRange(1, cfg.N).Draw(rt, "fixedleader")}
	default: // scripted cycle; faulty replicas lead more often than by chance
		l := rapid.IntRange(3, 16).Draw(rt, "nleaders")
		for i := 0; i < l; i++ {
			if len(ids) > 0 && rapid.IntRange(0, 3).Draw(rt, "faultyleads") == 0 {
				cfg.Leaders = append(cfg.Leaders, ids[rapid.IntRange(0, len(ids)-1).Draw(rt, "fl")])
			} else {
				cfg.Leaders = append(cfg.Leaders, rapid.IntRange(1, cfg.N).Draw(rt, "leader"))
			}
		}
	}
	if o.ByView && rapid.IntRange(0, 2).Draw(rt, "byview") == 0 {
		nstacks := cfg.N + len(cfg.Twins)
		views := rapid.IntRange(4, 16).Draw(rt, "scnviews")
		for v := 0; v < views; v++ {
			vs := ViewSpec{Leader: rapid.IntRange(1, cfg.N).Draw(rt, "scnleader")}
			groups := rapid.SampledFrom([]int{1, 1, 2, 2, 3}).Draw(rt, "groups")
			parts := make([][]int, groups)
			for s := 0; s < nstacks; s++ {
				g := 0
				if groups > 1 {
					g = rapid.IntRange(0, groups-1).Draw(rt, "grp")
				}
				parts[g] = append(parts[g], s)
			}
			vs.Partitions = parts
			cfg.ByView = append(cfg.ByView, vs)
		}
	}
	return cfg
}

func seqInts(n int) []int {
	s := make([]int, n)
	for i := range s {
		s[i] = i + 1
	}
	return s
}

// GenSteps draws a schedule.
func GenSteps(rt *rapid.T, cfg Config, o GenOpts) []Step {
	max := o.MaxSteps
	if max == 0 {
		max = 120
	}
	n := rapid.IntRange(5, max).Draw(rt, "nsteps")
	var kinds []int
	add := func(k, w int) {
		for i := 0; i < w; i++ {
			kinds = append(kinds, k)
		}
	}
	add(KBurst, 30)
	add(KDeliver, 22)
	add(KDeliverTo, 8)
	add(KDrop, 5)
	add(KDup, 3)
	add(KTimeout, 7)
	add(KTimeoutAll, 4)
	add(KPartition, 3)
	add(KHeal, 4)
	if len(cfg.Actors) > 0 {
		w := o.ActorBias
		if w == 0 {
			w = 18
		}
		add(KActor, w)
	}
	steps := make([]Step, n)
	for i := range steps {
		steps[i] = Step{
			K: rapid.SampledFrom(kinds).Draw(rt, "k"),
			A: rapid.IntRange(0, 40).Draw(rt, "a"),
			B: rapid.IntRange(0, 40).Draw(rt, "b"),
			C: rapid.IntRange(0, 40).Draw(rt, "c"),
		}
		if steps[i].K == KPartition {
			steps[i].A = rapid.IntRange(0, 19682).Draw(rt, "part")
		}
		if steps[i].K == KActor {
			steps[i].A = rapid.SampledFrom(weightsList(o.ActorWeights)).Draw(rt, "act")
		}
	}
	return steps
}

var defaultActorWeights = map[int]int{AProposeHonest: 5, AProposeWeird: 5, AVote: 2, AAssembleQC: 3, ARelabelQC: 2, ATimeout: 3, ANewView: 4,
		ARepeatQC: 1, AReplay: 2, AEquivocate: 3, AToggleFetch: 1, AVoteHonestly: 5, AForgedTC: 2, AProposeSkip: 4, AProposeStaleQC: 3, AProposeOnForged: 4, AHoldNext: 2, ARelease: 3, AProposeOldAgg: 4, AProposeRelabelledSigners: 3}

func weightsList(w map[int]int) []int {
	if w == nil {
		w = defaultActorWeights
	}
	var l []int
	for k := 0; k < aCount; k++ {
		for i := 0; i < w[k]; i++ {
			l = append(l, k)
		}
	}
	return l
}

// Describe gives a short description of a configuration (evidence keys).
func (cfg Config) Describe() string {
	return fmt.Sprintf("n=%d %s %s twins=%v actors=%v crashed=%v leaders=%v byview=%d", cfg.N, cfg.Rules, cfg.Crypto, cfg.Twins, cfg.Actors, cfg.Crashed, cfg.Leaders, len(cfg.ByView))
}

// GenLagSteps draws a schedule shaped to make replicas fall behind and catch up: phases of synchronous progress, a
// partition during which the groups go on by themselves (progress or timeouts per group), loss of everything that crossed
// the partition, healing, and a few arbitrary steps in between. Leaves every choice to rapid.
func GenLagSteps(rt *rapid.T, cfg Config, o GenOpts) []Step {
	var steps []Step
	burst := func(label string, max int) {
		for i, n := 0, rapid.IntRange(0, max).Draw(rt, label); i < n; i++ {
			steps = append(steps, Step{K: KBurst, C: rapid.IntRange(0, 5).Draw(rt, "rounds")})
		}
	}
	phases := rapid.IntRange(1, 4).Draw(rt, "phases")
	for p := 0; p < phases; p++ {
		burst("warm", 5)
		if rapid.IntRange(0, 2).Draw(rt, "partkind") == 0 {
			steps = append(steps, Step{K: KPartition, A: rapid.IntRange(0, 19682).Draw(rt, "part")})
		} else {
			// a minority of at most f replicas is cut off, the rest stays together and can go on
			nst := cfg.N + len(cfg.Twins)
			var cut []int
			if len(o.CutPrefer) > 0 && rapid.IntRange(0, 2).Draw(rt, "cutpref") > 0 {
				cut = []int{o.CutPrefer[rapid.IntRange(0, len(o.CutPrefer)-1).Draw(rt, "cutwho")]}
			} else {
				cut = rapid.SliceOfNDistinct(rapid.IntRange(0, nst-1), 1, max(1, hotstuff.NumFaulty(cfg.N)), func(i int) int { return i }).Draw(rt, "cut")
			}
			code, pow := 0, 1
			for i := 0; i < nst; i++ {
				if contains(cut, i) {
					code += pow * rapid.IntRange(1, 2).Draw(rt, "cutgroup")
				}
				pow *= 3
			}
			steps = append(steps, Step{K: KPartition, A: code})
		}
		for i, n := 0, rapid.IntRange(1, 6).Draw(rt, "rounds-apart"); i < n; i++ {
			switch rapid.IntRange(0, 3).Draw(rt, "apart") {
			case 0:
				steps = append(steps, Step{K: KBurst, C: rapid.IntRange(0, 5).Draw(rt, "rounds")})
			case 1:
				steps = append(steps, Step{K: KTimeoutPart, B: rapid.IntRange(0, 2).Draw(rt, "group")}, Step{K: KBurst, C: 5})
			case 2:
				steps = append(steps, Step{K: KTimeoutAll}, Step{K: KBurst, C: 5})
			case 3:
				steps = append(steps, GenSteps(rt, cfg, GenOpts{MaxSteps: 6, ActorBias: o.ActorBias, ActorWeights: o.ActorWeights})...)
			}
		}
		if rapid.IntRange(0, 3).Draw(rt, "lose") > 0 {
			steps = append(steps, Step{K: KDropCross})
		}
		steps = append(steps, Step{K: KHeal})
		switch rapid.IntRange(0, 2).Draw(rt, "after") {
		case 0:
			steps = append(steps, Step{K: KDeliver, A: rapid.IntRange(0, 40).Draw(rt, "a")})
		case 1:
			steps = append(steps, Step{K: KTimeoutAll})
		}
		burst("cool", 4)
	}
	return steps
}

// GenSchedule draws either an unstructured schedule (GenSteps) or, for about a quarter of the cases without a per-view
// scenario, one shaped to make replicas fall behind and catch up (GenLagSteps).
func GenSchedule(rt *rapid.T, cfg Config, o GenOpts) []Step {
	if len(cfg.ByView) == 0 {
		switch rapid.IntRange(0, 7).Draw(rt, "shape") {
		case 0, 1:
			return GenLagSteps(rt, cfg, o)
		case 2, 3:
			return GenDeepLagSteps(rt, cfg, o)
		}
	}
	return GenSteps(rt, cfg, o)
}

// GenDeepLagSteps: one replica (preferably of o.CutPrefer) is cut off for many views while the others go on, everything
// that crossed the partition is usually lost, then the network heals: the replica returns far behind the others, missing
// the blocks in between.
func GenDeepLagSteps(rt *rapid.T, cfg Config, o GenOpts) []Step {
	var steps []Step
	for i, n := 0, rapid.IntRange(0, 3).Draw(rt, "warm"); i < n; i++ {
		steps = append(steps, Step{K: KBurst, C: rapid.IntRange(0, 5).Draw(rt, "rounds")})
	}
	nst := cfg.N + len(cfg.Twins)
	who := rapid.IntRange(0, nst-1).Draw(rt, "cutwho")
	if len(o.CutPrefer) > 0 {
		who = o.CutPrefer[mod(who, len(o.CutPrefer))]
	}
	code := 1
	for i := 0; i < who; i++ {
		code *= 3
	}
	steps = append(steps, Step{K: KPartition, A: code})
	for i, n := 0, rapid.IntRange(3, 16).Draw(rt, "rounds-apart"); i < n; i++ {
		if rapid.IntRange(0, 1).Draw(rt, "to") == 0 {
			steps = append(steps, Step{K: KTimeoutPart, B: 0})
		}
		steps = append(steps, Step{K: KBurst, C: 5})
	}
	if rapid.IntRange(0, 4).Draw(rt, "lose") > 0 {
		steps = append(steps, Step{K: KDropCross})
	}
	steps = append(steps, Step{K: KHeal})
	if rapid.IntRange(0, 1).Draw(rt, "after") == 0 {
		steps = append(steps, Step{K: KBurst, C: rapid.IntRange(0, 2).Draw(rt, "rounds")})
	}
	return steps
}

// GenRelaySteps: knowledge that reaches the others only second-hand. After some progress every timer fires, but only replica
// x (stack index) gets to hear the timeouts, so only x assembles the certificate and moves on; what x then sends reaches one
// or two others; everything else in flight is lost. (The caller typically cuts x off afterwards: whoever learned the
// certificate from x must be able to pass it on.)
func GenRelaySteps(rt *rapid.T, cfg Config, x int) []Step {
	var steps []Step
	for i, n := 0, rapid.IntRange(0, 4).Draw(rt, "warm"); i < n; i++ {
		steps = append(steps, Step{K: KBurst, C: rapid.IntRange(0, 5).Draw(rt, "rounds")})
	}
	if rapid.IntRange(0, 2).Draw(rt, "loseprop") > 0 {
		steps = append(steps, Step{K: KDropAll}) // the pending proposal / votes are lost: the view fails
	}
	for r, rounds := 0, rapid.IntRange(1, 2).Draw(rt, "relayrounds"); r < rounds; r++ {
		steps = append(steps, Step{K: KTimeoutAll})
		for i, n := 0, rapid.IntRange(2*cfg.N, 4*cfg.N).Draw(rt, "tox"); i < n; i++ {
			steps = append(steps, Step{K: KDeliverTo, B: x})
		}
		// what x sent after moving on (new-view to the next leader, perhaps a proposal) reaches a few others
		for i, n := 0, rapid.IntRange(0, 4).Draw(rt, "fromx"); i < n; i++ {
			steps = append(steps, Step{K: KDeliverTo, B: rapid.IntRange(0, cfg.N-1).Draw(rt, "to")})
		}
		steps = append(steps, Step{K: KDropAll})
	}
	return steps
}
