package sim

// C09, "before or after the block itself": votes for a block of view 2 that reach its collector (the leader of view 3)
// BEFORE the block does must count once the block is there - whatever else arrives in between. Here the proposal of view
// 1 (another block) may arrive in between, and block requests may go unanswered just then. Generated: an arrival order of
// the two proposals and the votes of replicas 2..n for the block of view 2, with or without answered fetches.

import (
	"fmt"
	"testing"

	"github.com/relab/hotstuff"
	"github.com/relab/hotstuff/core/eventloop"
	"github.com/relab/hotstuff/internal/proto/clientpb"
	"github.com/relab/hotstuff/verifx/common"
	"github.com/relab/hotstuff/verifx/kit"
	"pgregory.net/rapid"
)

// knownEarlyVotes is the fingerprint of the open finding "votes that wait for their block are released by ANY proposal and
// dropped when the block cannot be fetched at that moment".
const knownEarlyVotes = "early-votes-dropped-when-another-proposal-releases-them"

type earlyOp struct {
	K    string // p1 | p2 | vote
	From int
}

type earlyCase struct {
	N       int
	NoFetch bool
	Ops     []earlyOp
}

func earlyProp(c earlyCase) (verdict common.Result) {
	// replica 2 leads views 1 and 2, replica 1 (the subject) leads view 3 and collects the votes for the block of view 2
	cl, err := New(Config{N: c.N, Rules: "chainedhotstuff", Crypto: "fast", Batch: 1, Leaders: []int{2, 2, 1, 3, 3, 3}, NoFetch: c.NoFetch})
	if err != nil {
		return common.Fail("harness", "cluster: %v", err)
	}
	defer cl.Close()
	defer func() { verdict = cl.Verdict("C09", verdict) }()
	sub := cl.Stacks[0]
	q := cl.Quorum()
	g := hotstuff.GetGenesis()
	b1 := kit.NewBlock(g.Hash(), kit.GenesisQC(), &clientpb.Batch{Commands: []*clientpb.Command{{ClientID: 7, SequenceNumber: 1, Data: []byte("one")}}}, 1, 2)
	var sigs []hotstuff.QuorumSignature
	for _, st := range cl.Stacks[1 : 1+q] {
		sigs = append(sigs, sigOf(st, b1.ToBytes()))
	}
	qsig, err := sub.base.Combine(sigs...)
	if err != nil {
		return common.Fail("harness", "combine: %v", err)
	}
	b2 := kit.NewBlock(b1.Hash(), hotstuff.NewQuorumCert(qsig, 1, b1.Hash()), &clientpb.Batch{Commands: []*clientpb.Command{{ClientID: 7, SequenceNumber: 2, Data: []byte("two")}}}, 2, 2)
	for _, st := range cl.Stacks[1:] {
		st.BC.Store(b1) // the voters hold what they vote for
		st.BC.Store(b2)
	}
	cl.register(b1)
	cl.register(b2)
	var qcs []hotstuff.QuorumCert
	eventloop.Register(sub.EL, func(m hotstuff.NewViewMsg) {
		if qc, ok := m.SyncInfo.QC(); ok && !m.FromNetwork && qc.BlockHash() == b2.Hash() {
			qcs = append(qcs, qc)
		}
	})
	cl.Start()
	voters := map[int]bool{}    // valid votes for b2 that have arrived
	haveP1, haveP2 := false, false
	releasedEarly := false
	early := 0
	for step, op := range c.Ops {
		cl.StepNo++
		switch op.K {
		case "p1":
			if haveP1 {
				continue
			}
			haveP1 = true
			if !haveP2 && early > 0 {
				releasedEarly = true
			}
			cl.Deliver(Msg{From: 1, To: 0, Payload: hotstuff.ProposeMsg{ID: 2, Block: b1}})
		case "p2":
			if haveP2 || !haveP1 {
				continue // the block of view 2 reaches the subject after the block of view 1 (its parent)
			}
			haveP2 = true
			cl.Deliver(Msg{From: 1, To: 0, Payload: hotstuff.ProposeMsg{ID: 2, Block: b2}})
			voters[1] = true // the subject votes for the valid proposal of its current view
		case "vote":
			if op.From < 2 || op.From > c.N || voters[op.From] {
				continue
			}
			st := cl.Stacks[op.From-1]
			if !haveP2 {
				early++
			}
			voters[op.From] = true
			cl.Deliver(Msg{From: op.From - 1, To: 0, Payload: hotstuff.VoteMsg{ID: st.ID, PartialCert: hotstuff.NewPartialCert(sigOf(st, b2.ToBytes()), b2.Hash())}})
		}
		cl.drain(sub)
		desc := fmt.Sprintf("n=%d fetches answered=%v step %d %+v; block of view 2 at the collector: %v; valid votes for it that have arrived: %v (quorum %d)\nhistory %+v", c.N, !c.NoFetch, step, op, haveP2, keys(voters), q, c.Ops[:step+1])
		if len(qcs) > 0 && (len(voters) < q) {
			return common.Fail("early:qc-before-quorum", "a certificate was produced\n%s", desc)
		}
		if haveP2 && len(voters) >= q && len(qcs) == 0 {
			if releasedEarly && c.NoFetch {
				return common.Fail(knownEarlyVotes, "the block and a quorum of valid votes for it have arrived, no certificate: the votes that arrived before the block were released by the proposal of view 1, the block could not be fetched at that moment, and they were dropped\n%s", desc)
			}
			return common.Fail("early:qc-missing", "the block and a quorum of valid votes for it have arrived but no certificate was produced\n%s", desc)
		}
		if len(qcs) > 0 {
			break
		}
	}
	cls := []string{fmt.Sprintf("early n=%d", c.N), fmt.Sprintf("early fetches-answered=%v", !c.NoFetch)}
	if early > 0 {
		cls = append(cls, "early votes-before-block")
	}
	if releasedEarly {
		cls = append(cls, "early released-by-other-proposal")
	}
	return common.OK(early > 0 && len(qcs) > 0, "", cls...)
}

func TestC09VotingMachineEarlyVotes(t *testing.T) {
	common.Check(t, "C09", "TestC09VotingMachineEarlyVotes", 1500, 40000, func(rt *rapid.T) earlyCase {
		c := earlyCase{N: rapid.SampledFrom([]int{4, 4, 7}).Draw(rt, "n"), NoFetch: rapid.Bool().Draw(rt, "nofetch")}
		ops := []earlyOp{{K: "p1"}, {K: "p2"}}
		for i := 2; i <= c.N; i++ {
			ops = append(ops, earlyOp{K: "vote", From: i})
		}
		perm := rapid.Permutation(ops).Draw(rt, "order")
		c.Ops = append(perm, earlyOp{K: "p1"}, earlyOp{K: "p2"}) // whatever was skipped for order comes at the end
		return c
	}, earlyProp)
}
