package sim

// C06 — replicas execute the same commands exactly once, in chain order.

import (
	"fmt"
	"testing"

	"github.com/relab/hotstuff/internal/proto/clientpb"
	"github.com/relab/hotstuff/verifx/common"
	"google.golang.org/protobuf/proto"
	"pgregory.net/rapid"
)

func cmdKey(c *clientpb.Command) string { return fmt.Sprintf("%d/%d", c.GetClientID(), c.GetSequenceNumber()) }

type execMonitor struct {
	cl      *Cluster
	checked map[int]int
}

func (m *execMonitor) check() (string, string) {
	hs := m.cl.HonestStacks()
	for _, st := range hs {
		who := fmt.Sprintf("replica %d (stack %d)", st.ID, st.Idx)
		if st.AppliedErr != "" {
			return "exec:digest-unexplained", who + ": " + st.AppliedErr
		}
		// execution in chain order: the i-th ExecuteEvent carries the commands of the i-th committed block
		if len(st.Execs) != len(st.Commits) {
			return "exec:count", fmt.Sprintf("%s: %d blocks committed, %d batches handed to the application", who, len(st.Commits), len(st.Execs))
		}
		for i := m.checked[st.Idx]; i < len(st.Execs); i++ {
			if !proto.Equal(st.Execs[i], st.Commits[i].Commands()) {
				return "exec:order", fmt.Sprintf("%s: batch #%d handed to the application is not the batch of committed block #%d (%s)", who, i, i, blockName(st.Commits[i]))
			}
		}
		m.checked[st.Idx] = len(st.Execs)
		seen := map[string]bool{}
		for _, c := range st.Applied {
			if seen[cmdKey(c)] {
				return "exec:twice", fmt.Sprintf("%s applied command (client %d, seq %d) twice", who, c.GetClientID(), c.GetSequenceNumber())
			}
			seen[cmdKey(c)] = true
		}
		if int(st.CIO.CmdCount()) != len(st.Applied) {
			return "exec:cmdcount", fmt.Sprintf("%s: CmdCount() = %d but %d commands were applied", who, st.CIO.CmdCount(), len(st.Applied))
		}
	}
	for i := 0; i < len(hs); i++ {
		for j := i + 1; j < len(hs); j++ {
			a, b := hs[i].Applied, hs[j].Applied
			n := min(len(a), len(b))
			for k := 0; k < n; k++ {
				if cmdKey(a[k]) != cmdKey(b[k]) || string(a[k].Data) != string(b[k].Data) {
					return "exec:diverge", fmt.Sprintf("replicas %d and %d applied different commands at position %d: %s vs %s", hs[i].ID, hs[j].ID, k, cmdKey(a[k]), cmdKey(b[k]))
				}
			}
		}
	}
	return "", ""
}

func c06Prop(c Case) common.Result {
	cl, err := New(c.Cfg)
	if err != nil {
		return common.Fail("harness", "cluster: %v", err)
	}
	defer cl.Close()
	mon := &execMonitor{cl: cl, checked: map[int]int{}}
	cl.Start()
	var fp, msg string
	cl.Run(c.Steps, func() bool {
		fp, msg = mon.check()
		return fp == ""
	})
	if fp != "" {
		return common.Fail(fp+":"+c.Cfg.Rules, "%s\nconfig: %s", msg, c.Cfg.Describe())
	}
	// non-triviality: a command in two committed blocks of one replica, or aborted and executed
	nontrivial := false
	var classes []string
	for _, st := range cl.HonestStacks() {
		inBlocks := map[string]int{}
		for _, b := range st.Commits {
			for _, cmd := range b.Commands().GetCommands() {
				inBlocks[cmdKey(cmd)]++
			}
		}
		aborted := map[string]bool{}
		for _, b := range st.Aborts {
			for _, cmd := range b.GetCommands() {
				aborted[cmdKey(cmd)] = true
			}
		}
		for k, n := range inBlocks {
			if n >= 2 {
				nontrivial = true
				classes = append(classes, "command-in-two-committed-blocks")
				break
			}
			_ = k
		}
		for _, cmd := range st.Applied {
			if aborted[cmdKey(cmd)] {
				nontrivial = true
				classes = append(classes, "aborted-and-executed")
				break
			}
		}
		if len(st.Aborts) > 0 {
			classes = append(classes, "aborts")
		}
		if len(st.Applied) > 0 {
			classes = append(classes, "applied>0")
		}
		skipped := 0
		for _, b := range st.Commits {
			skipped += len(b.Commands().GetCommands())
		}
		if skipped > len(st.Applied) {
			classes = append(classes, "duplicate-filter-skipped-commands")
		}
	}
	_, _, rc := cl.runStats()
	classes = append(classes, rc...)
	if cl.Inconclusive != "" {
		common.Get("C06").Inconclusive(cl.Inconclusive)
	}
	return common.OK(nontrivial, fmt.Sprintf("%s|%v", c.Cfg.Describe(), c.Steps), dedup(classes)...)
}

func dedup(l []string) []string {
	seen := map[string]bool{}
	var o []string
	for _, s := range l {
		if !seen[s] {
			seen[s] = true
			o = append(o, s)
		}
	}
	return o
}

func genC06(rt *rapid.T) Case {
	o := GenOpts{Actor: true, Twins: true, ByView: true, MaxSteps: 140}
	cfg := GenConfig(rt, o)
	cfg.ActorReuseCmds = len(cfg.Actors) > 0 && rapid.IntRange(0, 3).Draw(rt, "reuse") != 0
	return Case{Cfg: cfg, Steps: GenSchedule(rt, cfg, o)}
}

// genC06CatchUp: a replica that has to catch up while the blocks it misses cannot be fetched, and later can. The leader of
// every view is the Byzantine actor, honest by default but refusing block fetches; one honest replica is cut off while the
// others go on; then it is alone with the leader (whose next proposal it receives, whose blocks it cannot get, and from the
// others it is still cut off); then the network heals. Everything the replica commits late must be executed completely and
// in order.
func genC06CatchUp(rt *rapid.T) Case {
	cfg := Config{N: 4, Rules: rapid.SampledFrom(AllRules).Draw(rt, "rules"), Crypto: "fast", Batch: rapid.IntRange(1, 2).Draw(rt, "batch"), ActorAuto: true}
	actor := rapid.IntRange(1, 4).Draw(rt, "actor")
	cfg.Actors, cfg.Leaders = []int{actor}, []int{actor}
	if rapid.IntRange(0, 3).Draw(rt, "rotation") == 0 {
		cfg.Leaders = nil // round robin: the replica gets the actor's proposals only in the views the actor leads
	}
	var honest []int
	for i := 0; i < 4; i++ {
		if i+1 != actor {
			honest = append(honest, i)
		}
	}
	r := honest[rapid.IntRange(0, 2).Draw(rt, "lagging")]
	pow := func(i int) int {
		p := 1
		for ; i > 0; i-- {
			p *= 3
		}
		return p
	}
	var steps []Step
	burst := func(n int) {
		for i := 0; i < n; i++ {
			steps = append(steps, Step{K: KBurst, C: 5})
		}
	}
	burst(rapid.IntRange(0, 3).Draw(rt, "warm"))
	if rapid.IntRange(0, 3).Draw(rt, "refuse") > 0 {
		steps = append(steps, Step{K: KActor, A: AToggleFetch})
	}
	steps = append(steps, Step{K: KPartition, A: pow(r)}) // r alone in group 1
	apart := rapid.IntRange(2, 10).Draw(rt, "apart")
	if rapid.IntRange(0, 3).Draw(rt, "long-gap") == 0 {
		// the replica misses MANY blocks, and the event queues are as small as the repository's wiring makes them (100):
		// catching up commits all of them inside one TryCommit
		cfg.LoopCap = 100
		apart = rapid.IntRange(30, 50).Draw(rt, "apart-long")
	}
	if rapid.IntRange(0, 2).Draw(rt, "ambiguous") == 0 {
		// one of the blocks the replica misses has a second reading (see AProposeAmbiguous); whoever fetches it from the
		// leader gets that one
		k := rapid.IntRange(0, apart-1).Draw(rt, "ambiguous-at")
		burst(k)
		steps = append(steps, Step{K: KActor, A: AProposeAmbiguous, B: rapid.IntRange(0, 9).Draw(rt, "amb-b"), C: rapid.IntRange(0, 1).Draw(rt, "amb-c")})
		burst(apart - k)
	} else {
		burst(apart)
	}
	steps = append(steps, Step{K: KDropCross})
	// the proposals made from here on stay in flight towards r: they are all it gets to see of what it missed
	burst(rapid.IntRange(0, 2).Draw(rt, "tail"))
	// r together with the leader (group 1), the other two honest replicas in group 0
	steps = append(steps, Step{K: KPartition, A: pow(r) + pow(actor-1)})
	if rapid.IntRange(0, 3).Draw(rt, "recent-only") > 0 {
		// the leader hands out the newest blocks but withholds older ones: what the replica needs to follow the proposals
		// it can get, the ancestors it must execute it cannot - until the network heals
		steps = append(steps, Step{K: KActor, A: AServeRecentOnly, B: rapid.IntRange(0, 4).Draw(rt, "recent")})
	}
	burst(rapid.IntRange(1, 3).Draw(rt, "alone-with-leader"))
	if rapid.Bool().Draw(rt, "timeout") {
		steps = append(steps, Step{K: KTimeoutPart, B: 1}, Step{K: KBurst, C: 5})
	}
	steps = append(steps, Step{K: KHeal})
	if rapid.Bool().Draw(rt, "serve-again") {
		steps = append(steps, Step{K: KActor, A: AToggleFetch})
	}
	burst(rapid.IntRange(2, 6).Draw(rt, "after"))
	steps = append(steps, GenSteps(rt, cfg, GenOpts{MaxSteps: 12})...)
	burst(2)
	return Case{Cfg: cfg, Steps: steps}
}

func TestC06ExecutionCatchUp(t *testing.T) {
	common.Check(t, "C06", "TestC06ExecutionCatchUp", 2000, 40000, genC06CatchUp, c06Prop)
}

func TestC06Execution(t *testing.T) {
	common.Check(t, "C06", "TestC06Execution", 5000, 100000, genC06, c06Prop)
}
