#!/bin/bash
# usage: tools/mutate.sh <patch.diff> <check-id>... ; applies the patch to a scratch worktree of /repo and runs the checks against it
# (evidence/replays of such runs go to .build-scratch/, never to /verif/evidence). Prints one line per check: id exit-code seconds.
set -u
patch=$(realpath "$1"); shift
wt=$(mktemp -d /tmp/mutwt.XXXXXX)
rmdir "$wt"
git -C /repo worktree add --detach -q "$wt" HEAD || exit 2
# include uncommitted changes of /repo? no: mutations are relative to HEAD
if ! git -C "$wt" apply "$patch"; then echo "PATCH-DOES-NOT-APPLY $patch"; git -C /repo worktree remove --force "$wt"; exit 2; fi
export VERIF_REPO="$wt" VERIF_BUILD="/verif/.build-scratch/$(basename $wt)"
for id in "$@"; do
  t0=$(date +%s)
  out=$(/verif/check "$id" --tier "${TIER:-quick}" 2>&1); rc=$?
  echo "MUTATION $(basename $patch) check=$id exit=$rc secs=$(( $(date +%s) - t0 ))"
  echo "$out" | grep -E "^(VIOLATION|INFRA|BUILD-FAILURE|---)" | head -8
  [ -n "${VERBOSE:-}" ] && echo "$out" | tail -40
done
git -C /repo worktree remove --force "$wt"
rm -rf "$VERIF_BUILD"
