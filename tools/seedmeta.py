#!/usr/bin/env python3
"""(re)writes seeded/<id>/meta.json from the agent's meta, my confirmation log and the detection log"""
import json, os, re, sys, glob
V="/verif"
for d in sorted(glob.glob(V+"/seeded/*/")):
    name=os.path.basename(d.rstrip("/"))
    try: a=json.load(open(d+"meta.agent.json"))
    except Exception: a={}
    conf=open(d+"confirmation.log").read() if os.path.exists(d+"confirmation.log") else ""
    det=open(d+"detection.log").read() if os.path.exists(d+"detection.log") else ""
    m=re.search(r"build_rc=(\d+) demo_without_rc=(\d+) demo_with_rc=(\d+) suite_failures=(\d+)",conf)
    caught=[x for x in re.findall(r"check=(C\d+) exit=1",det)]
    missed=[x for x in re.findall(r"check=(C\d+) exit=0",det)]
    fps=re.findall(r"^--- (\S+) \(([^)]+)\)",det,re.M)
    meta={"property":a.get("property",name[:3]),"written_by":"independent sub-agent (saw only the property text and a scratch worktree)",
      "summary":a.get("summary",""),"needs_to_manifest":a.get("needs_to_manifest",""),"files_changed":a.get("files_changed",[]),
      "demonstration":[os.path.basename(x) for x in glob.glob(d+"*_test.go")],
      "confirmed":{"what_i_ran":"tools/seedcheck.sh: fresh scratch worktree of /repo HEAD; demonstration without the change; git apply patch.diff; go build ./...; demonstration with the change; unedited suite `go test -vet=off -count=1 ./...` with the change (core/eventloop TestTicker re-run alone if it was the only failure)",
                   "build_ok":bool(m and m.group(1)=="0"),"demo_passes_without_change":bool(m and m.group(2)=="0"),"demo_fails_with_change":bool(m and m.group(3)!="0"),"suite_failures_with_change":int(m.group(4)) if m else None},
      "detection":{"quick_tier_checks_that_report_a_violation":sorted(set(caught)),"quick_tier_checks_run_that_stay_silent":sorted(set(missed)-set(caught)),"fingerprints":sorted(set(f[1] for f in fps))[:6]}}
    if os.path.exists(d+"note.txt"): meta["note"]=open(d+"note.txt").read().strip()
    if os.path.exists(d+"patch.rebased.diff"): meta["rebased"]="patch.rebased.diff is the same change re-applied by hand after later repairs of /repo moved the context; the detection log refers to it"
    json.dump(meta,open(d+"meta.json","w"),indent=1)
    print(name,meta["confirmed"],meta["detection"]["quick_tier_checks_that_report_a_violation"],meta["detection"]["quick_tier_checks_run_that_stay_silent"])
