#!/usr/bin/env python3
"""Regenerates /verif/MANIFEST.json from harness/checks.py (claimed checks) and properties.jsonl (the rest -> not_applicable)."""
import json, os, sys
V = os.path.dirname(os.path.dirname(os.path.abspath(__file__)))
sys.path.insert(0, os.path.join(V, "harness"))
from checks import CHECKS, NOT_APPLICABLE

props = [json.loads(l) for l in open(os.path.join(V, "properties.jsonl")) if l.strip()]
READY = set(open(os.path.join(V, "harness", "ready.txt")).read().split())
checks = []
for p in props:
    cid = p["id"]
    if cid not in CHECKS or cid not in READY:
        continue
    s = CHECKS[cid]
    checks.append({
        "property_id": cid,
        "quick_cmd": "./check %s --tier quick" % cid,
        "thorough_cmd": "./check %s --tier thorough" % cid,
        "evidence_file": "evidence/%s.json" % cid,
        "replay_cmd_template": "./check %s --replay {path}" % cid,
        "engine": s.get("engine", "E2"),
        "level_claimed": {"category": "exploration", "text": s.get("level_text", "generated-input search against an explicit oracle; no counterexample among the cases counted in the evidence"), "design_ref": "DESIGN.md section 4, " + cid},
        "level_note": s.get("level_note", "; ".join(s.get("assumptions", [])) or "harness oracle and generators are trusted"),
        "technique": s.get("technique", "property-based testing (pgregory.net/rapid) against a reference oracle"),
    })
na = [{"property_id": p["id"], "reason": NOT_APPLICABLE.get(p["id"], "check not built yet (work in progress); see DESIGN.md")} for p in props if p["id"] not in CHECKS or p["id"] not in READY]
m = {
    "version": 1,
    "setup_cmd": "./check setup",
    "hooks": {
        "guard": "verif",
        "enable": "no source hooks in /repo: harness files (in-package zz_verif_*_test.go, //go:build verif accessors and overlay-only packages under verifx/) are injected at build time with `go test -c -tags verif -overlay=.build/<id>/overlay.json -modfile=.build/<id>/go.mod` from /repo's working tree",
        "baseline_off_cmd": "cd /repo && go test -vet=off -count=1 -timeout 25m ./...",
        "source_commits": [],
        "add_only": True,
    },
    "engines": [
        {"name": "E1", "path": "harness/sim", "serves_properties": ["C01", "C03", "C05", "C06", "C07"], "kind_free_text": "deterministic cluster simulator built from the real replica components; schedules are rapid-generated data"},
        {"name": "E2", "path": "harness/x, harness/pkg", "serves_properties": ["C02", "C04", "C08", "C09", "C11", "C12", "C13", "C14", "C15", "C16", "C17", "C18", "C19", "C20"], "kind_free_text": "package-level rapid / exhaustive checks against reference models"},
        {"name": "E3", "path": "harness/x/c10", "serves_properties": ["C10"], "kind_free_text": "wire-message generators and native go fuzzing through the real service handlers"},
    ],
    "checks": checks,
    "not_applicable": na,
    "notes": "All checks are driven by ./check (python3, stdlib only). VERIF_SEED selects the rapid seed (per-shard seeds are derived with splitmix). Exit 2 = infrastructure problem (no verdict). Known findings: known_findings.json.",
}
json.dump(m, open(os.path.join(V, "MANIFEST.json"), "w"), indent=1)
print("claimed:", [c["property_id"] for c in checks], "not claimed:", len(na))
