#!/usr/bin/env python3
"""usage: mkmut.py <ID> <name> <file-in-repo> <old> <new>  -> writes mutations/<ID>/<name>.diff (a unified diff against /repo HEAD)"""
import sys, os, subprocess, tempfile, shutil
cid, name, rel, old, new = sys.argv[1:6]
src = subprocess.run(["git", "-C", "/repo", "show", "HEAD:" + rel], stdout=subprocess.PIPE, text=True, check=True).stdout
old = old.encode().decode("unicode_escape"); new = new.encode().decode("unicode_escape")
if src.count(old) != 1:
    sys.exit("pattern occurs %d times in %s" % (src.count(old), rel))
d = tempfile.mkdtemp()
a = os.path.join(d, "a", rel); b = os.path.join(d, "b", rel)
os.makedirs(os.path.dirname(a)); os.makedirs(os.path.dirname(b))
open(a, "w").write(src); open(b, "w").write(src.replace(old, new))
out = subprocess.run(["diff", "-u", "a/" + rel, "b/" + rel], cwd=d, stdout=subprocess.PIPE, text=True).stdout
shutil.rmtree(d)
dst = os.path.join("/verif/mutations", cid); os.makedirs(dst, exist_ok=True)
open(os.path.join(dst, name + ".diff"), "w").write(out)
print(os.path.join(dst, name + ".diff"))
