#!/bin/bash
# usage: tools/seedcheck.sh <seedout-dir> <name> <package-dir-for-demo> <check-id>...
# Confirms a seeded change independently (applies, builds, unedited suite passes, demonstration fails with it and passes without it),
# stores it under /verif/seeded/<name>/ and runs the given checks against the changed tree.
set -u
src=$(realpath "$1"); name=$2; placement=$3; shift 3
export GOFLAGS=-mod=mod GOPROXY=off GOSUMDB=off GOTOOLCHAIN=local
GO=/root/go/pkg/mod/golang.org/toolchain@v0.0.1-go1.25.6.linux-amd64/bin/go
wt=$(mktemp -d /tmp/seedwt.XXXXXX); rmdir "$wt"
git -C /repo worktree add --detach -q "$wt" HEAD || exit 2
out=/verif/seeded/$name; mkdir -p "$out"
log="$out/confirmation.log"; : > "$log"
demo=$(ls "$src"/demo*_test.go 2>/dev/null | head -1)
demoname=zz_seed_demo_test.go
runre="^($(grep -ohE '^func (Test[A-Za-z0-9_]+)' "$demo" | sed 's/func //' | paste -sd'|'))\$"
echo "placement=$placement demo=$demo" | tee -a "$log"
cp "$demo" "$wt/$placement/$demoname"
pkg="./$placement/"
echo "== demonstration WITHOUT the change" | tee -a "$log"
(cd "$wt" && $GO test -vet=off -count=1 -run "$runre" "$pkg") >> "$log" 2>&1; rc_without=$?
if ! git -C "$wt" apply "$src/patch.diff"; then echo "PATCH-DOES-NOT-APPLY" | tee -a "$log"; git -C /repo worktree remove --force "$wt"; exit 2; fi
echo "== build + demonstration WITH the change" | tee -a "$log"
(cd "$wt" && $GO build ./... ) >> "$log" 2>&1; rc_build=$?
(cd "$wt" && $GO test -vet=off -count=1 -run "$runre" "$pkg") >> "$log" 2>&1; rc_with=$?
echo "== unedited suite WITH the change (demonstration removed)" | tee -a "$log"
rm "$wt/$placement/$demoname"
(cd "$wt" && $GO test -vet=off -count=1 ./... 2>&1 | grep -v "no test files") > "$out/suite.log" 2>&1
fails=$(grep -c "^FAIL\|^--- FAIL" "$out/suite.log")
if grep -q "^--- FAIL: TestTicker" "$out/suite.log" && [ "$(grep -c '^--- FAIL' "$out/suite.log")" = 1 ]; then
  (cd "$wt" && $GO test -vet=off -count=1 ./core/eventloop/) >> "$out/suite.log" 2>&1 && fails=0
fi
echo "build_rc=$rc_build demo_without_rc=$rc_without demo_with_rc=$rc_with suite_failures=$fails" | tee -a "$log"
git -C /repo worktree remove --force "$wt"
cp "$src/patch.diff" "$out/patch.diff"; cp "$demo" "$out/$(basename $demo)"; cp "$src/meta.json" "$out/meta.agent.json"
ok=0; [ $rc_build = 0 ] && [ $rc_without = 0 ] && [ $rc_with != 0 ] && [ "$fails" = 0 ] && ok=1
echo "CONFIRMED=$ok" | tee -a "$log"
: > "$out/detection.log"
for id in "$@"; do
  /verif/tools/mutate.sh "$out/patch.diff" "$id" 2>&1 | grep -E "^MUTATION|^---|PATCH" | head -6 | tee -a "$out/detection.log"
done
